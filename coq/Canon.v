(* Canon.v — the attribute-markup language as a SPECIFICATION: which elements are
   expressible, the canonical markup of a string of them (directives only for
   what differs from the previous element) and what it must decode to.
   Definitions only. *)
From TP Require Export Markup.
Local Open Scope N_scope.

Inductive xcolour := XLow (d : N) | XHigh (r g b : N) | XGrey (s : N) | XTrue (r g b : N).
Inductive xglyph := XByte (cs : charset) (b : byte) | XUni (v : N).
Record xelem := mkX {
  xg : xglyph; xfg : xcolour; xbg : xcolour; xint : intensity; xul : bool; xneg : bool }.

Definition colour_of (c : xcolour) : colour :=
  match c with
  | XLow d => CLow d
  | XHigh r g b => CHigh (16 + 36 * r + 6 * g + b)
  | XGrey s => CGrey (232 + s)
  | XTrue r g b => CTrue r g b
  end.

Definition wf_xcolour (c : xcolour) : bool :=
  match c with
  | XLow d => d <=? 9
  | XHigh r g b => (r <=? 5) && (g <=? 5) && (b <=? 5)
  | XGrey s => s <=? 23
  | XTrue r g b => (r <? 256) && (g <? 256) && (b <? 256)
  end.

Definition wf_x (x : xelem) : bool :=
  match xg x with
  | XByte cs b => negb (cs_eqb cs CsUtf8) && (b <? 256)
  | XUni v => v <=? 65535
  end && wf_xcolour (xfg x) && wf_xcolour (xbg x).

(* the element a markup element denotes; the two unused storage bytes of a
   non-UTF-8 glyph are not part of its value (glyph ==) *)
Definition glyph_of (g : xglyph) : glyph :=
  match g with
  | XByte cs b => mkGlyph cs b 0 0
  | XUni v => utf8_encode v
  end.
Definition target (x : xelem) : element :=
  mkElem (glyph_of (xg x))
         (mkAttr (colour_of (xfg x)) (colour_of (xbg x)) (xint x) (xul x) (xneg x) false).

(* ---- spelling ---------------------------------------------------------------------- *)
Definition hexd (n : N) : byte := if n <? 10 then 48 + n else 55 + n.   (* 0-9 A-F *)

Definition colour_markup (fgp : bool) (c : xcolour) : list byte :=
  match c with
  | XLow d => [92; if fgp then 91 else 93; 48 + d]
  | XHigh r g b => [92; if fgp then 60 else 62; 48 + r; 48 + g; 48 + b]
  | XGrey s => [92; if fgp then 123 else 125; 48 + s / 10; 48 + s mod 10]
  | XTrue r g b =>
      [92; if fgp then 40 else 41; hexd (r / 16); hexd (r mod 16);
       hexd (g / 16); hexd (g mod 16); hexd (b / 16); hexd (b mod 16)]
  end.

Definition glyph_markup (g : xglyph) : list byte :=
  match g with
  | XByte _ b => if b =? 92 then [92; 92] else [b]
  | XUni v => [92; 85; hexd (v / 4096); hexd ((v / 256) mod 16); hexd ((v / 16) mod 16); hexd (v mod 16)]
  end.

Definition inten_char (i : intensity) : byte :=
  match i with IBold => 62 | IFaint => 60 | INormal => 61 end.

(* the markup of one element, given the element the decoder starts from
   (element_with_base of the previous one): a directive for each property that
   differs, then the glyph *)
Definition canon_elem (base : element) (x : xelem) : list byte :=
  (match xg x with
   | XByte cs _ => if cs_eqb cs (gcs (eg base)) then [] else 92 :: 99 :: encode_cs cs
   | XUni _ => []
   end) ++
  (if inten_eqb (xint x) (inten (ea base)) then [] else [92; 105; inten_char (xint x)]) ++
  (if Bool.eqb (xneg x) (neg (ea base)) then [] else [92; 112; if xneg x then 45 else 43]) ++
  (if Bool.eqb (xul x) (ul (ea base)) then [] else [92; 117; if xul x then 43 else 45]) ++
  (if colour_eqb (colour_of (xfg x)) (fg (ea base)) then [] else colour_markup true (xfg x)) ++
  (if colour_eqb (colour_of (xbg x)) (bg (ea base)) then [] else colour_markup false (xbg x)) ++
  glyph_markup (xg x).

(* what decoding yields: the base with the properties replaced *)
Definition decoded (base : element) (x : xelem) : element :=
  let g := eg base in
  mkElem (match xg x with
          | XByte cs b => mkGlyph cs b (g1 g) (g2 g)
          | XUni v => utf8_encode v
          end)
         (mkAttr (colour_of (xfg x)) (colour_of (xbg x)) (xint x) (xul x) (xneg x) (blink (ea base))).

Fixpoint canon_from (prev : element) (xs : list xelem) : list byte :=
  match xs with
  | [] => []
  | x :: r =>
      let base := element_with_base prev in
      canon_elem base x ++ canon_from (decoded base x) r
  end.

Fixpoint decode_list (prev : element) (xs : list xelem) : list element :=
  match xs with
  | [] => []
  | x :: r =>
      let e := decoded (element_with_base prev) x in e :: decode_list e r
  end.

Definition canon (xs : list xelem) : list byte := canon_from default_element xs.
