(* P_Link.v — the decidable clauses the extracted oracle evaluates on the
   implementation's observations are consequences of the invariant: on the
   model's own observations the oracle's clauses 101 and 801 never fire. *)
From TP Require Import Base Elem Term VT Oracle P_Dec P_VT P_Diff P_Sync P_Step P_Bytes P_Run.
From Coq Require Import ZArith Lia ZifyBool ZifyN.
Local Open Scope N_scope.

Lemma vcolour_eqb_refl c : rend_eqb_v c c = true.
Proof. destruct c; cbn; rewrite ?N.eqb_refl; reflexivity. Qed.

Lemma rend_eqb_refl r : rend_eqb r r = true.
Proof.
  destruct r as [i u n b f g]. unfold rend_eqb. cbn.
  rewrite inten_eqb_refl, !Bool.eqb_reflx, !vcolour_eqb_refl. reflexivity.
Qed.

Lemma pt_eqb_refl p : pt_eqb p p = true.
Proof. unfold pt_eqb. rewrite !N.eqb_refl. reflexivity. Qed.

Lemma cs_ok_bool beh c v : cs_ok beh c v -> charset_ok beh c v = true.
Proof.
  unfold cs_ok, charset_ok. destruct (cs_eqb c CsUtf8).
  - intros [Hu [Hb|Hg]]; rewrite Hu; [rewrite Hb|rewrite Hg, cs_eqb_refl, orb_true_r]; reflexivity.
  - intros [Hu Hg]. rewrite Hu, Hg, cs_eqb_refl. reflexivity.
Qed.

Theorem sync_truthful beh st v : Sync beh st v -> truthful beh st v = true.
Proof.
  intros [Slex Smal Sunk Ssize Scs Srend Scur Ssaved Svis]. unfold truthful.
  rewrite Ssize, pt_eqb_refl. cbn [andb].
  assert (H1 : match ts_last st with
               | Some l => rend_eqb (rend v) (rend_of (ea l)) && charset_ok beh (gcs (eg l)) v
               | None => charset_ok beh CsAscii v
               end = true).
  { unfold last_cs in Scs. destruct (ts_last st) as [l|].
    - rewrite (Srend l eq_refl), rend_eqb_refl. cbn [andb]. apply cs_ok_bool. exact Scs.
    - apply cs_ok_bool. exact Scs. }
  rewrite H1. cbn [andb].
  assert (H2 : match ts_cur st with
               | Some p => pt_eqb (vcur v) p && negb (pending v) && inside p (vsize v)
               | None => true end = true).
  { destruct (ts_cur st) as [p|]; [|reflexivity].
    destruct (Scur p eq_refl) as (A & B & C). rewrite A, B, C, pt_eqb_refl. reflexivity. }
  rewrite H2. cbn [andb].
  assert (H3 : match ts_saved st with
               | Some p => opt_eqb pt_eqb (vsaved v) (Some p) && inside p (vsize v)
               | None => true end = true).
  { destruct (ts_saved st) as [p|]; [|reflexivity].
    destruct (Ssaved p eq_refl) as (A & B). rewrite A, B. cbn [opt_eqb]. rewrite pt_eqb_refl. reflexivity. }
  rewrite H3. cbn [andb].
  destruct (ts_vis st) as [b|]; [|reflexivity]. rewrite (Svis b eq_refl). apply Bool.eqb_reflx.
Qed.

Theorem sync_clause_101 beh st v : Sync beh st v ->
  (malformed v || unknown v || negb (match lex v with Ground => true | _ => false end)) = false.
Proof. intros S. rewrite (sy_lex _ _ _ S), (sy_mal _ _ _ S), (sy_unk _ _ _ S). reflexivity. Qed.
