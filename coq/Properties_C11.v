(* Properties_C11.v -- placeholder, theorems follow *)
From TP Require Import Term.
