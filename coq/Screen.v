(* Screen.v — model of canvas.cpp, for_each_in_region.hpp, screen.cpp.
   Definitions only. *)
From TP Require Export Term.
Local Open Scope N_scope.

Record canvas := mkCanvas { cw : N; ch : N; grid : list element }.

Definition blank_canvas (w h : N) : canvas :=
  mkCanvas w h (repeat default_element (N.to_nat (w * h))).

Definition cv_index (c : canvas) (x y : N) : nat := N.to_nat (y * cw c + x).

Definition cv_get (c : canvas) (x y : N) : element :=
  nth (cv_index c x y) (grid c) default_element.

Fixpoint list_set {A} (l : list A) (i : nat) (v : A) : list A :=
  match l, i with
  | [], _ => []
  | _ :: r, O => v :: r
  | a :: r, S j => a :: list_set r j v
  end.

Definition cv_set (c : canvas) (x y : N) (e : element) : canvas :=
  mkCanvas (cw c) (ch c) (list_set (grid c) (cv_index c x y) e).

(* for_each_in_region: row-major list of the coordinates visited *)
Definition Nseq (start len : N) : list N :=
  map N.of_nat (seq (N.to_nat start) (N.to_nat len)).

Definition region_points (ox oy w h : N) : list pt :=
  flat_map (fun y => map (fun x => (x, y)) (Nseq ox w)) (Nseq oy h).

Definition region_visit (c : canvas) (ox oy w h : N) : list (pt * element) :=
  map (fun p => (p, cv_get c (fst p) (snd p))) (region_points ox oy w h).

(* canvas::resize *)
Definition cv_resize (c : canvas) (w' h' : N) : canvas :=
  let mw := N.min w' (cw c) in
  let mh := N.min h' (ch c) in
  mkCanvas w' h'
    (fold_left
       (fun g pe => list_set g (N.to_nat (snd (fst pe) * w' + fst (fst pe))) (snd pe))
       (region_visit c 0 0 mw mh)
       (repeat default_element (N.to_nat (w' * h')))).

(* ---- screen --------------------------------------------------------------- *)
Record screen := mkScreen { last_frame : canvas }.
Definition init_screen : screen := mkScreen (blank_canvas 0 0).

(* the terminal operations one draw performs, given the remembered frame *)
Definition draw_cell_ops (lf : canvas) (pe : pt * element) : list op :=
  let '(p, e) := pe in
  if element_eqb (cv_get lf (fst p) (snd p)) e then []
  else [Move p; WElem e].

Definition draw_ops (s : screen) (c : canvas) : list op :=
  let resized := negb ((cw c =? cw (last_frame s)) && (ch c =? ch (last_frame s))) in
  let lf := if resized then blank_canvas (cw c) (ch c) else last_frame s in
  (if resized then [Erase EDisplay] else []) ++
  flat_map (draw_cell_ops lf) (region_visit c 0 0 (cw c) (ch c)).

Definition draw (beh : behaviour) (s : screen) (st : tstate) (c : canvas)
  : screen * tstate * list cmd :=
  let '(st', cmds) := run beh st (draw_ops s c) in
  (mkScreen c, st', cmds).
