(* Properties_C03.v — C03: after screen.draw(canvas) the terminal displays
   exactly that canvas. *)
From TP Require Import Base Elem Term Screen VT Oracle P_Sync P_Step P_Bytes P_Run P_Canvas P_Screen P_OracleSound Tie_Output Tie_Charset.
From Coq Require Import Lia.
Local Open Scope N_scope.

(* One draw, from any state in which belief and terminal agree (in particular
   the very first draw on a terminal in an unknown state, and any draw after
   other output), the terminal having the canvas's size: afterwards every cell
   displays exactly the element the canvas holds there.  Holds for deferred-wrap
   and no-wrap terminals unconditionally, and for immediate-wrap terminals when
   the draw does not transmit the bottom-right cell (known finding D7). *)
Theorem C03_draw :
  forall cfg beh, (b_unicode_all beh = true -> unicode_all cfg = true) ->
  forall s st v c,
    Sync beh st v -> ts_size st = (cw c, ch c) -> canvas_elems_wf c ->
    (same_size s c = true -> Frame (last_frame s) v) ->
    (wrap cfg <> Immediate \/
     element_eqb (cv_get (prev_frame s c) (cw c - 1) (ch c - 1)) (cv_get c (cw c - 1) (ch c - 1)) = true) ->
    let st' := snd (fst (draw beh s st c)) in
    let v' := vt_bytes cfg v (render_all (snd (draw beh s st c))) in
    Sync beh st' v' /\ Frame c v' /\ last_frame (fst (fst (draw beh s st c))) = c.
Proof.
  intros cfg beh Huni s st v c S Hsz Hwf Hf Hns st' v'.
  destruct (draw_correct cfg beh Huni s st v c S Hsz Hwf Hf Hns) as (H1 & H2 & H3 & _).
  split; [exact H1|]. split; [exact H2|exact H3].
Qed.
Print Assumptions C03_draw.

(* every sequence of canvases, with a change of terminal size (to the canvas's
   size, the terminal adopting an arbitrary cursor position) before each draw *)
Definition frame_step (cfg : vtcfg) (beh : behaviour) (x : screen * tstate * vt) (f : canvas * pt)
  : screen * tstate * vt :=
  let '(s, st, v) := x in
  let '(c, adopt) := f in
  let st1 := fst (step beh st (SetSize (cw c, ch c))) in
  let v1 := vt_resize v (cw c, ch c) adopt in
  (fst (fst (draw beh s st1 c)), snd (fst (draw beh s st1 c)),
   vt_bytes cfg v1 (render_all (snd (draw beh s st1 c)))).

Theorem C03_converges :
  forall cfg beh, (b_unicode_all beh = true -> unicode_all cfg = true) ->
  wrap cfg <> Immediate ->
  forall frames s st v,
    Sync beh st v -> Frame (last_frame s) v ->
    (forall f, In f frames -> canvas_elems_wf (fst f)) ->
    let '(s', st', v') := fold_left (frame_step cfg beh) frames (s, st, v) in
    Sync beh st' v' /\ Frame (last_frame s') v'.
Proof.
  intros cfg beh Huni Hw. induction frames as [|[c a] r IH]; intros s st v S F Hwf.
  - cbn. split; [exact S|exact F].
  - cbn [fold_left]. unfold frame_step at 2.
    destruct (sync_resize beh st v (cw c, ch c) a S) as (S1 & _ & _).
    assert (F1 : same_size s c = true -> Frame (last_frame s) (vt_resize v (cw c, ch c) a)).
    { intros _ x y Hx Hy. exact (F x y Hx Hy). }
    assert (Hc : canvas_elems_wf c) by (apply (Hwf (c, a)); left; reflexivity).
    destruct (draw_correct cfg beh Huni s _ _ c S1 eq_refl Hc F1 (or_introl Hw)) as (S2 & F2 & L2 & _).
    apply IH; [exact S2|rewrite L2; exact F2|intros f Hf; apply Hwf; right; exact Hf].
Qed.
Print Assumptions C03_converges.

(* the frame a screen remembers after a draw is the canvas just drawn, so the
   statement above says: after every draw the display is that canvas *)
Theorem C03_remembers :
  forall cfg beh x c a, last_frame (fst (fst (frame_step cfg beh x (c, a)))) = c.
Proof.
  intros cfg beh [[s st] v] c a. unfold frame_step, draw. cbn [fst].
  destruct (run beh _ (draw_ops s c)). reflexivity.
Qed.

(* the very first draw, on a terminal of which nothing is known but that it is at
   rest with G0=ASCII *)
Theorem C03_first_draw :
  forall cfg beh, (b_unicode_all beh = true -> unicode_all cfg = true) ->
  wrap cfg <> Immediate ->
  forall v0 c adopt, vt0_ok v0 -> canvas_elems_wf c ->
    let '(s', st', v') := frame_step cfg beh (init_screen, init_tstate, v0) (c, adopt) in
    Frame c v'.
Proof.
  intros cfg beh Huni Hw v0 c adopt H0 Hc.
  pose proof (C03_converges cfg beh Huni Hw [(c, adopt)] init_screen init_tstate v0 (sync_init beh v0 H0)) as H.
  assert (F0 : Frame (last_frame init_screen) v0) by (intros x y Hx; cbn in Hx; lia).
  specialize (H F0). cbn [fold_left] in H.
  pose proof (C03_remembers cfg beh (init_screen, init_tstate, v0) c adopt) as L.
  destruct (frame_step cfg beh (init_screen, init_tstate, v0) (c, adopt)) as [[s' st'] v'].
  cbn [fst] in L. destruct H as (_ & F); [intros f [Hf|[]]; subst f; exact Hc|].
  rewrite L in F. exact F.
Qed.
Print Assumptions C03_first_draw.

(* no false alarm from the extracted oracle on draws: on the observation the
   model produces for a draw (terminal of the canvas's size, terminal not
   wrapping immediately) the oracle's clauses 101, 801, 301, 401 report nothing
   and its own invariant (belief true of the terminal, display = frame) is
   re-established *)
Theorem C03_oracle_silent_on_model_draw :
  forall cfg beh adopt, (b_unicode_all beh = true -> unicode_all cfg = true) ->
  forall s c,
    Sync beh (os_model s) (os_vt s) -> Frame (os_frame s) (os_vt s) ->
    ts_size (os_model s) = (cw c, ch c) -> canvas_elems_wf c -> wrap cfg <> Immediate ->
    let s' := oracle_step cfg beh adopt true s (draw_obs beh (os_frame s) (os_model s) c) in
    os_fail s' = os_fail s /\ Sync beh (os_model s') (os_vt s') /\ Frame (os_frame s') (os_vt s') /\
    os_frame s' = c /\ ts_size (os_model s') = ts_size (os_model s).
Proof. exact oracle_draw_sound. Qed.
Print Assumptions C03_oracle_silent_on_model_draw.

(* known finding D7: on a terminal that wraps immediately the statement is false -
   a 1x2 canvas with a non-blank cell at (0,1) *)
Definition d7_canvas : canvas :=
  cv_set (blank_canvas 1 2) 0 1 (mkElem (mkGlyph CsAscii 86 0 0) default_attr).
Definition d7_vt0 : vt := set_vsize vt0_clean (0, 0).
Theorem C03_immediate_refuted_known :
  let cfg := mkCfg Immediate true false in
  let beh := mkBeh false false false false false in
  let '(s', st', v') := frame_step cfg beh (init_screen, init_tstate, vt0_clean) (d7_canvas, (0, 0)) in
  cell_eqb (cells v' (0, 1)) (display_of (cv_get d7_canvas 0 1)) = false.
Proof. vm_compute. reflexivity. Qed.
Print Assumptions C03_immediate_refuted_known.
