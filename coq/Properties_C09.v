(* Properties_C09.v — C09: erases leave default-attribute blanks and keep
   attribute tracking right. *)
From TP Require Import Base Elem Term VT Oracle P_Sync P_Step P_Bytes P_Run P_Props Tie_Output.
Local Open Scope N_scope.

(* For each of the six erase manipulators, from any state in which belief and
   terminal agree (in particular after any history, with the rendition known or
   unknown, coloured text just written or not), with background-colour-erase
   on or off and any wrap mode: exactly the named region relative to the
   cursor becomes default-attribute blanks, every other cell is unchanged, the
   cursor and the pending-wrap flag do not move, the rendition is the default
   one afterwards, and belief and terminal still agree (so text written next is
   rendered with exactly its attributes, by C01). *)
Theorem C09_erase :
  forall cfg beh, (b_unicode_all beh = true -> unicode_all cfg = true) ->
  forall st v k, Sync beh st v ->
    let v' := vt_bytes cfg v (obytes beh st (Erase k)) in
    Sync beh (fst (step beh st (Erase k))) v' /\
    (forall p, cells v' p =
               if erase_region_of k (vcur v) p then blank_cell default_rend else cells v p) /\
    vcur v' = vcur v /\ pending v' = pending v /\ rend v' = default_rend /\
    trace v' = trace v.
Proof.
  intros cfg beh Huni st v k S v'. unfold v'.
  rewrite (step_bytes cfg beh Huni st v (Erase k) S I).
  pose proof (sync_erase cfg beh st v k S) as H. cbv zeta in H.
  destruct H as (S1 & Ht & _ & Hc & Hcur & Hp & Hr & _).
  split; [exact S1|]. split; [intros p; rewrite Hc; reflexivity|].
  repeat split; assumption.
Qed.
Print Assumptions C09_erase.

(* the regions are the ones the manipulators' names say *)
Theorem C09_regions :
  forall (c p : pt),
    erase_region_of EDisplay c p = true /\
    (erase_region_of EDisplayBelow c p = true <->
       snd c < snd p \/ (snd p = snd c /\ fst c <= fst p)) /\
    (erase_region_of EDisplayAbove c p = true <->
       snd p < snd c \/ (snd p = snd c /\ fst p <= fst c)) /\
    (erase_region_of ELine c p = true <-> snd p = snd c) /\
    (erase_region_of ELineRight c p = true <-> snd p = snd c /\ fst c <= fst p) /\
    (erase_region_of ELineLeft c p = true <-> snd p = snd c /\ fst p <= fst c).
Proof.
  intros c p. unfold erase_region_of, in_ed, in_el.
  repeat split; intros; Lia.lia.
Qed.
Print Assumptions C09_regions.

(* after an erase the next element is preceded by exactly the SGR that makes
   its attributes effective: the belief is "default", which is true *)
Theorem C09_belief_after :
  forall beh st k, exists l,
    ts_last (fst (step beh st (Erase k))) = Some l /\ ea l = default_attr /\
    ts_cur (fst (step beh st (Erase k))) = ts_cur st.
Proof.
  intros beh st k. cbn [step]. unfold to_default_attribute.
  destruct (ts_last st) as [l|]; cbn; eexists; repeat split.
Qed.
