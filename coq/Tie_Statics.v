(* Tie_Statics.v — every property's model treats an object (terminal, screen,
   canvas, string, parser) as owning all the state its operations read and
   write.  That is only a faithful reading of the code if the library keeps no
   mutable state outside its objects: this obligation, re-proved against the
   sources and compiled objects scanned on this run (GeneratedStatics.v), is
   part of the tie of every property, not only of C12. *)
From Coq Require Import String List.
From TP Require Import GeneratedStatics.
Import ListNotations.

Lemma no_state_outside_objects :
  forallb (fun d => snd d) g_static_decls = true /\
  forallb (fun s => snd s) g_writable_symbols = true.
Proof. vm_compute. split; reflexivity. Qed.
