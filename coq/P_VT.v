(* P_VT.v — lemmas about the reference terminal: the byte-level lexer run
   over the spelling of a command equals the command's abstract effect, and
   characterisations of the commands the library emits. *)
From TP Require Import Base Elem Term VT P_Dec.
From Coq Require Import ZArith Lia ZifyBool ZifyN.
Local Open Scope N_scope.

Lemma vt_bytes_app cfg v a b : vt_bytes cfg v (a ++ b) = vt_bytes cfg (vt_bytes cfg v a) b.
Proof. unfold vt_bytes. apply fold_left_app. Qed.

Lemma vt_bytes_cons cfg v a b : vt_bytes cfg v (a :: b) = vt_bytes cfg (vt_byte cfg v a) b.
Proof. reflexivity. Qed.

Lemma vt_execs_app cfg v a b : vt_execs cfg v (a ++ b) = vt_execs cfg (vt_execs cfg v a) b.
Proof. unfold vt_execs. apply fold_left_app. Qed.

Lemma set_lex_ground v : lex v = Ground -> set_lex v Ground = v.
Proof. destruct v; cbn; intros ->; reflexivity. Qed.

Lemma set_lex_idem v a b : set_lex (set_lex v a) b = set_lex v b.
Proof. reflexivity. Qed.

(* ---- CSI ------------------------------------------------------------------ *)
Definition cur_val (c : option N) : N := match c with Some x => x | None => 0 end.

Lemma csi_digit cfg v priv acc cur d : is_digit d = true ->
  vt_byte cfg (set_lex v (LCsi priv acc cur)) d =
  set_lex v (LCsi priv acc (Some (cur_val cur * 10 + (d - 48)))).
Proof.
  intros Hd. unfold vt_byte. cbn [lex set_lex]. rewrite Hd.
  destruct cur; reflexivity.
Qed.

Lemma csi_digits cfg v priv acc : forall ds cur,
  forallb is_digit ds = true -> ds <> [] ->
  vt_bytes cfg (set_lex v (LCsi priv acc cur)) ds =
  set_lex v (LCsi priv acc (Some (read_digits (cur_val cur) ds))).
Proof.
  induction ds as [|d r IH]; intros cur Hd Hne; [congruence|].
  cbn [forallb] in Hd. apply andb_prop in Hd as [Hd Hr].
  rewrite vt_bytes_cons, csi_digit by exact Hd.
  destruct r as [|d' r'].
  - reflexivity.
  - rewrite IH by (auto; discriminate). reflexivity.
Qed.

Lemma csi_semicolon cfg v priv acc cur :
  vt_byte cfg (set_lex v (LCsi priv acc cur)) 59 =
  set_lex v (LCsi priv (cur_val cur :: acc) None).
Proof. unfold vt_byte. cbn [lex set_lex]. destruct cur; reflexivity. Qed.

Lemma csi_params cfg v priv : forall ps acc, ps <> [] ->
  vt_bytes cfg (set_lex v (LCsi priv acc None)) (intercalate [59] (map show_N ps)) =
  set_lex v (LCsi priv (rev (removelast ps) ++ acc) (Some (last ps 0))).
Proof.
  induction ps as [|n r IH]; intros acc Hne; [congruence|].
  destruct r as [|m r'].
  - cbn [map intercalate removelast rev app last].
    rewrite csi_digits by (auto using show_digits, show_nonempty).
    cbn [cur_val]. rewrite read_show. reflexivity.
  - change (intercalate [59] (map show_N (n :: m :: r')))
      with (show_N n ++ [59] ++ intercalate [59] (map show_N (m :: r'))).
    rewrite vt_bytes_app, csi_digits by (auto using show_digits, show_nonempty).
    cbn [cur_val]. rewrite read_show.
    rewrite vt_bytes_app. change (vt_bytes cfg ?x [59]) with (vt_byte cfg x 59).
    rewrite csi_semicolon. cbn [cur_val].
    rewrite IH by discriminate.
    change (removelast (n :: m :: r')) with (n :: removelast (m :: r')).
    change (last (n :: m :: r') 0) with (last (m :: r') 0).
    cbn [rev]. rewrite <- app_assoc. reflexivity.
Qed.

Lemma csi_final cfg v priv acc cur f : (64 <=? f) && (f <=? 126) = true ->
  vt_byte cfg (set_lex v (LCsi priv acc cur)) f =
  vt_csi cfg (set_lex v Ground) priv
    (match cur, acc with
     | None, [] => []
     | None, _ => rev (0 :: acc)
     | Some c, _ => rev (c :: acc)
     end) f.
Proof.
  intros Hf. unfold vt_byte. cbn [lex set_lex].
  assert (is_digit f = false) as -> by (unfold is_digit; lia).
  assert ((f =? 59) = false) as -> by lia.
  assert ((f =? 63) = false) as -> by lia.
  rewrite Hf. reflexivity.
Qed.

Lemma lex_csi cfg v priv ps f :
  lex v = Ground -> (64 <=? f) && (f <=? 126) = true ->
  vt_bytes cfg v (render (Csi priv ps f)) = vt_csi cfg v priv ps f.
Proof.
  intros Hg Hf. cbn [render].
  rewrite vt_bytes_cons. unfold vt_byte at 1. rewrite Hg. cbn [N.eqb Pos.eqb].
  rewrite vt_bytes_cons. unfold vt_byte at 1. cbn [lex set_lex].
  rewrite set_lex_idem.
  assert (Hp : vt_bytes cfg (set_lex v (LCsi false [] None))
                 ((if priv then [63] else []) ++ intercalate [59] (map show_N ps) ++ [f])
               = vt_bytes cfg (set_lex v (LCsi priv [] None))
                 (intercalate [59] (map show_N ps) ++ [f])).
  { destruct priv; [|reflexivity]. cbn [app]. rewrite vt_bytes_cons.
    unfold vt_byte at 1. cbn [lex set_lex]. reflexivity. }
  rewrite Hp. clear Hp.
  rewrite vt_bytes_app. change (vt_bytes cfg ?x [f]) with (vt_byte cfg x f).
  destruct ps as [|p ps'].
  - cbn [map intercalate vt_bytes fold_left]. rewrite csi_final by exact Hf.
    rewrite set_lex_ground by exact Hg. reflexivity.
  - rewrite csi_params by discriminate. rewrite csi_final by exact Hf.
    rewrite set_lex_ground by exact Hg.
    rewrite app_nil_r.
    replace (rev (last (p :: ps') 0 :: rev (removelast (p :: ps')))) with (p :: ps'); [reflexivity|].
    cbn [rev]. rewrite rev_involutive. apply app_removelast_last. discriminate.
Qed.

(* ---- ESC ( designator, ESC % G/@ --------------------------------------- *)
Lemma lex_g0 cfg v c : lex v = Ground ->
  vt_bytes cfg v (render (designate_g0 c)) = vt_designate v (encode_cs c).
Proof.
  intros Hg. unfold designate_g0. cbn [render].
  rewrite vt_bytes_cons. unfold vt_byte at 1. rewrite Hg. cbn [N.eqb Pos.eqb].
  rewrite vt_bytes_cons. unfold vt_byte at 1. cbn [lex set_lex]. rewrite set_lex_idem.
  destruct c; cbn [encode_cs]; unfold vt_bytes, fold_left, vt_byte; cbn [lex set_lex];
    cbn [N.eqb Pos.eqb N.leb N.compare Pos.compare Pos.compare_cont andb];
    rewrite ?set_lex_idem, set_lex_ground by exact Hg; reflexivity.
Qed.

Lemma lex_utf8 cfg v on : lex v = Ground ->
  vt_bytes cfg v (render (EscUtf8 on)) = set_utf8 v on.
Proof.
  intros Hg. cbn [render].
  rewrite vt_bytes_cons. unfold vt_byte at 1. rewrite Hg. cbn [N.eqb Pos.eqb].
  rewrite vt_bytes_cons. unfold vt_byte at 1. cbn [lex set_lex]. rewrite set_lex_idem.
  destruct on; unfold vt_bytes, fold_left, vt_byte; cbn [lex set_lex];
    rewrite set_lex_idem, set_lex_ground by exact Hg; reflexivity.
Qed.

(* ---- OSC ------------------------------------------------------------------- *)
Definition osc_byte_ok (b : byte) : bool := negb (b =? 7) && negb (b =? 27).

Lemma osc_body cfg v : forall body acc, forallb osc_byte_ok body = true ->
  vt_bytes cfg (set_lex v (LOsc acc)) body = set_lex v (LOsc (rev body ++ acc)).
Proof.
  induction body as [|b r IH]; intros acc H; [reflexivity|].
  cbn [forallb] in H. apply andb_prop in H as [Hb Hr].
  unfold osc_byte_ok in Hb.
  rewrite vt_bytes_cons. unfold vt_byte at 1. cbn [lex set_lex].
  assert ((b =? 7) = false) as -> by lia. assert ((b =? 27) = false) as -> by lia.
  rewrite set_lex_idem, IH by exact Hr. cbn [rev]. rewrite <- app_assoc. reflexivity.
Qed.

Lemma lex_osc cfg v body bel : lex v = Ground -> forallb osc_byte_ok body = true ->
  vt_bytes cfg v (render (Osc body bel)) = vt_osc v body.
Proof.
  intros Hg Hb. cbn [render].
  rewrite vt_bytes_cons. unfold vt_byte at 1. rewrite Hg. cbn [N.eqb Pos.eqb].
  rewrite vt_bytes_cons. unfold vt_byte at 1. cbn [lex set_lex]. rewrite set_lex_idem.
  rewrite vt_bytes_app, osc_body by exact Hb. rewrite app_nil_r.
  destruct bel.
  - change (vt_bytes cfg ?x [7]) with (vt_byte cfg x 7).
    unfold vt_byte. cbn [lex set_lex N.eqb Pos.eqb].
    rewrite set_lex_idem, rev_involutive, set_lex_ground by exact Hg. reflexivity.
  - change (vt_bytes cfg ?x [27; 92]) with (vt_byte cfg (vt_byte cfg x 27) 92).
    unfold vt_byte. cbn [lex set_lex N.eqb Pos.eqb].
    rewrite !set_lex_idem, rev_involutive, set_lex_ground by exact Hg. reflexivity.
Qed.
