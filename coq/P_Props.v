(* P_Props.v — consequences of the step/history theorems used by the
   property statements C02, C09, C11, C13, C17. *)
From TP Require Import Base Elem Term VT Markup Oracle P_Dec P_VT P_Diff P_Sync P_Step P_Bytes P_Run.
From Coq Require Import ZArith Lia ZifyBool ZifyN ZifyNat.
Local Open Scope N_scope.

(* ---- C02: consecutive placement --------------------------------------------------- *)
Fixpoint row_positions (x y : N) (n : nat) : list pt :=
  match n with O => [] | S k => (x, y) :: row_positions (x + 1) y k end.

Lemma adv_some w x y : x + 1 < w -> adv w (Some (x, y)) = Some (x + 1, y).
Proof. intros H. cbn [adv]. assert ((x + 1 =? w) = false) as -> by lia. reflexivity. Qed.

Lemma placed_none_nil w c tr : placed w c [] tr -> tr = [].
Proof. inversion 1. reflexivity. Qed.

Lemma placed_positions w : forall es x y tr,
  placed w (Some (x, y)) es tr -> x + N.of_nat (length es) <= w ->
  map fst tr = row_positions x y (length es).
Proof.
  induction es as [|e es IH]; intros x y tr Hp Hlen.
  - apply placed_none_nil in Hp. subst. reflexivity.
  - inversion Hp as [|c e' es' q tr' Hq Hrest]; subst. cbn [map fst length row_positions].
    rewrite (Hq (x, y) eq_refl). f_equal.
    destruct es as [|e2 es2].
    + apply placed_none_nil in Hrest. subst. reflexivity.
    + cbn [length] in Hlen. rewrite adv_some in Hrest by lia. apply IH; [exact Hrest|cbn [length]; lia].
Qed.

(* ---- C11: modes as a function of the requests ---------------------------------------- *)
Definition modes := (bool * bool * bool * bool * list byte)%type.

Definition modes_after (beh : behaviour) (m : modes) (o : op) : modes :=
  let '(vi, m0, m3, ab, ti) := m in
  match o with
  | Show => (true, m0, m3, ab, ti)
  | Hide => (false, m0, m3, ab, ti)
  | MouseOn => match mouse_mode beh with
               | Some 1000 => (vi, true, m3, ab, ti)
               | Some _ => (vi, m0, true, ab, ti)
               | None => m
               end
  | MouseOff => match mouse_mode beh with
                | Some 1000 => (vi, false, m3, ab, ti)
                | Some _ => (vi, m0, false, ab, ti)
                | None => m
                end
  | BufNormal => (vi, m0, m3, false, ti)
  | BufAlt => (vi, m0, m3, true, ti)
  | Title t => if b_title_bel beh || b_title_st beh then (vi, m0, m3, ab, t) else m
  | _ => m
  end.

Lemma op_modes_after beh v o : op_modes beh v o = modes_after beh (modes_of v) o.
Proof.
  unfold op_modes, modes_after, modes_of, set_vis_modes, mouse_modes, title_modes, modes_of.
  destruct o; try reflexivity.
Qed.

Definition hist_modes (beh : behaviour) (h : list hop) (m : modes) : modes :=
  fold_left (fun m x => match x with HOp o => modes_after beh m o | HResize _ _ => m end) h m.

Section Modes.
Variable cfg : vtcfg.
Variable beh : behaviour.
Hypothesis Huni : b_unicode_all beh = true -> unicode_all cfg = true.

Lemma modes_hrun : forall h st v,
  Sync beh st v -> wf_hist beh st h ->
  modes_of (snd (hrun cfg beh st v h)) = hist_modes beh h (modes_of v).
Proof.
  induction h as [|x r IH]; intros st v S Hwf; [reflexivity|].
  cbn [wf_hist] in Hwf. destruct Hwf as [Hx Hr].
  unfold hrun, hist_modes. cbn [fold_left hstep].
  destruct x as [o|sz a]; cbn [hop_op] in Hr.
  - pose proof (sync_step cfg beh Huni st v o S Hx) as H. cbv zeta in H.
    destruct H as (S1 & _ & Hm).
    specialize (IH _ _ S1 Hr). unfold hrun, hist_modes in IH. rewrite IH, Hm, op_modes_after. reflexivity.
  - destruct (sync_resize beh st v sz a S) as (S1 & _ & Hm).
    specialize (IH _ _ S1 Hr). unfold hrun, hist_modes in IH. rewrite IH, Hm. reflexivity.
Qed.
End Modes.

(* ---- C17: text ---------------------------------------------------------------------------- *)
Lemma wire_text g : cs_eqb (gcs g) CsUtf8 = false \/ wf_utf8 g = true -> wire g = glyph_text g.
Proof.
  unfold wire, glyph_text, utf8_len, hi. intros [H|H].
  - rewrite H. reflexivity.
  - destruct (cs_eqb (gcs g) CsUtf8); [|reflexivity].
    unfold wf_utf8, cont in H.
    destruct (128 <=? g0 g) eqn:E0; cbn [negb].
    + destruct (128 <=? g1 g) eqn:E1; cbn [negb].
      * destruct (128 <=? g2 g) eqn:E2; cbn [negb].
        -- assert ((g1 g =? 0) = false) as -> by lia. assert ((g2 g =? 0) = false) as -> by lia. reflexivity.
        -- assert ((g1 g =? 0) = false) as -> by lia. assert ((g2 g =? 0) = true) as -> by lia. reflexivity.
      * exfalso. lia.
    + assert ((g1 g =? 0) = true) as -> by lia. reflexivity.
Qed.

Lemma displayable_wf g : displayable g = true ->
  cs_eqb (gcs g) CsUtf8 = false \/ wf_utf8 g = true.
Proof.
  unfold displayable. destruct (cs_eqb (gcs g) CsUtf8); [|left; reflexivity].
  intros H. apply andb_prop in H as [H _]. right. exact H.
Qed.

Lemma display_bytes e : wf_elem e = true -> c_bytes (display_of e) = glyph_text (eg e).
Proof.
  unfold wf_elem. intros H. apply andb_prop in H as [H _]. apply andb_prop in H as [H _].
  unfold display_of. destruct (cs_eqb (gcs (eg e)) CsUtf8) eqn:E; cbn [c_bytes].
  - apply wire_text. apply displayable_wf. exact H.
  - unfold glyph_text. rewrite E. reflexivity.
Qed.

Lemma to_string_app a b : to_string (a ++ b) = to_string a ++ to_string b.
Proof. unfold to_string. apply flat_map_app. Qed.

Lemma to_string_of_bytes bs : to_string (of_bytes bs) = bs.
Proof.
  induction bs as [|b r IH]; [reflexivity|].
  change (to_string (of_bytes (b :: r))) with ([b] ++ to_string (of_bytes r)).
  rewrite IH. reflexivity.
Qed.

Lemma placed_text w c es tr : placed w c es tr -> forallb wf_elem es = true ->
  flat_map (fun pc => c_bytes (snd pc)) tr = to_string es.
Proof.
  induction 1 as [|c e es q tr Hq Hrest IH]; intros Hwf; [reflexivity|].
  cbn [forallb] in Hwf. apply andb_prop in Hwf as [He Hes].
  cbn [flat_map snd]. rewrite (display_bytes e He), (IH Hes). reflexivity.
Qed.
