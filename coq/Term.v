(* Term.v — model of the output encoder:
   detail/element_difference.hpp, src/manip/*.cpp, terminal.cpp (set_size,
   operator<<), terminal_state.hpp, behaviour.hpp.
   Definitions only. *)
From TP Require Export Elem.
Local Open Scope N_scope.

(* ---- abstract commands and their byte spelling ------------------------ *)
Inductive cmd :=
| Csi (priv : bool) (ps : list N) (final : byte)   (* ESC [ ?? p;p;p F *)
| EscG0 (desig : list byte)                        (* ESC ( desig      *)
| EscUtf8 (on : bool)                              (* ESC % G / ESC % @ *)
| Osc (body : list byte) (bel : bool)              (* ESC ] body BEL | ESC ] body ESC \ *)
| Payload (bs : list byte).                        (* bytes of one glyph *)

Definition render (c : cmd) : list byte :=
  match c with
  | Csi priv ps f =>
      27 :: 91 :: (if priv then [63] else []) ++
      intercalate [59] (map show_N ps) ++ [f]
  | EscG0 d => 27 :: 40 :: d
  | EscUtf8 on => [27; 37; if on then 71 else 64]
  | Osc body bel => 27 :: 93 :: body ++ (if bel then [7] else [27; 92])
  | Payload bs => bs
  end.

Definition render_all (cs : list cmd) : list byte := flat_map render cs.

(* ---- element_difference.hpp ------------------------------------------- *)
Record behaviour := mkBeh {
  b_basic_mouse : bool; b_all_mouse : bool;
  b_title_bel : bool; b_title_st : bool;
  b_unicode_all : bool }.

Definition sgr (ps : list N) : cmd := Csi false ps 109.

(* default_attribute: ESC [ 0 m *)
Definition default_attribute_cmd : cmd := sgr [0].

Definition designate_g0 (c : charset) : cmd := EscG0 (encode_cs c).

Definition change_charset_nonutf8 (src dst : charset) : list cmd :=
  (* dst is not utf8, src <> dst *)
  (if cs_eqb src CsUtf8 then [EscUtf8 false] else []) ++ [designate_g0 dst].

Definition change_charset (beh : behaviour) (src dst : charset) : list cmd :=
  if cs_eqb src dst then []
  else if cs_eqb dst CsUtf8 then
    (if b_unicode_all beh then []
     else (* recursive call change_charset(source, us_ascii) *)
       if cs_eqb src CsAscii then [] else change_charset_nonutf8 src CsAscii)
    ++ [EscUtf8 true]
  else change_charset_nonutf8 src dst.

Definition change_intensity (s d : intensity) : list N :=
  if inten_eqb s d then []
  else (if negb (inten_eqb s INormal) && negb (inten_eqb d INormal)
        then [22] else []) ++ [inten_code d].

Definition change_flag (code : bool -> N) (s d : bool) : list N :=
  if Bool.eqb s d then [] else [code d].

Definition colour_params (base : N) (c : colour) : list N :=
  match c with
  | CLow v => [v + base]
  | CHigh v => [base + 8; 5; v]
  | CGrey v => [base + 8; 5; v]
  | CTrue r g b => [base + 8; 2; r; g; b]
  end.

Definition change_colour (base : N) (s d : colour) : list N :=
  if colour_eqb s d then [] else colour_params base d.

Definition sgr_params (s d : attr) : list N :=
  change_intensity (inten s) (inten d) ++
  change_flag neg_code (neg s) (neg d) ++
  change_flag ul_code (ul s) (ul d) ++
  change_flag blink_code (blink s) (blink d) ++
  change_colour 30 (fg s) (fg d) ++
  change_colour 40 (bg s) (bg d).

Definition change_attribute (s d : attr) : list cmd :=
  if attr_eqb s d then []
  else if attr_eqb d default_attr then [default_attribute_cmd]
  else [sgr (sgr_params s d)].

(* ---- terminal_state ----------------------------------------------------- *)
Record tstate := mkTs {
  ts_size : pt;                      (* (width, height) *)
  ts_last : option element;
  ts_cur : option pt;
  ts_saved : option pt;
  ts_vis : option bool }.

Definition init_tstate : tstate := mkTs (0, 0) None None None None.

Definition set_last (st : tstate) (l : option element) : tstate :=
  mkTs (ts_size st) l (ts_cur st) (ts_saved st) (ts_vis st).
Definition set_cur (st : tstate) (c : option pt) : tstate :=
  mkTs (ts_size st) (ts_last st) c (ts_saved st) (ts_vis st).
Definition set_saved (st : tstate) (c : option pt) : tstate :=
  mkTs (ts_size st) (ts_last st) (ts_cur st) c (ts_vis st).
Definition set_vis (st : tstate) (v : option bool) : tstate :=
  mkTs (ts_size st) (ts_last st) (ts_cur st) (ts_saved st) v.

(* change_to_default_attribute *)
Definition to_default_attribute (st : tstate) : tstate * list cmd :=
  match ts_last st with
  | Some l =>
      (set_last st (Some (mkElem (eg l) default_attr)),
       change_attribute (ea l) default_attr)
  | None => (set_last st (Some default_element), [default_attribute_cmd])
  end.

(* write_optional_default_attribute *)
Definition optional_default_attribute (st : tstate) : tstate * list cmd :=
  match ts_last st with
  | Some _ => (st, [])
  | None => (set_last st (Some default_element), [default_attribute_cmd])
  end.

(* write_utf8_glyph / write_regular_glyph: the bytes of one glyph *)
Definition hi (b : byte) : bool := 128 <=? b.
Definition utf8_len (g : glyph) : N :=
  (* index of the first byte that is NUL or has no high bit, capped at 3,
     but at least 1 *)
  if negb (hi (g0 g)) then 1
  else if negb (hi (g1 g)) then 1
  else if negb (hi (g2 g)) then 2
  else 3.

Definition wire (g : glyph) : list byte :=
  if cs_eqb (gcs g) CsUtf8 then
    match utf8_len g with
    | 1 => [g0 g] | 2 => [g0 g; g1 g] | _ => [g0 g; g1 g; g2 g]
    end
  else [g0 g].

(* control characters (LF, CR, HT, BS, ...) move the cursor in their own ways:
   the position is forgotten rather than advanced *)
Definition is_control_glyph (g : glyph) : bool := (g0 g <? 32) || (g0 g =? 127).

Definition advance_cursor (st : tstate) (g : glyph) : tstate :=
  match ts_cur st with
  | Some (x, y) =>
      if is_control_glyph g then set_cur st None
      else if x + 1 =? fst (ts_size st) then set_cur st None
      else set_cur st (Some (x + 1, y))
  | None => st
  end.

(* write_element::operator() *)
Definition write_element (beh : behaviour) (st : tstate) (e : element)
  : tstate * list cmd :=
  let last := match ts_last st with Some l => l | None => default_element end in
  let cmds := change_charset beh (gcs (eg last)) (gcs (eg e)) ++
              change_attribute (ea last) (ea e) ++
              [Payload (wire (eg e))] in
  (advance_cursor (set_last st (Some e)) (eg e), cmds).

(* cursor.cpp *)
Definition cup (p : pt) : cmd :=
  let '(x, y) := p in
  if (x =? 0) && (y =? 0) then Csi false [] 72
  else if x =? 0 then Csi false [y + 1] 72
  else Csi false [y + 1; x + 1] 72.

Definition cha (x : N) : cmd :=
  if x =? 0 then Csi false [] 71 else Csi false [x + 1] 71.
Definition cuu (d : N) : cmd :=
  if d =? 1 then Csi false [] 65 else Csi false [d] 65.
Definition cud (d : N) : cmd :=
  if d =? 1 then Csi false [] 66 else Csi false [d] 66.

Definition move_cursor (st : tstate) (p : pt) : tstate * list cmd :=
  let cmds :=
    match ts_cur st with
    | None => [cup p]
    | Some c =>
        if pt_eqb c p then []
        else if snd c =? snd p then [cha (fst p)]
        else if fst c =? fst p then
          (if snd p <? snd c then [cuu (snd c - snd p)]
           else [cud (snd p - snd c)])
        else [cup p]
    end in
  (set_cur st (Some p), cmds).

Definition dectcem (on : bool) : cmd := Csi true [25] (if on then 104 else 108).

Definition show_hide (st : tstate) (want : bool) : tstate * list cmd :=
  let emit := match ts_vis st with
              | None => true
              | Some v => negb (Bool.eqb v want)
              end in
  (set_vis st (Some want), if emit then [dectcem want] else []).

Inductive erase_kind :=
| EDisplay | EDisplayAbove | EDisplayBelow | ELine | ELineLeft | ELineRight.

Definition erase_cmd (k : erase_kind) : cmd :=
  match k with
  | EDisplay => Csi false [2] 74
  | EDisplayAbove => Csi false [1] 74
  | EDisplayBelow => Csi false [] 74
  | ELine => Csi false [2] 75
  | ELineLeft => Csi false [1] 75
  | ELineRight => Csi false [] 75
  end.

Definition mouse_mode (beh : behaviour) : option N :=
  if b_basic_mouse beh then Some 1000
  else if b_all_mouse beh then Some 1003
  else None.

Definition mouse_cmd (beh : behaviour) (on : bool) : list cmd :=
  match mouse_mode beh with
  | Some m => [Csi true [m] (if on then 104 else 108)]
  | None => []
  end.

Definition title_cmd (beh : behaviour) (t : list byte) : list cmd :=
  if b_title_bel beh then [Osc (50 :: 59 :: t) true]
  else if b_title_st beh then [Osc (50 :: 59 :: t) false]
  else [].

Inductive op :=
| WElem (e : element)           (* terminal << element *)
| WStr (s : list element)       (* terminal << string *)
| WRaw (e : element)            (* terminal << write_element(e) *)
| ODA                           (* terminal << write_optional_default_attribute() *)
| Move (p : pt)
| Save | Restore
| Erase (k : erase_kind)
| Show | Hide
| MouseOn | MouseOff
| BufNormal | BufAlt
| Title (t : list byte)
| SetSize (sz : pt).

Fixpoint write_elements (beh : behaviour) (st : tstate) (es : list element)
  : tstate * list cmd :=
  match es with
  | [] => (st, [])
  | e :: r =>
      let '(st1, c1) := write_element beh st e in
      let '(st2, c2) := write_elements beh st1 r in
      (st2, c1 ++ c2)
  end.

Definition step (beh : behaviour) (st : tstate) (o : op) : tstate * list cmd :=
  match o with
  | WElem e =>
      let '(st1, c1) := optional_default_attribute st in
      let '(st2, c2) := write_element beh st1 e in
      (st2, c1 ++ c2)
  | WStr es =>
      let '(st1, c1) := optional_default_attribute st in
      let '(st2, c2) := write_elements beh st1 es in
      (st2, c1 ++ c2)
  | WRaw e => write_element beh st e
  | ODA => optional_default_attribute st
  | Move p => move_cursor st p
  | Save => (set_saved st (ts_cur st), [Csi false [] 115])
  | Restore => (set_cur st (ts_saved st), [Csi false [] 117])
  | Erase k =>
      let '(st1, c1) := to_default_attribute st in
      (st1, c1 ++ [erase_cmd k])
  | Show => show_hide st true
  | Hide => show_hide st false
  | MouseOn => (st, mouse_cmd beh true)
  | MouseOff => (st, mouse_cmd beh false)
  | BufNormal => (st, [Csi true [47] 108])
  | BufAlt => (st, [Csi true [47] 104])
  | Title t => (st, title_cmd beh t)
  | SetSize sz => (set_saved (set_cur (mkTs sz (ts_last st) (ts_cur st) (ts_saved st) (ts_vis st)) None) None, [])
  end.

Fixpoint run (beh : behaviour) (st : tstate) (h : list op) : tstate * list cmd :=
  match h with
  | [] => (st, [])
  | o :: r =>
      let '(st1, c1) := step beh st o in
      let '(st2, c2) := run beh st1 r in
      (st2, c1 ++ c2)
  end.
