(* Strings.v — model of the attributed string class (string.hpp / string.cpp): a
   string is its list of elements; constructors and the mutating interface
   (operator+=, operator+, insert, erase, operator[], swap).  Iterator positions
   are element indices.  Definitions only. *)
From TP Require Export Markup Screen.
Local Open Scope N_scope.

Definition tstring := list element.

Definition elem_of_byte (b : byte) : element := mkElem (mkGlyph CsAscii b 0 0) default_attr.

Fixpoint until_nul (bs : list byte) : list byte :=
  match bs with
  | [] => []
  | b :: r => if b =? 0 then [] else b :: until_nul r
  end.

(* the constructor from a C string: the text up to the first NUL *)
Definition s_of_cstr (bs : list byte) : tstring := of_bytes (until_nul bs).
(* the constructors from pointer+length and from std::string *)
Definition s_of_bytes (bs : list byte) : tstring := of_bytes bs.
(* the constructor from std::string and an attribute *)
Definition s_of_bytes_attr (bs : list byte) (a : attr) : tstring :=
  map (fun e => mkElem (eg e) a) (of_bytes bs).
(* string(size, element) *)
Definition s_fill (n : nat) (e : element) : tstring := repeat e n.
(* string(first, last), string(initializer_list) *)
Definition s_of_elems (es : list element) : tstring := es.

Definition s_append_elem (s : tstring) (e : element) : tstring := s ++ [e].
Definition s_append (s t : tstring) : tstring := s ++ t.
Definition s_insert (s : tstring) (pos : nat) (e : element) : tstring :=
  firstn pos s ++ e :: skipn pos s.
Definition s_insert_range (s : tstring) (pos : nat) (t : tstring) : tstring :=
  firstn pos s ++ t ++ skipn pos s.
Definition s_erase_all (s : tstring) : tstring := [].
Definition s_erase_from (s : tstring) (pos : nat) : tstring := firstn pos s.
Definition s_erase_range (s : tstring) (a b : nat) : tstring := firstn a s ++ skipn b s.
Definition s_set (s : tstring) (i : nat) (e : element) : tstring := list_set s i e.
Definition s_size (s : tstring) : nat := length s.
Definition s_empty (s : tstring) : bool := match s with [] => true | _ => false end.
