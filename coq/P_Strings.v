(* P_Strings.v — the text of a string under every operation of the string class:
   nothing is altered, dropped or duplicated. *)
From TP Require Import Base Elem Term Screen Markup Oracle Strings P_Props.
From Coq Require Import Lia ZifyBool ZifyN.
Local Open Scope N_scope.

Lemma to_string_split s pos : to_string s = to_string (firstn pos s) ++ to_string (skipn pos s).
Proof. rewrite <- to_string_app, firstn_skipn. reflexivity. Qed.

Lemma to_string_insert s pos e :
  to_string (s_insert s pos e) =
  to_string (firstn pos s) ++ glyph_text (eg e) ++ to_string (skipn pos s).
Proof. unfold s_insert. rewrite to_string_app. reflexivity. Qed.

Lemma to_string_insert_range s pos t :
  to_string (s_insert_range s pos t) =
  to_string (firstn pos s) ++ to_string t ++ to_string (skipn pos s).
Proof. unfold s_insert_range. rewrite !to_string_app. reflexivity. Qed.

Lemma to_string_erase_range s a b :
  to_string (s_erase_range s a b) = to_string (firstn a s) ++ to_string (skipn b s).
Proof. unfold s_erase_range. apply to_string_app. Qed.

Lemma to_string_append_elem s e : to_string (s_append_elem s e) = to_string s ++ glyph_text (eg e).
Proof. unfold s_append_elem. rewrite to_string_app. unfold to_string at 2. cbn. rewrite app_nil_r. reflexivity. Qed.

Lemma to_string_fill n e : to_string (s_fill n e) = concat (repeat (glyph_text (eg e)) n).
Proof. unfold s_fill, to_string. induction n as [|n IH]; [reflexivity|]. cbn. rewrite IH. reflexivity. Qed.

Lemma to_string_of_bytes_attr bs a : to_string (s_of_bytes_attr bs a) = bs.
Proof.
  unfold s_of_bytes_attr, of_bytes, to_string. rewrite map_map. cbn.
  induction bs as [|b r IH]; [reflexivity|]. cbn. rewrite IH. reflexivity.
Qed.

Lemma until_nul_prefix bs : exists rest, bs = until_nul bs ++ rest /\ (rest = [] \/ hd 1 rest = 0).
Proof.
  induction bs as [|b r IH]; [exists []; split; [reflexivity|left; reflexivity]|].
  cbn [until_nul]. destruct (b =? 0) eqn:E.
  - exists (b :: r). split; [reflexivity|]. right. apply N.eqb_eq in E. exact E.
  - destruct IH as (rest & H1 & H2). exists rest. split; [cbn; rewrite <- H1; reflexivity|exact H2].
Qed.

Lemma until_nul_no_nul bs : forallb (fun b => negb (b =? 0)) (until_nul bs) = true.
Proof.
  induction bs as [|b r IH]; [reflexivity|]. cbn [until_nul]. destruct (b =? 0) eqn:E; [reflexivity|].
  cbn [forallb]. rewrite E, IH. reflexivity.
Qed.

Lemma list_set_firstn_skipn {A} (l : list A) i v : (i < length l)%nat ->
  list_set l i v = firstn i l ++ v :: skipn (S i) l.
Proof.
  revert i. induction l as [|a r IH]; intros i H; [cbn in H; lia|].
  destruct i as [|i]; [reflexivity|]. cbn [list_set firstn skipn app]. f_equal. apply IH. cbn in H. lia.
Qed.

Lemma to_string_set s i e : (i < length s)%nat ->
  to_string (s_set s i e) = to_string (firstn i s) ++ glyph_text (eg e) ++ to_string (skipn (S i) s).
Proof. intros H. unfold s_set. rewrite (list_set_firstn_skipn s i e H), to_string_app. reflexivity. Qed.

(* a glyph made from a pointer into text is the glyph of the first character,
   whatever follows it *)
Lemma glyph_of_cstr_wire g rest :
  gcs g = CsUtf8 -> wf_utf8 g = true -> glyph_of_cstr (wire g ++ rest) = g.
Proof.
  intros Hc Hwf. destruct g as [c b0 b1 b2]. cbn [gcs] in Hc. subst c.
  unfold wf_utf8, cont in Hwf. cbn [g0 g1 g2] in Hwf.
  unfold wire, utf8_len, hi. cbn [gcs g0 g1 g2]. change (cs_eqb CsUtf8 CsUtf8) with true. cbn iota.
  unfold glyph_of_cstr, is_cont.
  destruct (b0 <=? 127) eqn:E0.
  - assert (b1 = 0 /\ b2 = 0) as [-> ->] by lia.
    assert (negb (128 <=? b0) = true) as -> by lia. cbn [app nth].
    assert ((b0 <? 128) = true) as -> by lia. reflexivity.
  - assert (negb (128 <=? b0) = false) as -> by lia.
    destruct (b2 =? 0) eqn:E2.
    + assert (b2 = 0) as -> by lia.
      assert (negb (128 <=? b1) = false) as -> by lia. cbn [negb N.leb]. 
      assert (negb (128 <=? 0) = true) as -> by reflexivity. cbn [app nth].
      assert ((b0 <? 128) = false) as -> by lia.
      assert ((192 <=? b0) && (b0 <? 224) = true) as -> by lia. cbn [N.leb].
      assert ((128 <=? b1) && (b1 <? 192) = true) as -> by lia. reflexivity.
    + assert (negb (128 <=? b1) = false) as -> by lia.
      assert (negb (128 <=? b2) = false) as -> by lia. cbn [app nth].
      assert ((b0 <? 128) = false) as -> by lia.
      assert ((192 <=? b0) && (b0 <? 224) = false) as -> by lia. cbn [N.leb].
      assert ((128 <=? b1) && (b1 <? 192) = true) as -> by lia.
      assert ((128 <=? b2) && (b2 <? 192) = true) as -> by lia. reflexivity.
Qed.
