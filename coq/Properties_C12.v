(* Properties_C12.v — C12 (PARTIAL): separate terminals, screens and strings do not
   interfere, even across threads.
   Proved: the frame property of the model (each object's outputs under any
   interleaving equal those of its solo run) and, against the CURRENT source,
   that the library has no mutable variable with static or thread storage
   duration (GeneratedStatics.v is regenerated on every run from a scan of the
   sources cross-checked with the symbols of the compiled objects).
   NOT provable in this family: data-race freedom of the compiled program; that
   half is observed by running objects concurrently on threads under
   ThreadSanitizer (thorough tier) and interleaved on one thread (quick tier)
   and comparing every object's observations with its solo run. *)
From TP Require Import Base Term Parser Multi GeneratedStatics.
Local Open Scope N_scope.

Theorem C12_frame_terminals :
  forall beh sched (w : N -> tstate) i,
    fst (mrun _ _ _ (step beh) w sched) i = fst (srun _ _ _ (step beh) (w i) (mine i sched)) /\
    mine i (snd (mrun _ _ _ (step beh) w sched)) = snd (srun _ _ _ (step beh) (w i) (mine i sched)).
Proof. intros beh. exact (interleaving_frame _ _ _ (step beh)). Qed.
Print Assumptions C12_frame_terminals.

Theorem C12_frame_parsers :
  forall sched (w : N -> pstate) i,
    mine i (snd (mrun _ _ _ pstep w sched)) = snd (srun _ _ _ pstep (w i) (mine i sched)).
Proof. intros sched w i. exact (proj2 (interleaving_frame _ _ _ pstep sched w i)). Qed.
Print Assumptions C12_frame_parsers.

(* every variable with static storage duration declared in src/ and include/ is
   const (or constexpr), and every symbol the compiled objects place in a
   writable section is one of those (their storage or their initialisation
   guard) or belongs to the C++ runtime *)
Theorem C12_no_mutable_statics :
  forallb (fun d => snd d) g_static_decls = true /\
  forallb (fun s => snd s) g_writable_symbols = true.
Proof. vm_compute. split; reflexivity. Qed.
Print Assumptions C12_no_mutable_statics.
