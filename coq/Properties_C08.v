(* Properties_C08.v — C08: what the terminal state reports as known is true of
   the real terminal. *)
From TP Require Import Base Elem Term VT Oracle P_Sync P_Step P_Bytes P_Run P_Link Tie_Output Tie_Charset.
Local Open Scope N_scope.

(* After every well-formed history, from every initial terminal at rest, under
   every wrap mode: every value the state record reports as known equals the
   state of the terminal that interpreted the bytes. *)
Theorem C08_truthful :
  forall cfg beh, (b_unicode_all beh = true -> unicode_all cfg = true) ->
  forall v0 h, vt0_ok v0 -> wf_hist beh init_tstate h ->
    let st := fst (hrun cfg beh init_tstate v0 h) in
    let v := snd (hrun cfg beh init_tstate v0 h) in
    ts_size st = vsize v /\
    (forall p, ts_cur st = Some p ->
       vcur v = p /\ pending v = false /\ inside p (vsize v) = true) /\
    (forall p, ts_saved st = Some p -> vsaved v = Some p /\ inside p (vsize v) = true) /\
    (forall l, ts_last st = Some l -> rend v = rend_of (ea l) /\ cs_ok beh (gcs (eg l)) v) /\
    (ts_last st = None -> cs_ok beh CsAscii v) /\
    (forall b, ts_vis st = Some b -> vis v = b).
Proof.
  intros cfg beh Huni v0 h H0 Hwf st v.
  destruct (sync_hrun cfg beh Huni h init_tstate v0 (sync_init beh v0 H0) Hwf) as [S _].
  fold st v in S. destruct S as [Slex Smal Sunk Ssize Scs Srend Scur Ssaved Svis].
  split; [exact Ssize|]. split; [exact Scur|]. split; [exact Ssaved|]. split.
  - intros l Hl. split; [exact (Srend l Hl)|]. unfold last_cs in Scs. rewrite Hl in Scs. exact Scs.
  - split; [|exact Svis]. intros Hl. unfold last_cs in Scs. rewrite Hl in Scs. exact Scs.
Qed.
Print Assumptions C08_truthful.

(* Whenever an operation makes the real state terminal-dependent the record
   reports it as unknown: a write into the last column ... *)
Theorem C08_forgets_last_column :
  forall beh st e x y,
    ts_cur st = Some (x, y) -> x + 1 = fst (ts_size st) ->
    ts_cur (fst (step beh st (WElem e))) = None /\
    ts_cur (fst (step beh st (WRaw e))) = None.
Proof.
  intros beh st e x y Hc Hx. cbn [step]. unfold optional_default_attribute.
  assert (H : forall st', ts_cur st' = Some (x, y) -> ts_size st' = ts_size st ->
                          ts_cur (fst (write_element beh st' e)) = None).
  { intros st' Hc' Hs'. unfold write_element. cbn [fst]. unfold advance_cursor.
    cbn [ts_cur ts_size set_last]. rewrite Hc', Hs', Hx, N.eqb_refl.
    destruct (is_control_glyph (eg e)); reflexivity. }
  split.
  - destruct (ts_last st);
      match goal with |- context[write_element beh ?s e] =>
        specialize (H s); destruct (write_element beh s e) eqn:E end;
      cbn [fst] in *; apply H; first [exact Hc | reflexivity].
  - apply H; [exact Hc|reflexivity].
Qed.
Print Assumptions C08_forgets_last_column.

(* ... a control character (line feed, carriage return, tab, backspace ...) ... *)
Theorem C08_forgets_after_control_character :
  forall beh st e, is_control_glyph (eg e) = true ->
    ts_cur (fst (step beh st (WElem e))) = None /\ ts_cur (fst (step beh st (WRaw e))) = None.
Proof.
  intros beh st e Hc. cbn [step]. unfold optional_default_attribute.
  assert (H : forall st', ts_cur (fst (write_element beh st' e)) = None).
  { intros st'. unfold write_element. cbn [fst]. apply advance_cur_control. exact Hc. }
  split; [|apply H].
  destruct (ts_last st);
    match goal with |- context[write_element beh ?s e] =>
      specialize (H s); destruct (write_element beh s e) eqn:E end; cbn [fst] in *; exact H.
Qed.
Print Assumptions C08_forgets_after_control_character.

(* ... a size change (current and saved position) ... *)
Theorem C08_forgets_on_resize :
  forall beh st sz,
    let st' := fst (step beh st (SetSize sz)) in
    ts_cur st' = None /\ ts_saved st' = None /\ ts_size st' = sz.
Proof. intros. repeat split. Qed.
Print Assumptions C08_forgets_on_resize.

(* ... restoring a position that was never saved, or was saved while unknown. *)
Theorem C08_forgets_unsaved_restore :
  forall beh st, ts_saved st = None -> ts_cur (fst (step beh st Restore)) = None.
Proof. intros beh st H. cbn. exact H. Qed.
Print Assumptions C08_forgets_unsaved_restore.

Theorem C08_save_copies_belief :
  forall beh st, ts_saved (fst (step beh st Save)) = ts_cur st.
Proof. reflexivity. Qed.

(* the decidable clause (code 801) that the extracted oracle evaluates on the
   IMPLEMENTATION's reported state and real bytes is exactly this theorem's
   statement: on the model's own observations it never fires, after any history *)
Theorem C08_oracle_clause_801 :
  forall cfg beh, (b_unicode_all beh = true -> unicode_all cfg = true) ->
  forall v0 h, vt0_ok v0 -> wf_hist beh init_tstate h ->
    truthful beh (fst (hrun cfg beh init_tstate v0 h)) (snd (hrun cfg beh init_tstate v0 h)) = true.
Proof.
  intros cfg beh Huni v0 h H0 Hwf. apply sync_truthful.
  exact (proj1 (sync_hrun cfg beh Huni h init_tstate v0 (sync_init beh v0 H0) Hwf)).
Qed.
Print Assumptions C08_oracle_clause_801.

(* an application manipulator may mark what it no longer knows as unknown: the
   belief that remains is still true of the terminal.  For the rendition this
   holds only while the character set believed in use is US ASCII - the library
   reads "rendition unknown" as "character set as at the start". *)
Theorem C08_forgetting_is_sound :
  forall beh st v, Sync beh st v ->
    Sync beh (set_cur st None) v /\ Sync beh (set_saved st None) v /\ Sync beh (set_vis st None) v /\
    (last_cs st = CsAscii -> Sync beh (set_last st None) v).
Proof.
  intros beh st v [Slex Smal Sunk Ssize Scs Srend Scur Ssaved Svis].
  split; [|split; [|split]].
  - constructor; cbn; try assumption. intros p Hp. discriminate.
  - constructor; cbn; try assumption. intros p Hp. discriminate.
  - constructor; cbn; try assumption. intros b Hb. discriminate.
  - intros Ha. constructor; cbn; try assumption.
    + unfold last_cs in *. cbn. rewrite <- Ha. exact Scs.
    + intros l Hl. discriminate.
Qed.
Print Assumptions C08_forgetting_is_sound.
