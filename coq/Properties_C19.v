(* Properties_C19.v — C19: 256-colour indices are a bijection onto their palette
   ranges.  Over the COMPLETE graphs of the real ansi::graphics functions and
   colour constructors (Generated.v), plus the general arithmetic statement on
   the model and the SGR parameter put on the wire. *)
From TP Require Import Base Elem Term Screen VT Show Generated Tie_Colour P_Diff.
From Coq Require Import ZArith Lia ZifyBool ZifyN.
Local Open Scope N_scope.

Definition real_high (r g b : N) : N := nth (N.to_nat (r * 36 + g * 6 + b)) g_encode_high_216 0.
Definition real_high_ctor (r g b : N) : N := nth (N.to_nat (r * 36 + g * 6 + b)) g_high_colour_ctor_216 0.
Definition real_red (v : N) := nth (N.to_nat v) g_high_red 0.
Definition real_green (v : N) := nth (N.to_nat v) g_high_green 0.
Definition real_blue (v : N) := nth (N.to_nat v) g_high_blue 0.
Definition real_grey (s : N) := nth (N.to_nat s) g_encode_grey 0.
Definition real_grey_ctor (s : N) := nth (N.to_nat s) g_greyscale_ctor 0.
Definition real_grey_component (v : N) := nth (N.to_nat v) g_grey_component 0.

(* every high colour built from r, g, b in 0..5 has index 16 + 36r + 6g + b,
   within 16..231, and the components recovered from the index are the
   original ones (hence distinct triples give distinct indices) *)
Theorem C19_high_colours :
  forallb (fun t => let '(r, g, b) := t in
     (real_high r g b =? 16 + 36 * r + 6 * g + b) && (real_high_ctor r g b =? real_high r g b) &&
     (16 <=? real_high r g b) && (real_high r g b <=? 231) &&
     (real_red (real_high r g b) =? r) && (real_green (real_high r g b) =? g) &&
     (real_blue (real_high r g b) =? b)) triples = true /\
  length triples = 216%nat.
Proof. vm_compute. split; reflexivity. Qed.
Print Assumptions C19_high_colours.

Theorem C19_greyscale :
  forallb (fun s => (real_grey s =? 232 + s) && (real_grey_ctor s =? 232 + s) &&
                    (real_grey_component (real_grey s) =? s)) (Nseq 0 24) = true.
Proof. vm_compute. reflexivity. Qed.
Print Assumptions C19_greyscale.

(* the same as arithmetic, for the model function, for all N (not a sweep) *)
Theorem C19_arithmetic :
  forall r g b, r <= 5 -> g <= 5 -> b <= 5 ->
    encode_high r g b = 16 + 36 * r + 6 * g + b /\
    16 <= encode_high r g b <= 231 /\
    high_red (encode_high r g b) = r /\ high_green (encode_high r g b) = g /\
    high_blue (encode_high r g b) = b.
Proof.
  intros r g b Hr Hg Hb.
  assert (E : encode_high r g b = 16 + 36 * r + 6 * g + b).
  { unfold encode_high, wrap8. rewrite N.mod_small; lia. }
  rewrite E. unfold high_red, high_green, high_blue, wrap8.
  assert ((16 <=? 16 + 36 * r + 6 * g + b) = true) as -> by lia.
  replace (16 + 36 * r + 6 * g + b - 16) with (r * 36 + (g * 6 + b)) by lia.
  repeat split; try lia.
Qed.
Print Assumptions C19_arithmetic.

Theorem C19_injective :
  forall r g b r' g' b', r <= 5 -> g <= 5 -> b <= 5 -> r' <= 5 -> g' <= 5 -> b' <= 5 ->
    encode_high r g b = encode_high r' g' b' -> r = r' /\ g = g' /\ b = b'.
Proof.
  intros r g b r' g' b' Hr Hg Hb Hr' Hg' Hb' E.
  destruct (C19_arithmetic r g b Hr Hg Hb) as (_ & _ & R & G & B).
  destruct (C19_arithmetic r' g' b' Hr' Hg' Hb') as (_ & _ & R' & G' & B').
  rewrite E in R, G, B. repeat split; congruence.
Qed.
Print Assumptions C19_injective.

(* the index transmitted for such a colour, as foreground and as background,
   is that palette index: SGR 38;5;n / 48;5;n, which the reference terminal
   reads as palette entry n *)
Theorem C19_wire :
  forall n s,
    change_colour 30 s (CHigh n) = (if colour_eqb s (CHigh n) then [] else [38; 5; n]) /\
    change_colour 40 s (CHigh n) = (if colour_eqb s (CHigh n) then [] else [48; 5; n]) /\
    change_colour 30 s (CGrey n) = (if colour_eqb s (CGrey n) then [] else [38; 5; n]) /\
    change_colour 40 s (CGrey n) = (if colour_eqb s (CGrey n) then [] else [48; 5; n]) /\
    (forall r t, apply_sgr r ([38; 5; n] ++ t) = apply_sgr (set_r_fg r (VIdx n)) t) /\
    (forall r t, apply_sgr r ([48; 5; n] ++ t) = apply_sgr (set_r_bg r (VIdx n)) t).
Proof. intros n s. unfold change_colour. repeat split. Qed.
Print Assumptions C19_wire.

(* the streamed form: a high colour is shown as '#' and its three components,
   a greyscale colour as '#' and its shade in two decimal digits; over all
   216 triples and 24 shades the texts are pairwise distinct, so the
   components can be read back from what is shown *)
Theorem C19_shown :
  forallb (fun t => let '(r, g, b) := t in
     list_eqb N.eqb (show_colour (CHigh (encode_high r g b))) [35; 48 + r; 48 + g; 48 + b]) triples = true /\
  forallb (fun s => list_eqb N.eqb (show_colour (CGrey (encode_grey s))) [35; 48 + s / 10; 48 + s mod 10])
          (Nseq 0 24) = true.
Proof. vm_compute. split; reflexivity. Qed.
Print Assumptions C19_shown.

(* what is shown for a value does not depend on what was inserted into the
   stream before it: a sequence of insertions is the concatenation of the texts *)
Theorem C19_shown_history_independent :
  forall before v after,
    show_stream (before ++ v :: after) =
    show_stream before ++ (show_value v ++ [10]) ++ show_stream after.
Proof.
  intros before v after. unfold show_stream. rewrite flat_map_app. reflexivity.
Qed.
Print Assumptions C19_shown_history_independent.
