(* Properties_C19.v -- placeholder, theorems follow *)
From TP Require Import Term.
