(* Properties_C04.v -- placeholder, theorems follow *)
From TP Require Import Term.
