#!/bin/bash
# Independent confirmation of the sub-agents' seeded changes in a scratch worktree:
# applies, builds, full test suite passes, demo fails; reverted, demo passes.
WT=/tmp/val/wt
mkdir -p /tmp/val
[ -d $WT ] || git -C /repo worktree add -q --detach $WT HEAD
cd $WT && git checkout -q --detach $(git -C /repo rev-parse HEAD) && git checkout -- .
[ -f _build/build.ninja ] || cmake -G Ninja -B _build -S . -DCMAKE_BUILD_TYPE=RelWithDebInfo -DCMAKE_CXX_FLAGS=-Wno-error -DTERMINALPP_WITH_TESTS=ON -DCMAKE_PREFIX_PATH=/root/miniconda >/dev/null
cmake --build _build >/dev/null 2>&1
for d in "$@"; do
  name=$(echo $d | sed 's|/tmp/wt2/\(C[0-9]*\)\.out/|\1-r2-|; s|/tmp/wt3/\(C[0-9]*\)\.out/|\1-r3-|; s|/tmp/wt4/\(C[0-9]*\)\.out/|\1-r4-|; s|/tmp/wt5/\(C[0-9]*\)\.out/|\1-r5-|; s|/tmp/wt6/\(C[0-9]*\)\.out/|\1-r6-|; s|/tmp/wt7/\(C[0-9]*\)\.out/|\1-r7-|; s|/tmp/wt/||; s|\.out/|-|')
  out=/tmp/val/$name.result
  {
    echo "seed=$d"
    cd $WT && git checkout -- . 
    if ! git apply --check $d/patch.diff 2>/dev/null; then echo "applies=no"; continue; fi
    git apply $d/patch.diff
    if cmake --build _build >/tmp/val/$name.build.log 2>&1; then echo "builds=yes"; else echo "builds=no"; git checkout -- .; continue; fi
    tests=$(./_build/terminalpp_tester 2>&1 | tail -1)
    echo "tests=$tests"
    g++ -std=gnu++20 -DFMT_SHARED -I$WT/include -isystem /root/miniconda/include $d/demo.cpp $WT/_build/libterminalpp.a -L/root/miniconda/lib -lfmt -Wl,-rpath,/root/miniconda/lib -pthread -o /tmp/val/$name.demo >/tmp/val/$name.demo.build.log 2>&1 || echo "demo_builds=no"
    timeout 300 /tmp/val/$name.demo >/tmp/val/$name.demo.with.log 2>&1; echo "demo_with_patch_exit=$?"
    git checkout -- . && cmake --build _build >/dev/null 2>&1
    g++ -std=gnu++20 -DFMT_SHARED -I$WT/include -isystem /root/miniconda/include $d/demo.cpp $WT/_build/libterminalpp.a -L/root/miniconda/lib -lfmt -Wl,-rpath,/root/miniconda/lib -pthread -o /tmp/val/$name.demo >/dev/null 2>&1
    timeout 300 /tmp/val/$name.demo >/tmp/val/$name.demo.without.log 2>&1; echo "demo_without_patch_exit=$?"
    rm -f /tmp/val/$name.demo
  } > $out 2>&1
  cat $out | tr '\n' ' '; echo
done
