(* Oracle.v — executable property oracles.  They take the IMPLEMENTATION's
   observations (the real bytes and the terminal_state a manipulator sees)
   and decide the output-side properties on that case with the reference
   terminal of VT.v.  Definitions only. *)
From TP Require Export VT Screen Markup.
Local Open Scope N_scope.

(* ---- well-formedness of what is asked ------------------------------------ *)
Definition cont (b : byte) : bool := (128 <=? b) && (b <=? 191).

Definition wf_utf8 (g : glyph) : bool :=
  ((g0 g <=? 127) && (g1 g =? 0) && (g2 g =? 0)) ||
  ((194 <=? g0 g) && (g0 g <=? 223) && cont (g1 g) && (g2 g =? 0)) ||
  ((224 <=? g0 g) && (g0 g <=? 239) && cont (g1 g) && cont (g2 g)).

Definition displayable (g : glyph) : bool :=
  if cs_eqb (gcs g) CsUtf8 then
    wf_utf8 g &&
    (if g0 g <=? 127 then (32 <=? g0 g) && (g0 g <=? 126)
     else negb ((g0 g =? 194) && (g1 g <? 160)))
  else ((32 <=? g0 g) && (g0 g <=? 126)) || ((160 <=? g0 g) && (g0 g <=? 255)).

Definition wf_colour (c : colour) : bool :=
  match c with
  | CLow v => (v <=? 7) || (v =? 9)
  | CHigh v => v <=? 255
  | CGrey v => v <=? 255
  | CTrue r g b => (r <=? 255) && (g <=? 255) && (b <=? 255)
  end.

Definition wf_elem (e : element) : bool :=
  displayable (eg e) && wf_colour (fg (ea e)) && wf_colour (bg (ea e)).

(* format effectors written as elements (a newline in a string, a tab, ...):
   they show no glyph; the oracle follows them, the terminal-based theorems do
   not cover them *)
Definition format_effector (g : glyph) : bool :=
  ((g0 g =? 8) || (g0 g =? 9) || (g0 g =? 10) || (g0 g =? 13)) &&
  (if cs_eqb (gcs g) CsUtf8 then (g1 g =? 0) && (g2 g =? 0) else true).

Definition wf_elem_c (e : element) : bool :=
  (displayable (eg e) || format_effector (eg e)) && wf_colour (fg (ea e)) && wf_colour (bg (ea e)).

Definition visible (es : list element) : list element :=
  filter (fun e => negb (is_control_glyph (eg e))) es.

(* a title is any text without C0 controls and DEL; bytes 0x80..0x9F are text
   (UTF-8 continuation bytes): the reference terminal, like terminals in UTF-8
   mode, does not take them for C1 controls *)
Definition wf_title (t : list byte) : bool :=
  forallb (fun b => (32 <=? b) && (b <=? 255) && negb (b =? 127)) t.

(* ---- the relation between belief and terminal (decidable form) ----------- *)
Definition rend_eqb_v (a b : vcolour) : bool :=
  match a, b with
  | VDefault, VDefault => true
  | VIdx x, VIdx y => x =? y
  | VRgb r g b, VRgb r' g' b' => (r =? r') && (g =? g') && (b =? b')
  | _, _ => false
  end.
Definition rend_eqb (a b : rendition) : bool :=
  inten_eqb (r_int a) (r_int b) && Bool.eqb (r_ul a) (r_ul b) &&
  Bool.eqb (r_neg a) (r_neg b) && Bool.eqb (r_blink a) (r_blink b) &&
  rend_eqb_v (r_fg a) (r_fg b) && rend_eqb_v (r_bg a) (r_bg b).

Definition shown_eqb (a b : shown) : bool :=
  match a, b with
  | ShownCs x, ShownCs y => cs_eqb x y
  | ShownUtf8, ShownUtf8 => true
  | Garbled, Garbled => true
  | _, _ => false
  end.
Definition cell_eqb (a b : cell) : bool :=
  bytes_eqb (c_bytes a) (c_bytes b) && shown_eqb (c_shown a) (c_shown b) &&
  rend_eqb (c_rend a) (c_rend b).

Definition charset_ok (beh : behaviour) (c : charset) (v : vt) : bool :=
  if cs_eqb c CsUtf8 then utf8 v && (b_unicode_all beh || cs_eqb (g0cs v) CsAscii)
  else negb (utf8 v) && cs_eqb (g0cs v) c.

Definition truthful (beh : behaviour) (st : tstate) (v : vt) : bool :=
  pt_eqb (ts_size st) (vsize v) &&
  match ts_last st with
  | Some l => rend_eqb (rend v) (rend_of (ea l)) && charset_ok beh (gcs (eg l)) v
  | None => charset_ok beh CsAscii v
  end &&
  match ts_cur st with
  | Some p => pt_eqb (vcur v) p && negb (pending v) && inside p (vsize v)
  | None => true
  end &&
  match ts_saved st with
  | Some p => opt_eqb pt_eqb (vsaved v) (Some p) && inside p (vsize v)
  | None => true
  end &&
  match ts_vis st with
  | Some b => Bool.eqb (vis v) b
  | None => true
  end.

(* ---- observations --------------------------------------------------------- *)
Inductive oop := OTerm (o : op) | ODraw (c : canvas).
Record obs := mkObs { o_op : oop; o_bytes : list byte; o_st : tstate }.

Record ostate := mkO {
  os_vt : vt;
  os_prev : tstate;                 (* belief reported after the previous op *)
  os_model : tstate;                (* belief the (proved) model holds before the op *)
  os_expect : option pt;            (* where the next glyph must land (C02) *)
  os_frame : canvas;                (* last canvas drawn (C03/C04) *)
  os_idx : N;
  os_fail : list (N * N) }.         (* (op index, clause code) *)

Definition new_trace (before after : vt) : list (pt * cell) :=
  rev (firstn (length (trace after) - length (trace before)) (trace after)).

Definition op_elements (o : op) : option (list element) :=
  match o with
  | WElem e => Some [e] | WRaw e => Some [e] | WStr s => Some s
  | _ => None
  end.

Fixpoint cells_match (tr : list (pt * cell)) (es : list element) : bool :=
  match tr, es with
  | [], [] => true
  | (_, c) :: tr', e :: es' => cell_eqb c (display_of e) && cells_match tr' es'
  | _, _ => false
  end.

(* consecutive-column placement starting at the expected position; returns
   the expectation for the next glyph *)
Fixpoint positions_ok (w : N) (expect : option pt) (tr : list (pt * cell))
  : bool * option pt :=
  match tr with
  | [] => (true, expect)
  | (p, _) :: tr' =>
      match expect with
      | None => positions_ok w None tr'
      | Some q =>
          if pt_eqb p q then
            positions_ok w (if fst q + 1 <? w then Some (fst q + 1, snd q) else None) tr'
          else (false, None)
      end
  end.

Definition grid_points (sz : pt) : list pt := region_points 0 0 (fst sz) (snd sz).

Definition erase_region_of (k : erase_kind) (c p : pt) : bool :=
  match k with
  | EDisplay => true
  | EDisplayAbove => in_ed 1 c p
  | EDisplayBelow => in_ed 0 c p
  | ELine => in_el 2 c p
  | ELineLeft => in_el 1 c p
  | ELineRight => in_el 0 c p
  end.

Definition changed_cells (prev cur : canvas) : list (pt * element) :=
  filter (fun pe => negb (element_eqb (cv_get prev (fst (fst pe)) (snd (fst pe))) (snd pe)))
         (region_visit cur 0 0 (cw cur) (ch cur)).

Fixpoint trace_is (tr : list (pt * cell)) (want : list (pt * element)) : bool :=
  match tr, want with
  | [], [] => true
  | (p, c) :: tr', (q, e) :: want' =>
      pt_eqb p q && cell_eqb c (display_of e) && trace_is tr' want'
  | _, _ => false
  end.

Definition fail_if (b : bool) (code : N) (idx : N) (l : list (N * N)) : list (N * N) :=
  if b then (idx, code) :: l else l.

(* the terminal after the observation: it interprets the bytes written; on a
   size change it adopts the new size and some cursor position *)
Definition v_after (cfg : vtcfg) (adopt : pt -> pt -> pt) (v : vt) (o : obs) : vt :=
  match o_op o with
  | OTerm (SetSize sz) => vt_resize v sz (adopt (vcur v) sz)
  | _ => vt_bytes cfg v (o_bytes o)
  end.

Definition no_bytes (bs : list byte) : bool := match bs with [] => true | _ => false end.

Definition bad_101 (v' : vt) : bool :=
  malformed v' || unknown v' || negb (match lex v' with Ground => true | _ => false end).

Definition bad_102 (tr : list (pt * cell)) (op : op) : bool :=
  match op_elements op with
  | Some es => negb (cells_match tr (visible es))
  | None => false
  end.

Definition bad_1701 (tr : list (pt * cell)) (op : op) : bool :=
  match op_elements op with
  | Some es => negb (bytes_eqb (flat_map (fun pc => c_bytes (snd pc)) tr) (to_string (visible es)))
  | None => false
  end.

Definition bad_103 (tr : list (pt * cell)) (op : op) : bool :=
  match op_elements op with
  | Some _ => false
  | None => negb (match tr with [] => true | _ => false end)
  end.

(* a write containing a control character moves the cursor in its own way: no
   placement expectation through or after it *)
Definition has_ctl (op : op) : bool :=
  match op_elements op with
  | Some es => existsb (fun e => is_control_glyph (eg e)) es
  | None => false
  end.

Definition pos_result (w : N) (expect : option pt) (tr : list (pt * cell)) (op : op)
  : bool * option pt :=
  if has_ctl op then (true, None) else positions_ok w expect tr.

Definition next_expect (op : op) (sz : pt) (e : option pt) : option pt :=
  match op with
  | Move p => if inside p sz then Some p else None
  | Restore => None
  | SetSize _ => None
  | _ => e
  end.

Definition bad_901 (v v' : vt) (op : op) : bool :=
  match op with
  | Erase k =>
      let c := vcur v in
      negb (forallb (fun p =>
              if erase_region_of k c p
              then cell_eqb (cells v' p) (blank_cell default_rend)
              else cell_eqb (cells v' p) (cells v p)) (grid_points (vsize v))
            && pt_eqb (vcur v') (vcur v) && Bool.eqb (pending v') (pending v)
            && rend_eqb (rend v') default_rend)
  | _ => false
  end.

Definition bad_1101 (beh : behaviour) (v v' : vt) (bytes : list byte) (op : op) : bool :=
  match op with
  | Show => negb (vis v')
  | Hide => vis v'
  | MouseOn =>
      negb (match mouse_mode beh with
            | Some 1000 => m1000 v' && Bool.eqb (m1003 v') (m1003 v)
            | Some _ => m1003 v' && Bool.eqb (m1000 v') (m1000 v)
            | None => no_bytes bytes
            end)
  | MouseOff =>
      negb (match mouse_mode beh with
            | Some 1000 => negb (m1000 v') && Bool.eqb (m1003 v') (m1003 v)
            | Some _ => negb (m1003 v') && Bool.eqb (m1000 v') (m1000 v)
            | None => no_bytes bytes
            end)
  | BufNormal => altbuf v'
  | BufAlt => negb (altbuf v')
  | Title t =>
      negb (if b_title_bel beh || b_title_st beh then bytes_eqb (title v') t else no_bytes bytes)
  | _ => false
  end.

(* C13: nothing re-sent for what the (proved) belief says is in effect *)
Definition bad_1301 (model : tstate) (bytes : list byte) (op : op) : bool :=
  match op with
  | WElem e | WRaw e =>
      match ts_last model with
      | Some l => attr_eqb (ea l) (ea e) && cs_eqb (gcs (eg l)) (gcs (eg e)) &&
                  negb (bytes_eqb bytes (wire (eg e)))
      | None => false
      end
  | Move p => opt_eqb pt_eqb (ts_cur model) (Some p) && negb (no_bytes bytes)
  | Show => opt_eqb Bool.eqb (ts_vis model) (Some true) && negb (no_bytes bytes)
  | Hide => opt_eqb Bool.eqb (ts_vis model) (Some false) && negb (no_bytes bytes)
  | _ => false
  end.

(* C08: a size change makes the cursor and the saved cursor unknown, whatever
   was believed before - holds from every state (C08_forgets_on_resize), so it
   is judged on every history *)
Definition bad_802 (reported : tstate) (op : op) : bool :=
  match op with
  | SetSize _ => negb (match ts_cur reported, ts_saved reported with None, None => true | _, _ => false end)
  | _ => false
  end.

(* clause codes: 101 ill-formed/unknown control function or lexer not at
   rest; 102 glyphs shown differ from the elements requested; 103 glyphs
   shown by an operation that writes none; 201 glyph not at the requested
   position; 301 display differs from canvas after draw; 401 draw did not
   transmit exactly the changed cells; 801 reported-known value untrue;
   802 a position still reported as known after a size change;
   399 (marker only) bottom-right cell written on an immediate-wrap
   terminal; 901 erase cleared the wrong cells / wrong rendition / moved cursor;
   1101 mode not as last requested or capability not respected;
   1301 bytes re-sent for what is already in effect ("in effect" is the belief of
   the model, which C08 proves true of the terminal); 1701 text altered. *)
Definition oracle_step (cfg : vtcfg) (beh : behaviour) (adopt : pt -> pt -> pt)
           (check_text : bool) (s : ostate) (o : obs) : ostate :=
  let v := os_vt s in
  let i := os_idx s in
  let v' := v_after cfg adopt v o in
  let tr := new_trace v v' in
  let f := os_fail s in
  let f := fail_if (bad_101 v') 101 i f in
  let f := fail_if (negb (truthful beh (o_st o) v')) 801 i f in
  match o_op o with
  | OTerm op =>
      let f := fail_if (check_text && bad_102 tr op) 102 i f in
      let f := fail_if (check_text && bad_1701 tr op) 1701 i f in
      let f := fail_if (bad_103 tr op) 103 i f in
      let pr := pos_result (fst (vsize v')) (os_expect s) tr op in
      let f := fail_if (negb (fst pr)) 201 i f in
      let f := fail_if (bad_901 v v' op) 901 i f in
      let f := fail_if (bad_1101 beh v v' (o_bytes o) op) 1101 i f in
      let f := fail_if (bad_1301 (os_model s) (o_bytes o) op) 1301 i f in
      let f := fail_if (bad_802 (o_st o) op) 802 i f in
      mkO v' (o_st o) (fst (step beh (os_model s) op))
          (next_expect op (vsize v') (snd pr)) (os_frame s) (i + 1) f
  | ODraw c =>
      let same_size := (cw c =? cw (os_frame s)) && (ch c =? ch (os_frame s)) in
      let prev := if same_size then os_frame s else blank_canvas (cw c) (ch c) in
      (* the draw clauses presuppose a terminal of the canvas's size *)
      let sized := pt_eqb (vsize v) (cw c, ch c) in
      (* marker, not a failure: on a terminal that wraps immediately this draw
         wrote the bottom-right cell, which scrolls the display (known
         finding D7); later 301 reports under this configuration are
         attributed to it by the harness *)
      let f := fail_if (sized && (match wrap cfg with Immediate => true | _ => false end) &&
                        existsb (fun pc => pt_eqb (fst pc) (cw c - 1, ch c - 1)) tr) 399 i f in
      let f := fail_if (check_text && sized &&
                        negb (forallb (fun pe => cell_eqb (cells v' (fst pe)) (display_of (snd pe)))
                                      (region_visit c 0 0 (cw c) (ch c)))) 301 i f in
      let f := fail_if (check_text && sized && negb (trace_is tr (changed_cells prev c))) 401 i f in
      let f := fail_if (same_size && list_eqb element_eqb (grid (os_frame s)) (grid c) &&
                        negb (no_bytes (o_bytes o))) 401 i f in
      (* C11: a draw requests no mode; whatever was last requested stays in effect *)
      let f := fail_if (negb (Bool.eqb (vis v') (vis v) && Bool.eqb (m1000 v') (m1000 v) &&
                              Bool.eqb (m1003 v') (m1003 v) && Bool.eqb (altbuf v') (altbuf v) &&
                              bytes_eqb (title v') (title v))) 1101 i f in
      mkO v' (o_st o) (fst (run beh (os_model s) (draw_ops (mkScreen (os_frame s)) c))) None c (i + 1) f
  end.

Definition oracle_run (cfg : vtcfg) (beh : behaviour) (adopt : pt -> pt -> pt)
           (check_text : bool) (v0 : vt) (h : list obs) : list (N * N) :=
  rev (os_fail (fold_left (oracle_step cfg beh adopt check_text) h
                          (mkO v0 init_tstate init_tstate None (blank_canvas 0 0) 0 []))).

(* ---- initial terminals the oracle is run from ----------------------------- *)
Definition junk_rend : rendition :=
  mkRend IBold true true true (VIdx 3) (VRgb 1 2 3).

Definition vt0_clean : vt :=
  mkVt Ground false false (0, 0) (fun _ => blank_cell default_rend) (0, 0) false
       default_rend CsAscii false None true false false false [] [].

Definition vt0_junk : vt :=
  mkVt Ground false false (0, 0) (fun _ => mkCell [88] (ShownCs CsDec) junk_rend) (0, 0) false
       junk_rend CsAscii false (Some (2, 1)) false true true true [120] [].

Definition adopt_keep (c sz : pt) : pt := c.
Definition adopt_corner (c sz : pt) : pt := (fst sz - 1, snd sz - 1).
Definition adopt_home (c sz : pt) : pt := (0, 0).

(* whether every element/position an observation list asks for is within the
   hypotheses of the theorems (displayable glyphs, standard colours, positions
   inside the declared size, title without control bytes) *)
Definition wf_op_b (sz : pt) (o : op) : bool :=
  match o with
  | WElem e | WRaw e => wf_elem_c e
  | WStr s => forallb wf_elem_c s
  | Move p => inside p sz
  | Title t => wf_title t
  | _ => true
  end.
