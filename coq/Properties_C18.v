(* Properties_C18.v — C18: character-set designators follow the VT standard and
   round-trip.  All statements are about the COMPLETE graphs of the real
   lookup_character_set / encode_character_set (Generated.v, regenerated from
   the headers on every run): 256 one-byte candidates, 256 '%'-extended
   candidates, 19 sets.  Proved by computation inside the kernel. *)
From TP Require Import Base Elem Screen VT Generated Tie_Charset.
Local Open Scope N_scope.

Definition designatable : list charset := removelast all_charsets.   (* all but utf8 *)

Definition real_encode (c : charset) : list N := nth (N.to_nat (cs_index c)) g_encode_cs [].
Definition real_lookup (d : list N) : option N :=
  match d with
  | [b] => nth (N.to_nat b) g_lookup1 None
  | [37; b] => nth (N.to_nat b) g_lookup2 None
  | _ => None
  end.

(* the designator produced for every set other than UTF-8 is the standard
   VT/xterm designator of that set and looks up to the same set again *)
Theorem C18_standard_and_roundtrip :
  forallb (fun c => bytes_eqb (real_encode c) (std_designator c) &&
                    opt_eqb N.eqb (real_lookup (real_encode c)) (Some (cs_index c)))
          designatable = true.
Proof. vm_compute. reflexivity. Qed.
Print Assumptions C18_standard_and_roundtrip.

(* every standard alias looks up to the set it denotes *)
Theorem C18_aliases :
  forallb (fun ac => opt_eqb N.eqb (real_lookup (fst ac)) (Some (cs_index (snd ac)))) std_alias = true.
Proof. vm_compute. reflexivity. Qed.
Print Assumptions C18_aliases.

(* no two sets share a designator: a candidate looks up to at most one set by
   construction of a function; and no designator of one set looks up to another *)
Theorem C18_no_shared_designator :
  forallb (fun c => forallb (fun c' =>
     if cs_eqb c c' then true
     else negb (opt_eqb N.eqb (real_lookup (real_encode c)) (Some (cs_index c')))) designatable)
     designatable = true.
Proof. vm_compute. reflexivity. Qed.
Print Assumptions C18_no_shared_designator.

(* exactly the standard designators and aliases look up to anything: every
   other one-byte candidate and every other '%'-extended two-byte candidate
   yields nothing, and those that do yield the standard set *)
Theorem C18_nothing_else :
  forallb (fun b => opt_eqb N.eqb (real_lookup [b]) (option_map cs_index (std_lookup [b])))
          (Nseq 0 256) = true /\
  forallb (fun b => opt_eqb N.eqb (real_lookup [37; b]) (option_map cs_index (std_lookup [37; b])))
          (Nseq 0 256) = true /\
  g_lookup_extender_alone = [None] /\ g_lookup_empty = [None] /\
  length (filter (fun o => match o with Some _ => true | None => false end) g_lookup1) = 22%nat /\
  length (filter (fun o => match o with Some _ => true | None => false end) g_lookup2) = 2%nat.
Proof. vm_compute. repeat split. Qed.
Print Assumptions C18_nothing_else.

(* the model used in all other theorems agrees with the real functions on their
   whole domain (so the G0 designation the reference terminal receives for an
   element, by C01, is the standard designator) *)
Theorem C18_model_agrees :
  map (fun b => option_map cs_index (lookup_cs [b])) (Nseq 0 256) = g_lookup1 /\
  map (fun b => option_map cs_index (lookup_cs [37; b])) (Nseq 0 256) = g_lookup2 /\
  map encode_cs all_charsets = g_encode_cs /\
  forallb (fun c => opt_eqb cs_eqb (std_lookup (encode_cs c)) (Some c)) designatable = true.
Proof.
  split; [exact tie_lookup1|]. split; [exact tie_lookup2|]. split; [exact tie_encode_cs|].
  vm_compute. reflexivity.
Qed.
Print Assumptions C18_model_agrees.

(* the lookup is the same function when the compiler evaluates it (constant
   expressions: constexpr variables, static_assert, an _ete literal at namespace
   scope) as when the program does: both complete graphs, generated on this run *)
Theorem C18_same_function_at_compile_time :
  g_lookup1_constexpr = g_lookup1 /\ g_lookup2_constexpr = g_lookup2.
Proof. vm_compute. split; reflexivity. Qed.
Print Assumptions C18_same_function_at_compile_time.
