(* Strings.v — model of the attributed string class (string.hpp / string.cpp): a
   string is its list of elements; constructors and the mutating interface
   (operator+=, operator+, insert, erase, operator[], swap).  Iterator positions
   are element indices.  Definitions only. *)
From TP Require Export Markup Screen.
Local Open Scope N_scope.

Definition tstring := list element.

Definition elem_of_byte (b : byte) : element := mkElem (mkGlyph CsAscii b 0 0) default_attr.

Fixpoint until_nul (bs : list byte) : list byte :=
  match bs with
  | [] => []
  | b :: r => if b =? 0 then [] else b :: until_nul r
  end.

(* the constructor from a C string: the text up to the first NUL *)
Definition s_of_cstr (bs : list byte) : tstring := of_bytes (until_nul bs).
(* the constructors from pointer+length and from std::string *)
Definition s_of_bytes (bs : list byte) : tstring := of_bytes bs.
(* the constructor from std::string and an attribute *)
Definition s_of_bytes_attr (bs : list byte) (a : attr) : tstring :=
  map (fun e => mkElem (eg e) a) (of_bytes bs).
(* string(size, element) *)
Definition s_fill (n : nat) (e : element) : tstring := repeat e n.
(* string(first, last), string(initializer_list) *)
Definition s_of_elems (es : list element) : tstring := es.

Definition s_append_elem (s : tstring) (e : element) : tstring := s ++ [e].
Definition s_append (s t : tstring) : tstring := s ++ t.
Definition s_insert (s : tstring) (pos : nat) (e : element) : tstring :=
  firstn pos s ++ e :: skipn pos s.
Definition s_insert_range (s : tstring) (pos : nat) (t : tstring) : tstring :=
  firstn pos s ++ t ++ skipn pos s.
Definition s_erase_all (s : tstring) : tstring := [].
Definition s_erase_from (s : tstring) (pos : nat) : tstring := firstn pos s.
Definition s_erase_range (s : tstring) (a b : nat) : tstring := firstn a s ++ skipn b s.
Definition s_set (s : tstring) (i : nat) (e : element) : tstring := list_set s i e.
Definition s_size (s : tstring) : nat := length s.
Definition s_empty (s : tstring) : bool := match s with [] => true | _ => false end.

(* ---- glyph constructors ------------------------------------------------------------- *)
(* the constructor from a character and a character set *)
Definition glyph_of_char (b : byte) (c : charset) : glyph := mkGlyph c b 0 0.

(* the constructors from an array holding one UTF-8 character and its NUL *)
Definition glyph_of_array (bs : list byte) : glyph :=
  mkGlyph CsUtf8 (nth 0 bs 0) (nth 1 bs 0) (nth 2 bs 0).

(* the constructor from a pointer into UTF-8 text (which may go on after the
   first character; reading stops at the text's NUL at the latest): only the
   bytes of the first character are taken - the lead byte says how many
   continuation bytes belong to it (after the fix of defect D10) *)
Definition is_cont (b : byte) : bool := (128 <=? b) && (b <? 192).
Definition glyph_of_cstr (text : list byte) : glyph :=
  let t0 := nth 0 text 0 in
  let t1 := nth 1 text 0 in
  let t2 := nth 2 text 0 in
  let len := if t0 <? 128 then 1 else if (192 <=? t0) && (t0 <? 224) then 2 else 3 in
  let u1 := if (2 <=? len) && is_cont t1 then t1 else 0 in
  let u2 := if (3 <=? len) && is_cont t1 && is_cont t2 then t2 else 0 in
  mkGlyph CsUtf8 t0 u1 u2.
