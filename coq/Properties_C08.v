(* Properties_C08.v -- placeholder, theorems follow *)
From TP Require Import Term.
