(* Properties_C07.v — C07 (PARTIAL): no input can crash, hang or permanently
   confuse the library.
   Proved here, on the model: termination and the size bound of the markup
   decoder, resynchronisation of the input decoder, and the index-safety
   obligations of the C++ (handler-table index, arguments[0], digit-only
   arguments).  NOT provable in this family: absence of undefined behaviour in
   the compiled C++ - that half is observed by running every generated input
   through the real library under AddressSanitizer + UndefinedBehaviourSanitizer
   (see DESIGN.md, C07). *)
From TP Require Import Base Elem Term Markup Parser Proto P_Dec P_Parser P_Items P_Markup Tie_Input Tie_Markup.
From Coq Require Import Lia.
Local Open Scope N_scope.

(* the markup decoder never yields more elements than input characters *)
Theorem C07_markup_bound : forall text, (length (encode text) <= length text)%nat.
Proof. intros text. apply encode_loop_len. Qed.
Print Assumptions C07_markup_bound.

(* every call of parse_element on non-empty input consumes at least one
   character, so encode()'s loop terminates; the model's fuel (the input length)
   is never what stops it *)
Theorem C07_markup_terminates :
  (forall c r base, (length (fst (parse_element (c :: r) base)) < length (c :: r))%nat) /\
  (forall text extra, encode_loop (length text + extra) text default_element = encode text).
Proof.
  split; [exact parse_element_consumes|].
  intros text extra. apply encode_loop_fuel. lia.
Qed.
Print Assumptions C07_markup_terminates.

(* the handler table (38 entries) is only indexed while the state is not
   'done', and then the index is < 38 *)
Theorem C07_handler_index :
  (forall s, is_done s = false -> mstate_index s < 38) /\
  (forall c i e, mstate_index (mi_st (fst (mstep c i e))) <= 38) /\
  Generated.g_markup_handlers = 38.
Proof. split; [exact handler_index_in_bounds|]. split; [exact mstep_state_range|reflexivity]. Qed.
Print Assumptions C07_handler_index.

(* After any input whatsoever - from ANY decoder state, reachable or not - four
   letters bring the decoder to rest ... *)
Theorem C07_resync :
  forall s l1 l2 l3 l4,
    letter l1 = true -> letter l2 = true -> letter l3 = true -> letter l4 = true ->
    p_st (fst (feed s [l1; l2; l3; l4])) = PIdle.
Proof. exact resync. Qed.
Print Assumptions C07_resync.

(* ... and from rest every later input is decoded as by a fresh terminal. *)
Theorem C07_fresh_afterwards :
  forall garbage l1 l2 l3 l4 later,
    letter l1 = true -> letter l2 = true -> letter l3 = true -> letter l4 = true ->
    let s := fst (feed init_pstate (garbage ++ [l1; l2; l3; l4])) in
    snd (deliver s later) = snd (deliver init_pstate later).
Proof.
  intros garbage l1 l2 l3 l4 later H1 H2 H3 H4 s.
  assert (Hs : p_st s = PIdle).
  { unfold s. rewrite feed_app. cbn [fst]. apply resync; assumption. }
  unfold deliver. destruct (idle_like_fresh s later Hs) as [Ht _].
  destruct (feed s later), (feed init_pstate later). cbn [snd] in *. rewrite Ht. reflexivity.
Qed.
Print Assumptions C07_fresh_afterwards.

(* four is tight: CSI M needs M and three more bytes *)
Theorem C07_four_is_tight :
  exists s, p_st (fst (feed s [77; 65; 65])) <> PIdle.
Proof. eexists. exact resync_tight. Qed.

(* every control sequence handed to the key translation has at least one
   argument, and its arguments are digit strings: arguments[0] exists and the
   conversion to int reads digits only *)
Theorem C07_arguments_safe :
  forall bs c, In (TCtl c) (snd (feed init_pstate bs)) ->
    cs_args c <> [] /\ forallb (forallb is_digit) (cs_args c) = true.
Proof.
  intros bs c Hin.
  destruct (feed_digits bs init_pstate) as [_ H]; [split; reflexivity|].
  exact (H c Hin).
Qed.
Print Assumptions C07_arguments_safe.
