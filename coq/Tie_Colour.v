(* Tie_Colour.v — the model's 256-colour arithmetic equals the complete graphs
   of the real ansi::graphics functions and colour constructors. *)
From TP Require Import Elem Screen Generated.
Local Open Scope N_scope.

Definition triples : list (N * N * N) :=
  flat_map (fun r => flat_map (fun g => map (fun b => (r, g, b)) (Nseq 0 6)) (Nseq 0 6)) (Nseq 0 6).

Lemma tie_encode_high :
  map (fun t => encode_high (fst (fst t)) (snd (fst t)) (snd t)) triples = g_encode_high_216.
Proof. vm_compute. reflexivity. Qed.

Lemma tie_high_ctor : g_high_colour_ctor_216 = g_encode_high_216.
Proof. vm_compute. reflexivity. Qed.

Lemma tie_encode_high_wrap :
  map (fun x => encode_high x (255 - x) (x / 2)) (Nseq 0 256) = g_encode_high_wrap.
Proof. vm_compute. reflexivity. Qed.

Lemma tie_high_red : map high_red (Nseq 0 256) = g_high_red.
Proof. vm_compute. reflexivity. Qed.
Lemma tie_high_green : map high_green (Nseq 0 256) = g_high_green.
Proof. vm_compute. reflexivity. Qed.
Lemma tie_high_blue : map high_blue (Nseq 0 256) = g_high_blue.
Proof. vm_compute. reflexivity. Qed.
Lemma tie_encode_grey : map encode_grey (Nseq 0 256) = g_encode_grey.
Proof. vm_compute. reflexivity. Qed.
Lemma tie_grey_component : map grey_component (Nseq 0 256) = g_grey_component.
Proof. vm_compute. reflexivity. Qed.
Lemma tie_grey_ctor : g_greyscale_ctor = g_encode_grey.
Proof. vm_compute. reflexivity. Qed.
