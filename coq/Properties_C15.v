(* Properties_C15.v — C15: equality, ordering and hashing of the value types
   agree with each other. *)
From TP Require Import Base Elem Parser Order P_Order Tie_Glyph Term Oracle Strings P_Strings.
From Coq Require Import Lia ZifyBool ZifyN.
Local Open Scope N_scope.

(* the laws the property asks for, for a type with operators (eqb, cmp):
   == is an equivalence; < is irreflexive and transitive; "neither less"
   coincides with ==; > is the converse of < *)
Definition agrees {T} (eqb : T -> T -> bool) (cmp : T -> T -> comparison) : Prop :=
  (forall a, eqb a a = true) /\
  (forall a b, eqb a b = true -> eqb b a = true) /\
  (forall a b c, eqb a b = true -> eqb b c = true -> eqb a c = true) /\
  (forall a, cmp a a <> Lt) /\
  (forall a b c, cmp a b = Lt -> cmp b c = Lt -> cmp a c = Lt) /\
  (forall a b, (cmp a b <> Lt /\ cmp b a <> Lt) <-> eqb a b = true) /\
  (forall a b, cmp a b = Gt <-> cmp b a = Lt).

Theorem C15_orders :
  agrees cs_eqb cs_cmp /\ agrees glyph_eqb glyph_cmp /\ agrees colour_eqb colour_cmp /\
  agrees attr_eqb attr_cmp /\ agrees element_eqb element_cmp /\ agrees string_eqb string_cmp /\
  agrees point_eqb point_cmp /\ agrees point_eqb extent_cmp /\ agrees rect_eqb rect_cmp /\
  agrees cseq_eqb cseq_cmp /\ agrees vkey_eqb vkey_cmp /\ agrees mouse_eqb mouse_cmp.
Proof.
  split; [exact (ord_laws _ _ ord_cs)|]. split; [exact (ord_laws _ _ ord_glyph)|].
  split; [exact (ord_laws _ _ ord_colour)|]. split; [exact (ord_laws _ _ ord_attr)|].
  split; [exact (ord_laws _ _ ord_element)|]. split; [exact (ord_laws _ _ ord_string)|].
  split; [exact (ord_laws _ _ ord_point)|]. split; [exact (ord_laws _ _ ord_extent)|].
  split; [exact (ord_laws _ _ ord_rect)|]. split; [exact (ord_laws _ _ ord_cseq)|].
  split; [exact (ord_laws _ _ ord_vkey)|exact (ord_laws _ _ ord_mouse)].
Qed.
Print Assumptions C15_orders.

(* operator< of glyph (hand written) is the "less" of its operator<=> *)
Theorem C15_glyph_lt : forall a b, glyph_ltb a b = true <-> glyph_cmp a b = Lt.
Proof.
  intros a b. unfold glyph_cmp. destruct (glyph_ltb a b); [tauto|].
  destruct (glyph_ltb b a); split; congruence.
Qed.

(* equal values have equal hashes: the C++ hash of each type is a function of
   the key only (hash_combine over exactly these members) *)
Theorem C15_hash :
  (forall a b, glyph_eqb a b = true -> glyph_hash_key a = glyph_hash_key b) /\
  (forall a b, colour_eqb a b = true -> colour_key a = colour_key b) /\
  (forall a b, attr_eqb a b = true -> attr_hash_key a = attr_hash_key b) /\
  (forall a b, element_eqb a b = true -> element_hash_key a = element_hash_key b) /\
  (forall a b, string_eqb a b = true -> string_hash_key a = string_hash_key b) /\
  (forall a b, cs_eqb a b = true -> cs_index a = cs_index b).
Proof.
  split; [exact glyph_hash_eq|]. split; [exact colour_hash_eq|]. split; [exact attr_hash_eq|].
  split; [exact element_hash_eq|]. split; [exact string_hash_eq|].
  intros a b H. apply N.eqb_eq. exact H.
Qed.
Print Assumptions C15_hash.

(* two glyphs that print the same byte in the same (non-UTF-8) character set are
   equal, neither is less, and they hash alike - whatever the two unused
   storage bytes hold, i.e. however they were constructed *)
Theorem C15_glyph_storage :
  forall c b x1 x2 y1 y2, cs_eqb c CsUtf8 = false ->
    let g := mkGlyph c b x1 x2 in
    let h := mkGlyph c b y1 y2 in
    glyph_eqb g h = true /\ glyph_cmp g h = Eq /\ glyph_ltb g h = false /\ glyph_ltb h g = false /\
    glyph_hash_key g = glyph_hash_key h.
Proof.
  intros c b x1 x2 y1 y2 Hc g h.
  assert (E : glyph_eqb g h = true).
  { unfold glyph_eqb, g, h. cbn [gcs g0]. rewrite Hc.
    assert (cs_eqb c c = true) as -> by (destruct c; reflexivity). apply N.eqb_refl. }
  split; [exact E|]. split; [apply (ok_eq _ _ ord_glyph); exact E|].
  assert (Hl : forall p q, glyph_eqb p q = true -> glyph_ltb p q = false).
  { intros p q Hpq. apply (ok_eq _ _ ord_glyph) in Hpq. unfold glyph_cmp in Hpq.
    destruct (glyph_ltb p q); [discriminate|reflexivity]. }
  split; [apply Hl; exact E|]. split; [|apply glyph_hash_eq; exact E].
  apply Hl. destruct (ord_laws _ _ ord_glyph) as (_ & Hs & _). apply Hs. exact E.
Qed.
Print Assumptions C15_glyph_storage.

(* and the real operators on a grid of storage patterns agree with the model
   (Generated.v, regenerated from the header on every run) *)
Theorem C15_real_glyph_operators :
  let gs := map glyph_of_pat Generated.g_glyph_grid in
  forallb (fun mi => result_ok (fst mi) (snd mi))
    (combine (flat_map (fun a => map (fun b => glyph_result a b) gs) gs) Generated.g_glyph_results) = true.
Proof. exact (proj1 tie_glyph_grid). Qed.
Print Assumptions C15_real_glyph_operators.

(* the same for UTF-8 glyphs: a glyph constructed from a pointer into a text is
   the glyph of the text's first character - equal to the one made from that
   character alone, whatever follows it in the text (defect D10, fixed: the
   byte after a two-byte character used to be stored as well) *)
Theorem C15_glyph_from_text :
  forall g rest, gcs g = CsUtf8 -> wf_utf8 g = true ->
    glyph_of_cstr (wire g ++ rest) = g /\
    glyph_eqb (glyph_of_cstr (wire g ++ rest)) (glyph_of_array (wire g)) = true.
Proof.
  intros g rest Hc Hwf. rewrite (glyph_of_cstr_wire g rest Hc Hwf). split; [reflexivity|].
  pose proof (glyph_of_cstr_wire g [] Hc Hwf) as H. rewrite app_nil_r in H.
  assert (E : glyph_of_array (wire g) = glyph_of_cstr (wire g)).
  { destruct g as [c b0 b1 b2]. cbn [gcs] in Hc. subst c. rewrite H.
    unfold wf_utf8, cont in Hwf. cbn [g0 g1 g2] in Hwf.
    unfold glyph_of_array, wire, utf8_len, hi. cbn [gcs g0 g1 g2]. change (cs_eqb CsUtf8 CsUtf8) with true. cbn iota.
    destruct (128 <=? b0) eqn:E0; cbn [negb].
    - destruct (128 <=? b1) eqn:E1; cbn [negb]; [|exfalso; lia].
      destruct (128 <=? b2) eqn:E2; cbn [negb nth]; [reflexivity|].
      assert (b2 = 0) as -> by lia. reflexivity.
    - cbn [nth]. assert (b1 = 0 /\ b2 = 0) as [-> ->] by lia. reflexivity. }
  rewrite E, H. exact (proj1 (ord_laws _ _ ord_glyph) g).
Qed.
Print Assumptions C15_glyph_from_text.
