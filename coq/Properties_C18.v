(* Properties_C18.v -- placeholder, theorems follow *)
From TP Require Import Term.
