"""Script generators.  One splitmix64 stream per (seed, family); every case is
reproducible from (seed, family, index).  Generators are structured and aim
at the case splits of the proofs; a separate 'wild' stream produces inputs
outside the theorems' hypotheses (used for correspondence only)."""

import re

MASK = (1 << 64) - 1


class Rng:
    def __init__(self, seed):
        self.s = (seed * 0x9E3779B97F4A7C15 + 0x1234567) & MASK

    def next(self):
        self.s = (self.s + 0x9E3779B97F4A7C15) & MASK
        z = self.s
        z = ((z ^ (z >> 30)) * 0xBF58476D1CE4E5B9) & MASK
        z = ((z ^ (z >> 27)) * 0x94D049BB133111EB) & MASK
        return z ^ (z >> 31)

    def below(self, n):
        return self.next() % n if n > 0 else 0

    def rng(self, a, b):
        return a + self.below(b - a + 1)

    def pick(self, xs):
        return xs[self.below(len(xs))]

    def chance(self, num, den):
        return self.below(den) < num


def family_seed(seed, family):
    h = 1469598103934665603
    for ch in family.encode():
        h = ((h ^ ch) * 1099511628211) & MASK
    return (seed * 1000003 + h) & MASK


def hexs(bs):
    return "".join("%02x" % b for b in bs) if bs else "-"


# ---- elements ---------------------------------------------------------------
DEFAULT_ATTR = (0, 9, 0, 0, 0, 9, 0, 0, 0, 0, 0, 0)
DESIGNATABLE = [0, 1, 2, 3, 4, 5, 6, 7, 8, 9, 10, 11, 12, 13, 14, 15, 16, 17]


def wf_colour(r):
    k = r.below(10)
    if k < 4:
        return (0, r.pick([0, 1, 2, 3, 4, 5, 6, 7, 9, 9, 9]), 0, 0)
    if k < 6:
        return (1, 16 + 36 * r.below(6) + 6 * r.below(6) + r.below(6), 0, 0)
    if k < 8:
        return (2, 232 + r.below(24), 0, 0)
    c = r.below(6)
    if c == 0:
        # a grey: the xterm greyscale ramp (8 + 10 n), the cube levels, and neighbours
        v = r.pick([8 + 10 * r.below(24), 8 + 10 * r.below(24), 0, 95, 135, 175, 215, 255, 128, 9, 237, 239])
        return (3, v, v, v)
    if c == 1:
        # exactly a colour of the 6x6x6 cube, or of the 16 system colours
        lv = [0, 95, 135, 175, 215, 255]
        return r.pick([(3, r.pick(lv), r.pick(lv), r.pick(lv)), (3, r.pick([0, 128, 255, 205, 192]), r.pick([0, 128, 255, 205]), r.pick([0, 128, 255, 238]))])
    if c == 2:
        # three-digit components (the longest parameters)
        return (3, r.rng(100, 255), r.rng(100, 255), r.rng(100, 255))
    return (3, r.below(256), r.below(256), r.below(256))


def wf_attr(r):
    if r.chance(1, 4):
        return DEFAULT_ATTR
    return wf_colour(r) + wf_colour(r) + (r.pick([0, 0, 1, 2]), r.below(2), r.below(2), r.below(2))


def long_colour(r):
    return r.pick([(3, r.rng(100, 255), r.rng(100, 255), r.rng(100, 255)), (1, r.rng(100, 231), 0, 0), (2, r.rng(232, 255), 0, 0)])


def extreme_pair(r):
    """two attributes whose difference needs the longest SGR sequence: every
    effect changes, bold<->faint, both colours change to long parameters"""
    i0 = r.pick([1, 2])
    a = wf_colour(r) + wf_colour(r) + (i0, r.below(2), r.below(2), r.below(2))
    if r.chance(1, 2):
        a = a[:8] + (i0, 1, 1, 1)
    b = long_colour(r) + long_colour(r) + (3 - i0, 1 - a[9], 1 - a[10], 1 - a[11])
    if r.chance(1, 3):
        # every effect goes off at once while one or both colours stay as they are
        a = a[:8] + (i0, 1, 1, 1)
        keep = r.below(3)
        b = (a[0:4] if keep != 1 else long_colour(r)) + (a[4:8] if keep != 0 else long_colour(r)) + (0, 0, 0, 0)
    return a, b


def mutate_attr(r, a):
    """change exactly one component (sometimes two) of an attribute"""
    a = list(a)
    if r.chance(1, 8):
        # the same colours used the other way round, or one colour moved to the other plane
        c = r.below(3)
        if c == 0:
            a[0:4], a[4:8] = a[4:8], a[0:4]
        elif c == 1:
            a[4:8] = a[0:4]
        else:
            a[0:4] = a[4:8]
        return tuple(a)
    for _ in range(1 if r.chance(3, 4) else 2):
        k = r.below(6)
        if k == 0:
            a[0:4] = wf_colour(r)
        elif k == 1:
            a[4:8] = wf_colour(r)
        elif k == 2:
            a[8] = r.pick([x for x in (0, 1, 2) if x != a[8]])
        else:
            a[6 + k] ^= 1
    return tuple(a)


def wf_glyph(r):
    k = r.below(12)
    if k < 6:
        return (5, r.rng(0x20, 0x7E), 0, 0)
    if k < 8:
        return (r.pick(DESIGNATABLE), r.rng(0x20, 0x7E), 0, 0)
    if k == 8:
        return (r.pick(DESIGNATABLE), r.rng(0xA0, 0xFF), 0, 0)
    if k == 9:
        return (18, r.rng(0x20, 0x7E), 0, 0)
    if k == 10:
        cp = r.rng(0xA0, 0x7FF)
        if r.chance(1, 3):
            cp = r.pick([0xA0, 0xA1, 0xAD, 0xBF, 0xC0, 0xFF, 0x100, 0x13F, 0x140, 0x300, 0x301, 0x36F, 0x370, 0x37E, 0x7C0, 0x7FE, 0x7FF])
        return (18, 0xC0 | (cp >> 6), 0x80 | (cp & 0x3F), 0)
    cp = r.rng(0x800, 0xFFFF)
    if r.chance(1, 3):
        # the first and last lead bytes and blocks of the three-byte range
        cp = r.pick([0x800, 0x801, 0x83F, 0x840, 0x900 + r.below(0x100), 0xE00 + r.below(0x80), 0xFFF, 0x1000, 0x1001,
                     0xCFFF, 0xD000, 0xD7FF, 0xE000, 0xF000 + r.below(0x1000), 0xFFFD, 0xFFFF,
                     # code points text-processing code likes to single out: zero-width, BOM, wide, combining-adjacent
                     0x200B, 0x200C, 0x200D, 0x2060, 0xFEFF, 0x3000, 0xFF01, 0x1100, 0x2028, 0x2029, 0x20AC, 0x2501])
    return (18, 0xE0 | (cp >> 12), 0x80 | ((cp >> 6) & 0x3F), 0x80 | (cp & 0x3F))


def near_glyph(r, g):
    """a well-formed glyph differing from g in one place only (last UTF-8 byte,
    middle byte, lead byte, the single byte, or the character set)"""
    cs, b0, b1, b2 = g
    if cs == 18 and b0 >= 0xE0:
        k = r.below(3)
        if k == 0:
            return (cs, b0, b1, 0x80 + (b2 - 0x80 + r.rng(1, 63)) % 64)
        if k == 1:
            nb1 = 0x80 + (b1 - 0x80 + r.rng(1, 63)) % 64
            if b0 == 0xE0 and nb1 < 0xA0:
                nb1 += 0x20
            return (cs, b0, nb1, b2)
        nb0 = r.rng(0xE1, 0xEF)
        return (cs, nb0, b1, b2)
    if cs == 18 and b0 >= 0xC2:
        if r.chance(1, 2):
            return (cs, b0, 0x80 + (b1 - 0x80 + r.rng(1, 63)) % 64, 0)
        return (cs, r.rng(0xC3, 0xDF), b1, 0)
    if r.chance(1, 3) and cs != 18 and 0x20 <= b0 <= 0x7E:
        return (r.pick([c for c in DESIGNATABLE + [5] if c != cs]), b0, 0, 0)
    nb = b0 + r.pick([-1, 1])
    if not (0x20 <= nb <= 0x7E or (cs != 18 and cs != 5 and 0xA0 <= nb <= 0xFF)):
        nb = 0x41 if b0 != 0x41 else 0x42
    return (cs, nb, 0, 0)


def wild_glyph(r):
    cs = r.below(19)
    if cs == 18:
        return (18, r.below(256), r.below(256), r.below(256))
    return (cs, r.below(256), r.pick([0, 0, r.below(256)]), r.pick([0, 0, r.below(256)]))


def wild_colour(r):
    k = r.below(4)
    if k == 0:
        return (0, r.below(12), 0, 0)
    if k == 3:
        return (3, r.below(256), r.below(256), r.below(256))
    return (k, r.below(256), 0, 0)


def wild_attr(r):
    return wild_colour(r) + wild_colour(r) + (r.below(3), r.below(2), r.below(2), r.below(2))


def el(g, a):
    return " ".join(str(x) for x in (g + a))


class ElemSource:
    """elements whose attribute/charset is related to the previous one"""

    def __init__(self, r, wild=False, ctl=False):
        self.r = r
        self.wild = wild
        self.ctl = ctl
        self.prev_attr = DEFAULT_ATTR
        self.prev_cs = 5
        self.prev_g = None
        self.queued = None

    def next(self, near=None, near_attr=None):
        r = self.r
        if near is None and self.prev_g is not None and r.chance(1, 12):
            # exactly the previous element again, or exactly the default element
            if r.chance(1, 2):
                return el(self.prev_g, self.prev_attr)
            self.prev_attr, self.prev_cs, self.prev_g = DEFAULT_ATTR, 5, (5, 32, 0, 0)
            return el((5, 32, 0, 0), DEFAULT_ATTR)
        if not self.wild and near is None:
            if self.queued is not None:
                a, self.queued = self.queued, None
                g = wf_glyph(r)
                if self.prev_cs == 18 and r.chance(2, 3):
                    # ... together with the longest character-set change: out of UTF-8
                    # into a set with a two-byte designator
                    g = (r.pick([2, 13, 2, 13, 0, 17]), r.rng(0x21, 0x7E), 0, 0)
                self.prev_attr, self.prev_cs, self.prev_g = a, g[0], g
                return el(g, a)
            if r.chance(1, 25):
                a, self.queued = extreme_pair(r)
                g = wf_glyph(r)
                if r.chance(1, 2):
                    cp = r.rng(0xA0, 0xFFFF)
                    g = (18,) + tuple(list(chr(cp).encode("utf-8", "surrogatepass")) + [0])[:3] if cp < 0x800 else (18,) + tuple(chr(cp).encode("utf-8", "surrogatepass"))
                self.prev_attr, self.prev_cs, self.prev_g = a, g[0], g
                return el(g, a)
        if self.wild:
            g, a = wild_glyph(r), (wild_attr(r) if r.chance(1, 2) else self.prev_attr)
        else:
            k = r.below(10)
            if k < 3:
                a = self.prev_attr
            elif k < 7:
                a = mutate_attr(r, self.prev_attr)
            elif k < 8:
                a = DEFAULT_ATTR
            else:
                a = wf_attr(r)
            g = wf_glyph(r)
            if r.chance(1, 2) and g[0] != self.prev_cs and self.prev_cs != 18 and g[0] != 18:
                g = (self.prev_cs,) + g[1:]
            base = near if near is not None else self.prev_g
            if base is not None and (near is not None or r.chance(1, 10)) and (base[1] >= 0x20 and base[1] != 0x7F):
                g = near_glyph(r, base)
                if near is not None and near_attr is not None and r.chance(3, 4):
                    a = near_attr
            if self.ctl and r.chance(1, 12):
                # a format effector written as an element (newline in a string, tab, ...)
                g = (r.pick([5, 5, g[0]]), r.pick([10, 10, 13, 9, 8]), 0, 0)
        self.prev_attr, self.prev_cs, self.prev_g = a, g[0], g
        return el(g, a)


def beh_mask(r):
    m = 0b1101111  # defaults of the seven cursor flags (ignored by the code)
    if r.chance(1, 3):
        m = r.below(128)
    for bit in (7, 8, 9, 10, 11):
        if r.chance(1, 2):
            m |= 1 << bit
    if r.chance(1, 3):
        m |= 1 << 12          # not a behaviour: a channel whose write() returns bool
    return m


# ---- terminal histories -------------------------------------------------------
def gen_term_case(r, idx, wild=False, nops=None, kinds=None):
    lines = ["CASE %d" % idx, "T 0 new %d" % beh_mask(r)]
    w, h = r.rng(1, 9), r.rng(1, 5)
    long = nops is None and r.chance(1, 30)
    if long:
        # wide OR tall, not both: the reference terminal's grid is walked on every erase
        w, h = r.pick([(80, 24), (132, 5), (255, 3), (256, 2), (300, 2), (3, 255), (2, 256), (5, 300)])
    if not r.chance(1, 8):
        lines.append("T 0 size %d %d" % (w, h))
    else:
        if long and not wild:
            # never told a size: a move, a long line, a move to where the cursor must be
            x0, y0 = r.pick([0, 0, 3]), r.below(3)
            lines.append("T 0 move %d %d" % (x0, y0))
            m0 = r.pick([76, 77, 79, 80, 81, 131, 132, 133, 255, 256])
            a0 = wf_attr(r)
            lines.append("T 0 str %d %s" % (m0, " ".join(el((5, r.rng(33, 126), 0, 0), a0) for _ in range(m0))))
            lines.append("T 0 move %d %d" % (x0 + m0, y0))
        w, h = 0, 0
    es = ElemSource(r, wild, ctl=not wild)
    cur = None
    armed = False
    n = nops if nops is not None else r.rng(2, 14)
    for _ in range(n):
        k = r.pick(kinds) if kinds else r.below(34)
        if k < 9:
            txt = es.next()
            if not wild and r.chance(1, 40) and lines and lines[-1].startswith("T 0 elem "):
                # the connection fails for one write: the element repeats the previous one's
                # rendition and character set, so its glyph is the only thing written
                prev = lines[-1].split()[3:]
                if int(prev[1]) >= 32 and int(prev[1]) != 127:
                    g = wf_glyph(r)
                    if (g[0] == 18) == (int(prev[0]) == 18):
                        g = (int(prev[0]),) + g[1:] if g[0] != 18 else g
                        e1 = el(g, tuple(int(v) for v in prev[4:]))
                        lines.append("T 0 failnext")
                        lines.append(r.pick(["T 0 elem " + e1, "T 0 str 1 " + e1, "T 0 str 2 %s %s" % (e1, e1)]))
                        if r.chance(2, 3):
                            lines.append(r.pick(["T 0 elem " + e1, "T 0 str 1 " + e1]))
                        continue
            if not wild and cur is not None and (cur[0] == 0 or r.chance(1, 6)) and r.chance(1, 4):
                # a carriage return or backspace where a position is believed known
                txt = el((5, r.pick([8, 8, 13]), 0, 0), tuple(int(v) for v in txt.split()[4:]))
            lines.append("T 0 elem " + txt)
            if cur is not None:
                b0 = int(txt.split()[1])
                # where a library that tracked these itself would believe the cursor to be
                cur = (0, cur[1]) if b0 == 13 else (cur[0] - 1, cur[1]) if b0 == 8 else cur if b0 < 32 else (cur[0] + 1, cur[1])
        elif k < 13 and not wild and r.chance(1, 8):
            # plain text streamed directly: term << "text" / term << std::string
            bs = [r.rng(32, 126) for _ in range(r.rng(0, 6))]
            if r.chance(1, 4):
                bs += [r.pick([10, 13, 9])] + [r.rng(32, 126) for _ in range(r.below(3))]
            lines.append("T 0 %s %s" % (r.pick(["cstr", "stdstr"]), hexs(bs)))
            if cur is not None:
                cur = (cur[0] + len(bs), cur[1])
        elif k < 13:
            m = r.rng(0, 5)
            if long and r.chance(1, 2):
                m = r.pick([31, 32, 33, 63, 64, 65, 127, 128, 129, 200, 340, 341, 342, 343, 700])
                if r.chance(1, 2):
                    # mostly multi-byte glyphs in one rendition: glyphs straddle every
                    # power-of-two offset of the bytes written for the string
                    a = wf_attr(r)
                    gs = []
                    for _i in range(m):
                        k3 = r.below(8)
                        cp = r.rng(0x800, 0xFFFF) if k3 < 5 else r.rng(0xA0, 0x7FF) if k3 < 7 else r.rng(0x21, 0x7E)
                        g = ((18, 0xE0 | (cp >> 12), 0x80 | ((cp >> 6) & 0x3F), 0x80 | (cp & 0x3F)) if cp >= 0x800
                             else (18, 0xC0 | (cp >> 6), 0x80 | (cp & 0x3F), 0) if cp >= 0x80 else (18, cp, 0, 0))
                        gs.append(el(g, a))
                    lines.append("T 0 str %d %s" % (m, " ".join(gs)))
                    if cur is not None:
                        cur = (cur[0] + m, cur[1])
                    continue
            lines.append("T 0 str %d" % m + "".join(" " + es.next() for _ in range(m)))
            if cur is not None:
                cur = (cur[0] + m, cur[1])
        elif k < 14 and r.chance(1, 5):
            # the user presses keys / the terminal answers a status request while the
            # application is writing: input is decoded, it is not information about
            # what the display shows
            if not armed:
                lines.append("T 0 arm")
                armed = True
            lines.append("T 0 recv " + hexs(r.pick([
                [27, 91, 49, 59, 50, 82], [27, 91] + [ord(ch) for ch in "%d;%dR" % (r.rng(1, 30), r.rng(1, 90))],
                [27, 91, 65], [27, 91, 53, 126], [27, 79, 80], [13], [97, 98], [27, 91, 77, 32, 40, 40],
                [27, 91] + [ord(ch) for ch in "8;%d;%dt" % (r.rng(1, 60), r.rng(1, 200))], [27, 91, 63, 49, 59, 50, 99], [27, 91, 48, 110]])))
        elif k < 14:
            if wild and r.chance(1, 3):
                # the bare manipulator with exactly the default element (element{})
                lines.append("T 0 raw " + DEFAULT_TXT)
                if r.chance(2, 3):
                    # ... and then something the default rendition needs nothing for
                    lines.append(r.pick(["T 0 elem " + DEFAULT_TXT, "T 0 elem " + el((5, r.rng(33, 126), 0, 0), DEFAULT_ATTR),
                                         "T 0 oda", "T 0 raw " + DEFAULT_TXT, "T 0 erase %d" % r.below(6)]))
            elif wild or any(re.match(r"T 0 (elem|str|oda|erase)", l) for l in lines[max([i for i, l in enumerate(lines) if l == "T 0 forget 0"] + [0]):]):
                lines.append("T 0 raw " + es.next())
            if not wild and w > 0 and r.chance(1, 10):
                # the connection fails for the first write of a cursor operation; the
                # application tries again
                opf = r.pick(["hide", "show", "move %d %d" % (r.below(w), r.below(h))])
                lines.append("T 0 failnext")
                lines.append("T 0 " + opf)
                lines.append("T 0 " + opf)
                if opf.startswith("move"):
                    cur = (int(opf.split()[1]), int(opf.split()[2]))
            if not wild and r.chance(1, 6):
                # a manipulator of the application's own that marks a belief as unknown
                kf = r.below(4)
                if kf == 0:
                    # "rendition unknown" still means "character set as at the start" to the
                    # library, so the application may only say so while US ASCII is in use
                    lastw = next((l for l in reversed(lines) if re.match(r"T 0 (elem|raw|str|cstr|stdstr|use) ", l)), None)
                    ok = lastw is None or lastw.split()[2] in ("cstr", "stdstr") or \
                        (lastw.split()[2] != "use" and len(lastw.split()) >= 19 and lastw.split()[-16] == "5")
                    if not ok:
                        kf = 1
                lines.append("T 0 forget %d" % kf)
                if kf == 1:
                    cur = None
            if not wild and r.chance(1, 8):
                # a manipulator object made once and streamed (again)
                if not any(l.startswith("O 8 ") for l in lines):
                    x, y = r.below(max(w, 1)), r.below(max(h, 1))
                    lines.append(r.pick(["O 8 title 6869", "O 8 move %d %d" % (x, y), "O 8 hide", "O 8 show", "O 8 mouse 1", "O 8 mouse 0", "O 8 erase"]))
                if not (lines[-1].startswith("O 8 move") and w == 0) and not (w == 0 and any(l.startswith("O 8 move") for l in lines)):
                    lines.append("T 0 use 8")
                    mv = next((l for l in lines if l.startswith("O 8 move")), None)
                    if mv:
                        cur = (int(mv.split()[3]), int(mv.split()[4]))
            if r.chance(1, 6):
                # the channel is not alive for a while (a connection that queues until
                # it is established, or one that is draining): nothing about what the
                # library sends or believes may depend on it
                lines.append("T 0 alive %d" % r.below(2))
        elif k < 15:
            lines.append("T 0 oda")
        elif k < 21:
            if w == 0 and not wild:
                if r.chance(1, 2):
                    # the application moves the cursor before it has told the library the
                    # terminal's size (outside the theorems' hypotheses; clauses 802/1301 still apply)
                    lines.append("T 0 move %d %d" % (r.pick([0, 0, 1, 12, 79]), r.pick([0, 0, 1, 30])))
                    if r.chance(1, 3):
                        lines.append("T 0 save")
                    if r.chance(1, 2):
                        w, h = r.rng(1, 9), r.rng(1, 5)
                        lines.append("T 0 size %d %d" % (w, h))
                continue
            if wild and cur is not None and cur[0] >= 0 and r.chance(1, 3):
                x, y = cur
            elif wild and r.chance(1, 3):
                x, y = r.below(15), r.below(9)
            else:
                x, y = r.below(max(w, 1)), r.below(max(h, 1))
                if cur is not None and r.chance(1, 2):
                    c = r.below(3)
                    if c == 0:
                        x = cur[0] if 0 <= cur[0] < w else x
                    elif c == 1:
                        y = cur[1] if cur[1] < h else y
                    else:
                        x, y = (cur if 0 <= cur[0] < w and cur[1] < h else (x, y))
                if r.chance(1, 4):
                    x = max(w - 1 - r.below(2), 0)
                elif r.chance(1, 6):
                    x = 0
            cur = (x, y)
            lines.append("T 0 move %d %d" % (x, y))
        elif k < 22:
            lines.append("T 0 save")
        elif k < 23:
            lines.append("T 0 restore")
        elif k < 26:
            lines.append("T 0 erase %d" % r.below(6))
        elif k < 27:
            lines.append("T 0 show")
        elif k < 28:
            lines.append("T 0 hide")
        elif k < 29:
            lines.append("T 0 mouse %d" % r.below(2))
        elif k < 30:
            lines.append("T 0 buf %d" % r.below(2))
        elif k < 31:
            t = [r.rng(0x20, 0x7E) if r.chance(3, 4) else r.rng(0xA0, 0xFF)
                 for _ in range(r.pick([63, 64, 65, 255, 256, 257, 1000]) if long else r.below(8))]
            if r.chance(1, 3):
                # a title that is UTF-8 text: every continuation byte 0x80..0xBF occurs
                t = []
                for _c in range(r.rng(1, 5)):
                    cp = r.pick([r.rng(0x80, 0x7FF), r.rng(0x800, 0xFFFF), 0xDC, 0x201C, 0x2713, 0x672C, r.rng(0x20, 0x7E)])
                    t += list(chr(cp).encode("utf-8", "surrogatepass"))
            if wild and r.chance(1, 2):
                t = [r.below(256) for _ in range(r.below(5))]
            lines.append("T 0 title " + hexs(t))
        else:
            c = r.below(6)
            if c == 0 and w:
                h = r.rng(1, 5)         # height only
            elif c == 1 and w:
                w = r.rng(1, 9)         # width only
            elif c == 2 and w:
                pass                    # the same size again
            else:
                w, h = r.rng(1, 9), r.rng(1, 5)
            lines.append("T 0 size %d %d" % (w, h))
            # cur is kept: later moves aim at where a stale belief would be
    lines.append("END")
    return lines


# ---- screens ---------------------------------------------------------------------
def gen_logview_case(r, idx):
    """a full-screen view whose content moves as a whole between frames: scrolled up
    or down by a row, shifted left or right by a column, with the vacated row or
    column filled afresh - the frames an application showing a log produces"""
    lines = ["CASE %d" % idx, "T 0 new %d" % beh_mask(r), "S 0 new 0"]
    w, h = r.rng(1, 6), r.rng(2, 5)
    lines.append("K 0 new %d %d" % (w, h))
    es = ElemSource(r, False)
    same = r.chance(1, 2)
    attr = wf_attr(r)

    def fresh():
        return el(wf_glyph(r), attr) if same else es.next()

    grid = {}
    for y in range(h):
        for x in range(w):
            grid[(x, y)] = fresh() if r.chance(5, 6) else DEFAULT_TXT
    for frame in range(r.rng(2, 6)):
        if frame > 0:
            mv = r.pick(["up", "up", "up", "down", "left", "right", "edit"])
            new = {}
            for y in range(h):
                for x in range(w):
                    sx, sy = {"up": (x, y + 1), "down": (x, y - 1), "left": (x + 1, y), "right": (x - 1, y), "edit": (x, y)}[mv]
                    if 0 <= sx < w and 0 <= sy < h:
                        new[(x, y)] = grid[(sx, sy)]
                    else:
                        new[(x, y)] = fresh() if r.chance(4, 5) else DEFAULT_TXT
            if mv == "edit" or r.chance(1, 4):
                new[(r.below(w), r.below(h))] = fresh()
            for p in sorted(new, key=lambda q: (q[1], q[0])):
                if new[p] != grid[p] or frame == 0:
                    lines.append("K 0 set %d %d %s" % (p[0], p[1], new[p]))
            grid = new
        else:
            for p in sorted(grid, key=lambda q: (q[1], q[0])):
                lines.append("K 0 set %d %d %s" % (p[0], p[1], grid[p]))
        lines.append("T 0 size %d %d" % (w, h))
        lines.append("S 0 draw 0")
    lines.append("END")
    return lines


DEFAULT_TXT = "5 32 0 0 0 9 0 0 0 9 0 0 0 0 0 0"


def gen_screen_case(r, idx, wild=False):
    if not wild and r.chance(1, 8):
        return gen_logview_case(r, idx)
    lines = ["CASE %d" % idx, "T 0 new %d" % beh_mask(r), "S 0 new 0"]
    w, h = r.rng(1, 6), r.rng(1, 4)
    if r.chance(1, 40):
        w, h = r.pick([16, 17, 32, 33, 64, 65, 80]), r.pick([1, 2, 8, 9, 16, 17, 24])
    if r.chance(1, 3):
        # the terminal has already been used
        lines.append("T 0 size %d %d" % (w, h))
        es0 = ElemSource(r, False)
        lines.append("T 0 elem " + es0.next())
    lines.append("K 0 new %d %d" % (w, h))
    es = ElemSource(r, wild)
    cellmap = {}
    holding = False
    sized = False
    for frame in range(r.rng(1, 5)):
        if r.chance(1, 4) and frame > 0:
            c = r.below(3)
            if c == 0:
                w, h = r.rng(1, 6), r.rng(1, 4)
            elif c == 1 and w * h > 1:
                # same area, different shape where possible
                w, h = h, w
            else:
                w, h = w + r.below(2), max(1, h - r.below(2))
            lines.append("K 0 resize %d %d" % (w, h))
            holding = False        # resizing invalidates iterators and references
        nset = r.pick([0, 0, 1, 1, 2, 3, w, w * h])
        if frame > 0 and r.chance(1, 6):
            # modification through the iterators rather than operator[]
            if r.chance(1, 2):
                lines.append("K 0 fill " + es.next())
            else:
                lines.append("K 0 iterset %d %s" % (r.below(w * h), es.next()))
        for _ in range(nset):
            c = r.below(6)
            if c == 0:
                x, y = w - 1, h - 1
            elif c == 1:
                x, y = w - 1, r.below(h)
            else:
                x, y = r.below(w), r.below(h)
            held = cellmap.get((x, y))
            txt = (es.next(near=held[0], near_attr=held[1]) if (held is not None and not wild and r.chance(1, 3))
                   else es.next())
            nums = tuple(int(v) for v in txt.split())
            cellmap[(x, y)] = (nums[:4], nums[4:])
            lines.append("K 0 set %d %d %s" % (x, y, txt))
        if not wild and frame > 0 and holding and r.chance(1, 2):
            # a handle taken before the previous draw is written through now
            txt = es.next()
            lines.append("K 0 heldset %d %s" % (r.below(3), txt))
        holding = False
        if not wild and r.chance(1, 6):
            lines.append("K 0 hold %d %d" % (r.below(w), r.below(h)))
            holding = True
        if not wild and frame > 0 and r.chance(1, 6):
            # input arrives between two frames (a key, a late status report)
            if not any(l == "T 0 arm" for l in lines):
                lines.append("T 0 arm")
            lines.append("T 0 recv " + r.pick(["1b5b313b3252", "1b5b323b3352", "1b5b41", "1b4f50", "61"]))
        if not wild and r.chance(1, 5):
            # the application switches a mode between two frames
            lines.append("T 0 " + r.pick(["hide", "hide", "show", "mouse 1", "mouse 0", "buf 1", "buf 0", "title 6162"]))
        lines.append("T 0 size %d %d" % (w, h))
        lines.append("S 0 draw 0")
        if r.chance(1, 3):
            lines.append("S 0 draw 0")
    lines.append("END")
    return lines


# ---- canvases ---------------------------------------------------------------------
def gen_canvas_case(r, idx, exhaustive=None):
    lines = ["CASE %d" % idx]
    if exhaustive is not None:
        (w, h, w2, h2) = exhaustive
    else:
        w, h = r.below(7), r.below(6)
        w2, h2 = r.below(8), r.below(7)
        if r.chance(1, 40):
            w, h = r.pick([16, 17, 32, 33, 64, 65]), r.pick([1, 2, 16, 17])
            w2, h2 = r.pick([w, 15, 16, 33, 64, 70]), r.pick([h, 1, 3, 16, 18])
        if idx % 700 == 3:
            # a large canvas (a full-screen application on a big display) reshaped within
            # its capacity: narrower and taller, wider and shorter
            w, h = r.pick([(200, 50), (128, 64), (91, 91), (256, 33)])
            w2, h2 = r.pick([(w - 40, h + 10), (w + 20, h - 10), (w - 1, h + 1), (h, w)])
    lines.append("K 0 new %d %d" % (w, h))
    n = 0
    for y in range(h):
        for x in range(w):
            n += 1
            g = (5, 0x21 + (n % 90), 0, 0)
            a = (3, n % 256, x, y) + DEFAULT_ATTR[4:]
            lines.append("K 0 set %d %d %s" % (x, y, el(g, a)))
    lines.append("K 0 dump")
    if w > 0 and h > 0:
        x0, y0 = r.below(w), r.below(h)
        lines.append("K 0 region %d %d %d %d" % (x0, y0, r.rng(0, w - x0), r.rng(0, h - y0)))
        lines.append("K 0 get %d %d" % (r.below(w), r.below(h)))
    lines.append("K 0 resize %d %d" % (w2, h2))
    lines.append("K 0 dump")
    if r.chance(1, 2):
        w3, h3 = r.below(8), r.below(7)
        lines.append("K 0 resize %d %d" % (w3, h3))
        lines.append("K 0 dump")
        w2, h2 = w3, h3
    if w2 > 0 and h2 > 0:
        lines.append("K 0 region 0 0 %d %d" % (w2, h2))
    lines.append("END")
    return lines


# ---- value comparisons -----------------------------------------------------------------
def gen_value_case(r, idx):
    lines = ["CASE %d" % idx]

    def near(x, lo, hi):
        return min(hi, max(lo, x + r.pick([-1, 0, 0, 1])))

    for _ in range(6):
        k = r.below(13)
        if k == 12:
            # a glyph made from a pointer into text: a character, then whatever follows it
            g = wf_glyph(r)
            while g[0] != 18:
                g = wf_glyph(r)
            ch = [b for b in g[1:] if b] or [g[1]]
            if g[1] < 0x80:
                ch = [g[1]]
            rest = r.pick([[], [0x31], [0x41, 0x42], [0xC3, 0xA9], [0xE2, 0x82, 0xAC], [0xA9], [0xBF, 0xBF], [0x7F], [0x20]])
            lines.append("V gptr " + hexs([b for b in ch if b] + [b for b in rest]))
            continue
        if k == 0:
            a = wild_glyph(r)
            b = a if r.chance(1, 3) else (a[0], a[1], r.below(256), r.below(256)) if r.chance(1, 2) else wild_glyph(r)
            lines.append("V glyph %s %s" % (" ".join(map(str, a)), " ".join(map(str, b))))
        elif k == 1:
            a = r.below(19)
            lines.append("V cs %d %d" % (a, near(a, 0, 18)))
        elif k == 2:
            a = wild_colour(r)
            b = a if r.chance(1, 3) else wild_colour(r)
            if r.chance(1, 3):
                # the same stored number under another kind of colour (black / raw index 0 /
                # raw shade 0, ...), and neighbours across the kinds' ranges
                v = r.pick([0, 0, 1, 7, 8, 9, 15, 16, 231, 232, 255, a[1]])
                a = (r.below(3), v, 0, 0)
                b = (r.pick([x for x in (0, 1, 2, 3) if x != a[0]]), r.pick([v, v, near(v, 0, 255)]), 0, 0)
                if b[0] == 3:
                    b = (3, v, r.pick([0, v]), r.pick([0, v]))
            lines.append("V colour %s %s" % (" ".join(map(str, a)), " ".join(map(str, b))))
        elif k == 3:
            a = wild_attr(r)
            b = a if r.chance(1, 4) else mutate_attr(r, a)
            lines.append("V attr %s %s" % (" ".join(map(str, a)), " ".join(map(str, b))))
        elif k == 4:
            g, a = wild_glyph(r), wild_attr(r)
            g2 = g if r.chance(1, 2) else (g[0], g[1], r.below(256), r.below(256))
            a2 = a if r.chance(1, 2) else mutate_attr(r, a)
            lines.append("V elem %s %s" % (el(g, a), el(g2, a2)))
        elif k == 5:
            n = r.below(4)
            s = [el(wild_glyph(r), wild_attr(r)) for _ in range(n)]
            c = r.below(4)
            if c == 0:
                s2 = list(s)
            elif c == 1:
                s2 = s[: r.below(n + 1)]
            elif c == 2:
                s2 = s + [el(wild_glyph(r), wild_attr(r))]
            else:
                s2 = [el(wild_glyph(r), wild_attr(r)) for _ in range(r.below(4))]
            lines.append("V str %d %s %d %s" % (len(s), " ".join(s), len(s2), " ".join(s2)))
        elif k in (6, 7):
            ty = "point" if k == 6 else "extent"
            x, y = r.rng(-3, 3), r.rng(-3, 3)
            lines.append("V %s %d %d %d %d" % (ty, x, y, near(x, -3, 3), near(y, -3, 3)))
        elif k == 8:
            v = [r.rng(-2, 2) for _ in range(4)]
            v2 = [near(x, -2, 2) for x in v]
            lines.append("V rect %s %s" % (" ".join(map(str, v)), " ".join(map(str, v2))))
        elif k == 9:
            def cs():
                n = r.below(3)
                return "%d %d %d %d %d%s" % (r.pick([91, 79, 80]), r.pick([65, 66, 126]), r.below(2), r.pick([0, 63]), n,
                                             "".join(" " + hexs([r.rng(48, 57) for _ in range(r.below(3))]) for _ in range(n)))
            a = cs()
            lines.append("V cseq %s %s" % (a, a if r.chance(1, 3) else cs()))
        elif k == 10:
            def vk():
                if r.chance(1, 2):
                    return "%d %d %d B %d" % (r.pick([65, 66, 128]), r.below(3), r.rng(0, 2), r.pick([65, 66]))
                return "%d %d %d C 91 %d %d 0 1 %s" % (r.pick([128, 129]), r.below(3), r.rng(0, 2), r.pick([65, 66]), r.below(2), hexs([r.rng(48, 50)]))
            a = vk()
            lines.append("V vk %s %s" % (a, a if r.chance(1, 3) else vk()))
        else:
            a = (r.below(7), r.rng(-1, 2), r.rng(-1, 2))
            b = (near(a[0], 0, 6), near(a[1], -1, 2), near(a[2], -1, 2))
            lines.append("V mouse %d %d %d %d %d %d" % (a + b))
    lines.append("END")
    return lines


# ---- input items (Proto.v) ---------------------------------------------------------
CSI_KEYS = [65, 66, 67, 68, 72, 70, 73, 90]
SS3_KEYS = [65, 66, 67, 68, 72, 70, 73, 77, 80, 81, 82, 83]
KEYPAD = [1, 2, 3, 4, 5, 6, 11, 12, 13, 14, 15, 17, 18, 19, 20, 21, 23, 24]
BUTTONS = [0, 1, 2, 3, 32, 64, 65]
OTHER_FINALS = [f for f in range(64, 127) if f not in CSI_KEYS + [77, 126]]


def gen_item(r, allow_high=True):
    """-> (text, first byte) of one well-formed item"""
    k = r.below(16)
    if k < 4:
        while True:
            b = r.pick([r.rng(32, 126), r.rng(32, 126), r.below(32), r.rng(127, 255) if allow_high else r.rng(32, 126)])
            if b not in (27, 13, 10, 155, 143) and (allow_high or b < 128):
                return "IT char %d" % b, b
    if k < 6:
        f = r.below(5)
        return "IT enter %d" % f, (13 if f in (0, 1, 3) else 10)
    intro = r.below(3)
    first = 155 if intro == 2 else 27
    if k < 9:
        rep = r.pick([-1, -1, 1, 0, 2, 7, 35, 1000, 2147483647, r.below(1 << 31)])
        mod = r.pick([-1, -1, -1] + list(range(1, 17)))
        return "IT csikey %d %d %d %d" % (intro, r.pick(CSI_KEYS), rep, mod), first
    if k < 11:
        mod = r.pick([-1, -1] + list(range(1, 17)))
        return "IT keypad %d %d %d" % (intro, r.pick(KEYPAD), mod), first
    if k < 12:
        return "IT ss3 %d %d" % (intro, r.pick(SS3_KEYS)), (143 if intro == 2 else 27)
    if k < 14:
        n = r.pick([0, 0, 1, 1, 2, 3, 5])
        ps = [r.pick([0, 1, 5, 25, 47, 1000, 1049, r.below(1 << 31)]) for _ in range(n)]
        return "IT other %d %d %d %d%s" % (intro, r.pick([0, 0, 63, 62, 33]), r.pick(OTHER_FINALS), n,
                                          "".join(" %d" % p for p in ps)), first
    return "IT mouse %d %d %d %d" % (intro, r.pick(BUTTONS), r.rng(1, 223), r.rng(1, 223)), first


def gen_items(r, n, allow_high=True, prev_bare=None):
    """n well-formed items respecting the CR/LF adjacency rule; prev_bare is the
    bare CR/LF (13/10) the previous delivery ended with, if any"""
    out = []
    while len(out) < n:
        if n - len(out) >= 3 and r.chance(1, 6):
            # a history aimed at state carried between items: a bare CR or LF,
            # printable text, then Enter (or Ctrl-@) in another spelling
            f = r.pick([3, 4])
            if (prev_bare == 13 and f == 4) or (prev_bare == 10 and f == 3):
                continue
            out.append("IT enter %d" % f)
            blk = r.rng(1, min(3, n - len(out) - 1)) if r.chance(2, 3) else r.pick([15, 16, 17, 31, 32, 33, 64])
            for _ in range(blk):
                out.append("IT char %d" % r.rng(32, 126))
            out.append(r.pick(["IT enter %d" % (4 if f == 3 else 3), "IT enter %d" % r.below(5), "IT char 0", "IT enter 4", "IT enter 3"]))
            prev_bare = last_bare(out)
            continue
        txt, first = gen_item(r, allow_high)
        if prev_bare == 13 and first in (10, 0):
            continue
        if prev_bare == 10 and first == 13:
            continue
        out.append(txt)
        prev_bare = 13 if txt == "IT enter 3" else 10 if txt == "IT enter 4" else None
    return out


def last_bare(items):
    return 13 if items and items[-1] == "IT enter 3" else 10 if items and items[-1] == "IT enter 4" else None


def gen_items_case(r, idx):
    lines = ["CASE %d" % idx, "T 0 new %d" % beh_mask(r), "T 0 arm"]
    pb = None
    if r.chance(1, 8):
        # a complete sequence the protocol gives no meaning to (a mode report, a paste
        # bracket, ...) arrives first: the decoder is at rest after it
        n0 = r.pick([200, 201, 27, 0, 7, 99, 1000, 2004])
        lines.append("T 0 recv " + hexs([27, 91] + [ord(c) for c in "%d%s" % (n0, r.pick(["~", "~", ";1~", "u", "t"]))]))
    long = r.chance(1, 25)
    for _ in range(r.rng(1, 3)):
        its = gen_items(r, r.pick([31, 32, 33, 64, 65, 130]) if long else r.rng(1, 8), prev_bare=pb)
        pb = last_bare(its)
        if not long and (r.chance(1, 4) or idx % 1500 == 7):
            # the items arrive cut across two reads, and the application uses the
            # terminal for something else in between
            between = "sleep_1200" if idx % 1500 == 7 else r.pick(["-", "-", "size_%d_%d" % (r.rng(1, 9), r.rng(1, 5)), "size_80_24", "mouse_0", "mouse_1", "hide", "show",
                              "erase_0", "move_0_0", "save", "restore", "buf_1", "buf_0", "title_6162", "alive_0", "alive_1",
                              "elem_" + el(wf_glyph(r), wf_attr(r)).replace(" ", "_")])
            cut = r.below(64)
            if between.startswith("sleep"):
                its = ["IT csikey 0 %d -1 -1" % r.pick(CSI_KEYS)] + its
                cut = r.pick([1, 1, 2])
            lines.append("T 0 itemsplit %d %s %s" % (cut, between, " ".join(its)))
        else:
            lines.append("T 0 items " + " ".join(its))
    lines.append("END")
    return lines


BYTE_CLASSES = [27, 27, 27, 91, 91, 79, 77, 126, 59, 59, 63, 62, 33, 13, 10, 0, 155, 143, 48, 49, 57, 65, 66, 80, 90, 104, 32, 33, 97, 200, 255, 128, 150]


def wild_bytes(r, n):
    return [r.pick(BYTE_CLASSES) if r.chance(4, 5) else r.below(256) for _ in range(n)]


def frag_bytes(r):
    """one control-sequence-shaped fragment: an introducer, perhaps a private
    marker, parameters, and one of the ways a sequence can end (a final byte,
    a mouse report, a cut-off report, an interrupting ESC, nothing).  Aimed at
    state a parser might carry from one sequence into the next."""
    out = list(r.pick([[27, 91], [27, 91], [27, 27, 91], [155], [27, 79], [143], [27, 63], [27, 80]]))
    if r.chance(1, 4):
        out.append(r.pick([63, 62, 33, 61, 60, 60]))
    for _ in range(r.pick([0, 1, 1, 2, 3, 3, 4, 5, 8, 16, 17, 33])):
        out += [ord(c) for c in str(r.pick([0, 1, 2, 5, 6, 11, 15, 24, 35, 200, r.below(100)]))]
        if r.chance(1, 2):
            out.append(59)
    k = r.below(8)
    if k < 2:
        out.append(r.pick([65, 66, 67, 68, 70, 72, 80, 90, 104, 108, 109, 109, 77, 82, 116]))
    elif k == 2:
        out.append(126)
    elif k < 5:
        out += [77, 32 + r.below(100), 33 + r.below(200), 33 + r.below(200)]
    elif k == 5:
        out += [77] + [33 + r.below(90) for _ in range(r.below(3))]
    elif k == 6:
        out.append(27)
    return out


def partition(r, bs, mode):
    """split a byte list into deliveries"""
    if mode == 0:
        return [bs]
    if mode == 1:
        return [[b] for b in bs]
    out, i = [], 0
    while i < len(bs):
        if r.chance(1, 6):
            out.append([])
        k = r.rng(1, 4)
        out.append(bs[i:i + k])
        i += k
    if r.chance(1, 3):
        out.append([])
    return out


def gen_chunks_case(r, idx, item_stream=None):
    """the same byte stream delivered to several terminals under different
    partitions; the stream is random bytes aimed at the parser's classes"""
    lines = ["CASE %d" % idx]
    long = r.chance(1, 6)
    if long:
        # a long stream (a paste, key repeat, mouse drag): many tokens in one delivery
        bs = []
        piece = r.pick([0, 1, 2, 3, 4, 5, 5, 5])
        for _ in range(r.pick([15, 16, 17, 31, 32, 33, 40, 63, 64, 65, 100, 128, 129, 257])):
            k = piece if piece < 5 else r.below(5)
            if k == 0:
                bs += [r.rng(32, 126)]
            elif k == 1:
                bs += [27, 91, r.pick([65, 66, 67, 68])]
            elif k == 2:
                bs += [27, 91, 77, 32 + r.below(4), r.rng(33, 100), r.rng(33, 100)]
            elif k == 3:
                bs += [27, 91] + [ord(c) for c in "%d;%d~" % (r.pick(KEYPAD), r.rng(1, 8))]
            else:
                bs += r.pick([[13, 10], [13], [10], [27, 79, 80], [9], [127]])
    elif r.chance(1, 3):
        bs = []
        for _ in range(r.rng(2, 4)):
            bs += frag_bytes(r) if r.chance(3, 4) else wild_bytes(r, r.rng(1, 4))
    else:
        bs = wild_bytes(r, r.rng(1, 24))
    bm = beh_mask(r) if r.chance(1, 2) else 0
    for tid in range(4):
        lines.append("T %d new %d" % (tid, bm))
        lines.append("T %d %s" % (tid, "arm2" if tid == 3 and r.chance(1, 2) else "arm"))
    for tid in range(4):
        if tid == 3 and r.chance(1, 3) and len(bs) > 1:
            # everything arrives while the client is busy: the channel hands the
            # deliveries over one after another as the client re-arms
            parts = partition(r, bs, 2)
            lines.append("T 3 recvq %d %s" % (len(parts), " ".join(hexs(c) for c in parts)))
            continue
        if long and tid >= 2:
            k = r.pick([2, 3, 5, 7, 16, 31, 32, 33, 64, 100, 200])
            chunks = [bs[i:i + k] for i in range(0, len(bs), k)]
        else:
            chunks = partition(r, bs, tid if tid < 2 else 2)
        busy = r.chance(1, 4)
        for chunk in chunks:
            lines.append("T %d recv %s" % (tid, hexs(chunk)))
            if busy and r.chance(1, 3):
                # the application uses the terminal for output between two
                # deliveries (a resize after a size report, a redraw, ...)
                lines.append("T %d %s" % (tid, r.pick([
                    "size %d %d" % (r.rng(1, 9), r.rng(1, 5)), "size 80 24", "move 0 0", "erase 0", "hide", "show",
                    "elem " + el(wf_glyph(r), wf_attr(r)), "save", "restore", "mouse 1", "mouse 0", "buf 1", "buf 0", "title 6869",
                    "alive 0", "alive 1"])))
    lines.append("END")
    return lines


def gen_garbage_case(r, idx):
    """arbitrary bytes, then four letters, then well-formed items whose
    decoding must be the fresh-terminal one"""
    lines = ["CASE %d" % idx, "T 0 new 0", "T 0 arm"]
    if r.chance(1, 2):
        g = []
        for _ in range(r.rng(1, 3)):
            g += frag_bytes(r)
            if r.chance(1, 3):
                g += wild_bytes(r, r.rng(1, 3))
    else:
        g = wild_bytes(r, r.rng(0, 30))
    if r.chance(1, 6):
        # the garbage is nothing but half of a line ending
        g = r.pick([[13], [10], [27], [13, 0], [27, 91], [27, 79]])
    lines.append("T 0 recv " + hexs(g))
    letters = [r.pick(list(range(65, 91)) + list(range(97, 123))) for _ in range(r.pick([4, 4, 4, 4, 5, 15, 16, 17, 32, 33, 64, 200]))]
    lines.append("T 0 recv " + hexs(letters))
    its = gen_items(r, r.rng(1, 5))
    if r.chance(1, 3):
        its = [r.pick(["IT enter 4", "IT enter 3", "IT char 0", "IT enter 0", "IT enter 2"])] + its
        if not (len(its) > 1 and ((its[0] == "IT enter 3" and its[1] in ("IT enter 4", "IT char 0", "IT enter 2"))
                                  or (its[0] == "IT enter 4" and its[1].startswith("IT enter") and its[1] != "IT enter 4"))):
            pass
        else:
            its = its[:1]
    lines.append("T 0 items " + " ".join(its))
    lines.append("END")
    return lines


# ---- markup --------------------------------------------------------------------------------
def gen_markup_wild_case(r, idx):
    lines = ["CASE %d" % idx]
    alpha = [92, 92, 92, 67, 99, 105, 112, 117, 91, 60, 123, 40, 93, 62, 125, 41, 85, 120, 37,
             48, 49, 50, 53, 57, 65, 70, 97, 102, 43, 45, 32, 0, 128, 200, 255]
    for _ in range(3):
        n = r.rng(0, 16)
        bs = [r.pick(alpha) if r.chance(5, 6) else r.below(256) for _ in range(n)]
        lines.append("M encode " + hexs(bs))
    bs = [r.pick(alpha) for _ in range(r.rng(0, 8))]
    lines.append("M ete " + hexs(bs))
    lines.append("END")
    return lines


# ---- canonical markup (C10) ------------------------------------------------------------------
DESIGNATOR = {0: [48], 1: [60], 2: [37, 53], 3: [62], 4: [65], 5: [66], 6: [52], 7: [67], 8: [82], 9: [81],
              10: [75], 11: [89], 12: [96], 13: [37, 54], 14: [90], 15: [72], 16: [61], 17: [85]}
ALIASES = {7: [53], 8: [102], 9: [57], 12: [69], 15: [55]}
HEXU = "0123456789ABCDEF"
HEXL = "0123456789abcdef"


def x_colour(r):
    k = r.below(8)
    if k < 3:
        return ("low", r.below(10))
    if k < 5:
        return ("high", r.below(6), r.below(6), r.below(6))
    if k < 6:
        return ("grey", r.below(24))
    return ("true", r.below(256), r.below(256), r.below(256))


def x_colour_elem(c):
    if c[0] == "low":
        return (0, c[1], 0, 0)
    if c[0] == "high":
        return (1, 16 + 36 * c[1] + 6 * c[2] + c[3], 0, 0)
    if c[0] == "grey":
        return (2, 232 + c[1], 0, 0)
    return (3, c[1], c[2], c[3])


def x_colour_markup(c, fg, r, respell):
    intro = {"low": "[]", "high": "<>", "grey": "{}", "true": "()"}[c[0]][0 if fg else 1]
    out = [92, ord(intro)]
    if c[0] == "low":
        out += [48 + c[1]]
    elif c[0] == "high":
        out += [48 + c[1], 48 + c[2], 48 + c[3]]
    elif c[0] == "grey":
        out += [48 + c[1] // 10, 48 + c[1] % 10]
    else:
        hx = HEXL if (respell and r.chance(1, 2)) else HEXU
        for v in c[1:]:
            out += [ord(hx[v >> 4]), ord(hx[v & 15])]
    return out


def utf8_of(v):
    if v <= 0x7F:
        return (v, 0, 0)
    if v <= 0x7FF:
        return (0xC0 | (v >> 6), 0x80 | (v & 0x3F), 0)
    return (0xE0 | (v >> 12), 0x80 | ((v >> 6) & 0x3F), 0x80 | (v & 0x3F))


def gen_markup_case(r, idx, respell=False):
    """a string of expressible elements, its canonical markup (directives only
    for what differs from the previous element), and the elements expected"""
    lines = ["CASE %d" % idx]
    n = r.pick([31, 32, 33, 64, 65, 127, 128, 129, 300]) if r.chance(1, 30) else r.rng(0, 7)
    markup, expect = [], []
    cs, fg, bg, inten, ul, neg = 5, ("low", 9), ("low", 9), 0, 0, 0
    prev_utf8 = False
    run = 0
    pending_run = 0
    lead = 0
    in_run = False
    total = 0
    while total < n or run > 0 or pending_run > 0:
        total += 1
        # what the element shall be
        in_run = False
        if run == 0 and pending_run == 0 and total > 1 and r.chance(1, 8):
            # a run of plain text: many characters with no directive at all between
            # them, often right after a \U glyph or a character-set change
            pending_run = r.pick([15, 16, 17, 31, 32, 33, 40])
            lead = r.below(3)
        elif pending_run:
            run, pending_run, lead = pending_run, 0, 0
        if run > 0:
            run -= 1
            in_run = True
            ncs, uni = (5 if prev_utf8 else cs), False
            nfg, nbg, nint, nul, nneg = fg, bg, inten, ul, neg
        elif pending_run and lead:
            # the element the run follows
            ncs = r.below(18) if lead == 2 else cs
            uni = lead == 1
            nfg, nbg, nint, nul, nneg = fg, bg, inten, ul, neg
        else:
            ncs = r.below(18) if r.chance(1, 3) else cs
            uni = r.chance(1, 5)
            nfg = x_colour(r) if r.chance(1, 3) else fg
            nbg = x_colour(r) if r.chance(1, 4) else bg
            nint = r.below(3) if r.chance(1, 3) else inten
            nul = r.below(2) if r.chance(1, 4) else ul
            nneg = r.below(2) if r.chance(1, 4) else neg
        if not in_run and not pending_run and r.chance(1, 12):
            # the reset directive
            markup += [92, 120]
            fg, bg, inten, ul, neg = ("low", 9), ("low", 9), 0, 0, 0
            nfg, nbg, nint, nul, nneg = fg, bg, inten, ul, neg
        base_cs = 5 if prev_utf8 else cs
        if not uni and (ncs != base_cs or (respell and r.chance(1, 6))):
            d = DESIGNATOR[ncs]
            if respell and ncs in ALIASES and r.chance(1, 2):
                d = ALIASES[ncs]
            markup += [92, 99] + d
        if nint != inten or (respell and r.chance(1, 8)):
            markup += [92, 105, {0: 61, 1: 62, 2: 60}[nint]]
        if nneg != neg or (respell and r.chance(1, 8)):
            markup += [92, 112, 45 if nneg else 43]
        if nul != ul or (respell and r.chance(1, 8)):
            markup += [92, 117, 43 if nul else 45]
        mfg = x_colour_markup(nfg, True, r, respell) if (nfg != fg or (respell and r.chance(1, 8))) else []
        mbg = x_colour_markup(nbg, False, r, respell) if (nbg != bg or (respell and r.chance(1, 8))) else []
        if respell and r.chance(1, 2):
            markup += mbg + mfg      # the order of directives is immaterial
        else:
            markup += mfg + mbg
        fg, bg, inten, ul, neg = nfg, nbg, nint, nul, nneg
        attr = x_colour_elem(fg) + x_colour_elem(bg) + (inten, ul, neg, 0)
        if uni:
            v = r.pick([r.below(0x80), r.rng(0x80, 0x7FF), r.rng(0x800, 0xFFFF), 0, 0x7F, 0xFFFF])
            hx = HEXL if (respell and r.chance(1, 2)) else HEXU
            markup += [92, 85] + [ord(hx[(v >> s) & 15]) for s in (12, 8, 4, 0)]
            expect.append(el((18,) + utf8_of(v), attr))
            prev_utf8 = True
            cs = cs  # the charset directive state is reset to us_ascii by the decoder
            cs = 5
        else:
            b = r.pick([r.rng(32, 126), r.below(256), 92, r.rng(32, 126), 0 if r.chance(1, 3) else r.rng(32, 126)])
            if in_run:
                b = r.pick([x for x in range(32, 127) if x != 92])
            if b == 92:
                markup += [92, 92]
            elif respell and r.chance(1, 4):
                markup += [92, 67, 48 + b // 100, 48 + (b // 10) % 10, 48 + b % 10]
            else:
                markup += [b]
            expect.append(el((ncs if not uni else 5, b, 0, 0), attr))
            prev_utf8 = False
            cs = ncs
    lines.append("# WANT %d" % len(expect))
    for e in expect:
        lines.append("# WANTE " + e)
    lines.append("M encode " + hexs(markup))
    lines.append("M ets " + hexs(markup))
    if len(markup) <= 31:
        lines.append("M encodearr " + hexs(markup))
    lines.append("END")
    return lines


def gen_plain_case(r, idx):
    """text without backslashes decodes to itself with default attributes"""
    lines = ["CASE %d" % idx]
    bs = [b for b in (r.below(256) for _ in range(r.rng(0, 12))) if b != 92]
    lines.append("# WANT %d" % len(bs))
    for b in bs:
        lines.append("# WANTE " + el((5, b, 0, 0), DEFAULT_ATTR))
    lines.append("M encode " + hexs(bs))
    lines.append("END")
    return lines


def gen_keyseq_case(r, idx):
    """key-shaped control sequences whose numbers sit on the boundaries of the
    conversion to int and of the key tables"""
    lines = ["CASE %d" % idx, "T 0 new 0", "T 0 arm"]
    for _ in range(r.rng(1, 4)):
        base = r.pick(KEYPAD + list(range(0, 30)))
        n = r.pick([base, base, base + 256, base + 512, base + 65536, base + (1 << 32), base + (1 << 31),
                    (1 << 31) - 1, (1 << 31), (1 << 63) - 1, (1 << 64) + base, r.below(100000)])
        intro = r.pick([[27, 91], [27, 27, 91], [155]])
        def num(v):
            # parameters may be written with leading zeros (ECMA-48 5.4.1)
            z = r.pick([0, 0, 0, 1, 2, 9, 10, 16, 17, 18, 19, 20, 40, 62, 63, 64, 65, 127, 128, 300]) if r.chance(1, 4) else 0
            return b"0" * z + str(v).encode()
        if r.chance(1, 6):
            # three parameters (xterm's modifyOtherKeys form and its neighbours)
            body = num(r.pick([27, 27, 1, 5, 28])) + b";" + num(r.rng(1, 16)) + b";" + num(r.pick([r.rng(128, 150), r.rng(32, 126), 13, 9, 127])) + b"~"
        elif r.chance(1, 2):
            m = r.pick([-1, 1, 2, 5, 16, 17, 258, (1 << 32) + 2])
            body = num(n) + (b";" + num(m) if m >= 0 else b"") + b"~"
        else:
            m = r.pick([-1, 2, 6, 262, (1 << 32) + 2])
            body = num(n) + (b";" + num(m) if m >= 0 else b"") + bytes([r.pick(CSI_KEYS)])
        pre = b""
        if r.chance(1, 3):
            # a truncated sequence (digits / separator already received) right before it
            pre = bytes(r.pick([[27, 91], [155], [27, 79]])) + str(r.below(30)).encode() + (b";" if r.chance(1, 2) else b"")
        elif r.chance(1, 2):
            pre = bytes(frag_bytes(r))
        lines.append("T 0 recv " + hexs(list(pre + bytes(intro) + body)))
    lines.append("END")
    return lines


def gen_strings_case(r, idx):
    """byte strings (NUL and high bytes included) through every text-taking
    constructor, to_string, and concatenation"""
    lines = ["CASE %d" % idx]

    def rb(n):
        if r.chance(1, 30):
            n = r.pick([15, 16, 17, 22, 23, 24, 31, 32, 33, 255, 256, 257, 1000])   # SSO and buffer boundaries
        return [r.pick([0, 0, 92, 27, 128, 255, r.below(256), r.rng(32, 126)]) for _ in range(n)]
    for _ in range(4):
        k = r.below(5)
        if k == 0:
            lines.append("M ofbytes " + hexs(rb(r.rng(0, 12))))
        elif k == 1:
            lines.append("M ofstd " + hexs(rb(r.rng(0, 12))))
        elif k == 2:
            lines.append("M ofstdattr %s %s" % (hexs(rb(r.rng(0, 12))), " ".join(map(str, wf_attr(r)))))
        elif k == 3:
            a = [el(wild_glyph(r) if r.chance(1, 3) else wf_glyph(r), wf_attr(r)) for _ in range(r.below(4))]
            b = [el(wf_glyph(r), wf_attr(r)) for _ in range(r.below(4))]
            lines.append("M concat %d %s %d %s" % (len(a), " ".join(a), len(b), " ".join(b)))
        else:
            a = [el(wf_glyph(r), wf_attr(r)) for _ in range(r.below(6))]
            lines.append("M tostring %d %s" % (len(a), " ".join(a)))
    lines.append("END")
    return lines


def gen_strobj_case(r, idx):
    """objects of the attributed string class: every constructor, then appends,
    inserts, erases, overwrites and swaps; each string is dumped after every
    change"""
    lines = ["CASE %d" % idx]
    size = {}

    def rb(n):
        return [r.pick([0, 92, 27, 128, 255, r.below(256), r.rng(32, 126), r.rng(32, 126)]) for _ in range(n)]

    def an_elem():
        return el(wild_glyph(r) if r.chance(1, 6) else wf_glyph(r), wf_attr(r))

    k = 0
    for _ in range(r.rng(3, 12)):
        ids = sorted(size)
        c = r.below(18)
        if c < 5 or not ids:
            if len(size) >= 3:
                continue
            kind = r.below(7)
            if kind == 0:
                b = rb(r.rng(0, 8)); lines.append("Z %d ofbytes %s" % (k, hexs(b))); size[k] = len(b)
            elif kind == 1:
                b = rb(r.pick([0, 1, 5, 15, 16, 17, 40])); lines.append("Z %d ofstd %s" % (k, hexs(b))); size[k] = len(b)
            elif kind == 2:
                b = rb(r.rng(0, 8)); lines.append("Z %d ofstdattr %s %s" % (k, hexs(b), " ".join(map(str, wf_attr(r))))); size[k] = len(b)
            elif kind == 3:
                b = rb(r.rng(0, 8)); lines.append("Z %d cstr %s" % (k, hexs(b)))
                size[k] = b.index(0) if 0 in b else len(b)
            elif kind == 4:
                n = r.pick([0, 1, 2, 7, 33]); lines.append("Z %d fill %d %s" % (k, n, an_elem())); size[k] = n
            elif kind == 5:
                n = r.below(5); lines.append("Z %d range %d%s" % (k, n, "".join(" " + an_elem() for _ in range(n)))); size[k] = n
            else:
                n = r.below(4); lines.append("Z %d ilist %d%s" % (k, n, "".join(" " + an_elem() for _ in range(n)))); size[k] = n
            t = k
            k += 1
        else:
            t = r.pick(ids)
            n = size[t]
            if c == 5 and n > 0 and r.chance(1, 3):
                lines.append("Z %d appendown %d" % (t, r.pick([0, n - 1, r.below(n)]))); size[t] += 1
            elif c == 5:
                lines.append("Z %d appendelem %s" % (t, an_elem())); size[t] += 1
            elif c == 6:
                o = r.pick(ids); lines.append("Z %d append %d" % (t, o)); size[t] += size[o]
            elif c == 7 and k < 3:
                a, b = r.pick(ids), r.pick(ids); lines.append("Z %d plus %d %d" % (k, a, b)); size[k] = size[a] + size[b]; t = k; k += 1
            elif c == 8 and k < 3:
                a = r.pick(ids); lines.append("Z %d pluselem %d %s" % (k, a, an_elem())); size[k] = size[a] + 1; t = k; k += 1
            elif c == 9:
                lines.append("Z %d insert %d %s" % (t, r.pick([0, n, r.below(n + 1)]), an_elem())); size[t] += 1
            elif c == 10 and r.chance(1, 3):
                b = rb(r.rng(0, 6)); lines.append("Z %d insertstream %d %s" % (t, r.pick([0, n, r.below(n + 1)]), hexs(b))); size[t] += len(b)
            elif c == 10:
                o = r.pick(ids); lines.append("Z %d insertrange %d %d" % (t, r.pick([0, n, r.below(n + 1)]), o)); size[t] += size[o]
            elif c == 11 and r.chance(1, 3):
                lines.append("Z %d erase" % t); size[t] = 0
            elif c == 12:
                pos = r.pick([0, n, r.below(n + 1)]); lines.append("Z %d erasefrom %d" % (t, pos)); size[t] = pos
            elif c == 13:
                a = r.below(n + 1); b = r.rng(a, n); lines.append("Z %d eraserange %d %d" % (t, a, b)); size[t] = n - (b - a)
            elif c == 14 and n > 0:
                lines.append("Z %d setat %d %s" % (t, r.pick([0, n - 1, r.below(n)]), an_elem()))
            elif c == 15:
                o = r.pick(ids); lines.append("Z %d swap %d" % (t, o)); size[t], size[o] = size[o], size[t]
            elif c == 16 and k < 3:
                lines.append("Z %d copy %d" % (k, t)); size[k] = size[t]; t = k; k += 1
            elif c == 17 and r.chance(1, 2):
                o = r.pick(ids); lines.append("Z %d assign %d" % (t, o)); size[t] = size[o]
            elif c == 17 and k < 6:
                lines.append("Z %d move %d" % (k, t)); size[k] = size[t]; del size[t]; t = k; k += 1
            else:
                continue
        for i in sorted(size):
            lines.append("Z %d dump" % i)
            if r.chance(1, 3):
                lines.append("Z %d mdump" % i)
        if size and r.chance(1, 4):
            # a reference / an iterator taken, the string observed, then written through
            t2 = r.pick(sorted(size))
            if size[t2] > 0:
                lines.append("Z %d hold %d" % (t2, r.below(size[t2])))
                lines.append("Z %d dump" % t2)
                lines.append("Z %d heldset %d %s" % (t2, r.below(2), an_elem()))
                for i in sorted(size):
                    lines.append("Z %d dump" % i)
    lines.append("END")
    return lines


def gen_shared_manip_case(r, idx):
    """manipulator objects made once and streamed to several terminals whose declared
    behaviours differ (one title object for every connection, one cursor-home object, ...)"""
    lines = ["CASE %d" % idx]
    nt = r.rng(2, 3)
    masks = [beh_mask(r)]
    for j in range(1, nt):
        masks.append(masks[0] ^ (1 << r.pick([7, 8, 9, 9, 10, 10, 11])) if r.chance(2, 3) else r.below(128) | (r.below(32) << 7))
    for j in range(nt):
        lines.append("T %d new %d" % (j, masks[j]))
        lines.append("T %d size %d %d" % (j, r.rng(2, 9), r.rng(2, 5)))
    objs = []
    for o in range(r.rng(1, 3)):
        t = [r.rng(0x20, 0x7E) for _ in range(r.below(6))]
        objs.append(o)
        lines.append("O %d %s" % (o, r.pick(["title " + hexs(t), "title " + hexs(t), "move %d %d" % (r.below(2), r.below(2)), "hide", "show",
                                             "mouse 1", "mouse 0", "erase"])))
    for _ in range(r.rng(3, 10)):
        j = r.below(nt)
        k = r.below(5)
        if k < 3:
            lines.append("T %d use %d" % (j, r.pick(objs)))
        elif k == 3:
            lines.append("T %d elem %s" % (j, el(wf_glyph(r), wf_attr(r))))
        else:
            lines.append("T %d %s" % (j, r.pick(["hide", "show", "mouse 1", "mouse 0", "title 6162", "buf 1", "buf 0"])))
    lines.append("END")
    return lines


def gen_show_case(r, idx):
    """values inserted one after another into one std::ostream: the text of a
    value must not depend on what was streamed before it"""
    lines = ["CASE %d" % idx]

    def one():
        k = r.below(12)
        if k < 4:
            return "colour " + " ".join(map(str, wild_colour(r) if r.chance(1, 5) else wf_colour(r)))
        if k == 4:
            return "attr " + " ".join(map(str, wild_attr(r) if r.chance(1, 5) else wf_attr(r)))
        if k == 5:
            return "cs %d" % r.below(19)
        if k < 8:
            return "glyph " + " ".join(map(str, wild_glyph(r) if r.chance(1, 2) else wf_glyph(r)))
        if k == 8:
            return "elem " + el(wild_glyph(r) if r.chance(1, 3) else wf_glyph(r), wf_attr(r))
        if k == 9:
            n = r.below(4)
            return "str %d" % n + "".join(" " + el(wf_glyph(r), wf_attr(r)) for _ in range(n))
        c = lambda: r.pick([0, 1, -1, 9, 10, 15, 16, 255, 256, -2147483648, 2147483647, r.rng(-1000, 1000)])
        if k == 10:
            return r.pick(["point", "extent"]) + " %d %d" % (c(), c())
        return "rect %d %d %d %d" % (c(), c(), c(), c())

    for _ in range(3):
        vals = [one() for _ in range(r.rng(1, 6))]
        lines.append("V show %d %d %s" % (r.pick([0, 0, 0, 1, 2, 4, 8, 17, 32, 64, 128, 256, 512, r.below(1024) & ~3]), len(vals), " ".join(vals)))
    lines.append("END")
    return lines


def gen_show_sweep():
    """every colour of the palette-indexed kinds after every kind of colour, and
    every (character set, byte) glyph: one case per block"""
    lines = []
    cid = 0
    firsts = [None, (0, 1, 0, 0), (1, 100, 0, 0), (2, 250, 0, 0), (3, 205, 59, 122)]
    for first in firsts:
        cid += 1
        lines.append("CASE %d" % cid)
        pre = ["colour %d %d %d %d" % first] if first else []
        for v in range(256):
            for kind in (1, 2):
                vals = pre + ["colour %d %d 0 0" % (kind, v)]
                lines.append("V show %d %d %s" % ((0, 1, 2, 4 | 8 | 32, 17)[cid % 5], len(vals), " ".join(vals)))
        for v in range(12):
            vals = pre + ["colour 0 %d 0 0" % v]
            lines.append("V show 0 %d %s" % (len(vals), " ".join(vals)))
        lines.append("END")
    for cs in range(19):
        cid += 1
        lines.append("CASE %d" % cid)
        for b in range(0, 256, 8):
            vals = ["glyph %d %d 0 0" % (cs, b + i) for i in range(8)]
            lines.append("V show %d 8 " % (0, 1, 17)[cs % 3] + " ".join(vals))
        lines.append("END")
    return lines


def gen_canvas_alias_case(r, idx):
    """two or three canvases related by copy construction, then modified through
    operator[], iterators (fill, *(begin()+i) = e) and resize; every canvas is
    dumped after every change: a copy is a value, not an alias"""
    lines = ["CASE %d" % idx]
    w, h = r.rng(1, 4), r.rng(1, 3)
    lines.append("K 0 new %d %d" % (w, h))
    dims = {0: (w, h)}
    n = 0
    for y in range(h):
        for x in range(w):
            n += 1
            lines.append("K 0 set %d %d %s" % (x, y, el((5, 0x41 + n % 50, 0, 0), DEFAULT_ATTR)))
    k = 1
    held = {}       # canvas id -> True while a handle taken on it is still valid
    heldpos = {}    # canvas id -> the cell the handles were taken on
    for _ in range(r.rng(2, 8)):
        c = r.below(8)
        ids = sorted(dims)
        if c == 0 and len(ids) < 3:
            src = r.pick(ids)
            lines.append("K %d copy %d" % (k, src))
            dims[k] = dims[src]
            k += 1
        elif c == 6:
            # take an iterator / column handle / reference to a cell now ...
            t = r.pick(ids)
            tw, th = dims[t]
            if tw * th > 0:
                hx, hy = r.below(tw), r.below(th)
                lines.append("K %d hold %d %d" % (t, hx, hy))
                held[t] = True
                heldpos[t] = (hx, hy)
            continue
        elif c == 7:
            # ... and write through it later (after copies of the canvas were made).  An
            # iterator or a reference dies with a resize or an assignment; a column handle
            # names column x of the canvas whatever shape it has taken since
            t = r.pick(ids)
            if held.get(t):
                lines.append("K %d heldset %d %s" % (t, r.below(3), el(wf_glyph(r), wf_attr(r))))
            elif t in heldpos and heldpos[t][0] < dims[t][0] and heldpos[t][1] < dims[t][1]:
                lines.append("K %d heldset 1 %s" % (t, el(wf_glyph(r), wf_attr(r))))
            else:
                continue
        elif c == 5 and r.chance(1, 2):
            t, o = r.pick(ids), r.pick(ids)
            lines.append("K %d assign %d" % (t, o))
            dims[t] = dims[o]
            held[t] = False
        elif c == 5 and k < 6 and len(ids) > 0:
            t = r.pick(ids)
            lines.append("K %d move %d" % (k, t))
            dims[k] = dims[t]
            del dims[t]
            held[t] = False
            heldpos.pop(t, None)
            k += 1
        else:
            t = r.pick(ids)
            tw, th = dims[t]
            e = el(wf_glyph(r), wf_attr(r))
            if c == 1:
                lines.append("K %d fill %s" % (t, e))
            elif c == 2 and tw * th > 0:
                lines.append("K %d iterset %d %s" % (t, r.below(tw * th), e))
            elif c == 3 and tw * th > 0:
                lines.append("K %d set %d %d %s" % (t, r.below(tw), r.below(th), e))
            elif c == 4:
                nw, nh = r.rng(0, 4), r.rng(0, 3)
                lines.append("K %d resize %d %d" % (t, nw, nh))
                dims[t] = (nw, nh)
                held[t] = False       # resizing invalidates iterators and references
            else:
                continue
        for i in sorted(dims):
            lines.append("K %d dump" % i)
    lines.append("END")
    return lines


STD_LOOKUP = {48: 0, 60: 1, 62: 3, 65: 4, 66: 5, 52: 6, 67: 7, 53: 7, 82: 8, 102: 8, 81: 9, 57: 9, 75: 10, 89: 11,
              96: 12, 69: 12, 54: 12, 90: 14, 72: 15, 55: 15, 61: 16, 85: 17}
STD_LOOKUP_EXT = {53: 2, 54: 13}


def gen_charset_sweep():
    """every one-byte and every %-extended designator candidate through the
    markup decoder (which calls lookup_character_set), and every set through a
    terminal write (which calls encode_character_set)"""
    lines = []
    n = 0
    for ext in (0, 1):
        for b in range(256):
            n += 1
            lines.append("CASE %d" % n)
            want = (STD_LOOKUP_EXT if ext else STD_LOOKUP).get(b, 5)
            if not ext and b == 37:
                want = 5
            lines.append("# WANTCS %d" % want)
            lines.append("M ete " + hexs([92, 99] + ([37] if ext else []) + [b, 88]))
            lines.append("END")
    # a designator looked up after another one in the same element: the result
    # depends on the designator alone, not on which form (one byte / %-extended)
    # was looked up before it
    firsts = [[37, 53], [37, 54], [37, 63], [48], [65], [37]]
    seconds = [[b] for b in sorted(STD_LOOKUP)] + [[37, b] for b in sorted(STD_LOOKUP_EXT)] + [[37, 48], [37, 65], [33]]
    for f in firsts:
        for g in seconds:
            n += 1
            lines.append("CASE %d" % n)
            first = (STD_LOOKUP_EXT.get(f[1], 5) if len(f) == 2 else STD_LOOKUP.get(f[0], 5))
            # an unknown designator leaves the set selected so far
            if len(g) == 2:
                want = STD_LOOKUP_EXT.get(g[1], first)
            else:
                want = STD_LOOKUP.get(g[0], first)
            # an unknown first designator leaves the set unchanged and its bytes are
            # consumed as the directive's argument either way
            if f == [37]:
                # "\c%" followed by "\c..": the '%' takes the backslash as its final byte
                continue
            lines.append("# WANTCS %d" % want)
            lines.append("M ete " + hexs([92, 99] + f + [92, 99] + g + [88]))
            lines.append("END")
    # the lookup function given a view into a longer buffer: only the bytes of
    # the view count
    for behind in ([53], [54], [48, 65], [37, 53]):
        n += 1
        lines.append("CASE %d" % n)
        for b in list(range(32, 127)) + [0, 27, 128, 255]:
            want = STD_LOOKUP.get(b)
            lines.append("# WANTLK %s" % (want if want is not None and b != 37 else "-"))
            lines.append("M lookup %s 1" % hexs([b] + behind))
            want2 = STD_LOOKUP_EXT.get(b)
            lines.append("# WANTLK %s" % (want2 if want2 is not None else "-"))
            lines.append("M lookup %s 2" % hexs([37, b] + behind))
        lines.append("# WANTLK -")
        lines.append("M lookup %s 0" % hexs(behind))
        lines.append("END")
    for cs in range(18):
        n += 1
        lines.append("CASE %d" % n)
        lines.append("# WANTDESIG " + hexs(DESIGNATOR[cs]))
        lines.append("T 0 new 0")
        lines.append("T 0 elem " + el((5, 65, 0, 0), DEFAULT_ATTR))
        lines.append("T 0 elem " + el((cs, 66, 0, 0), DEFAULT_ATTR))
        lines.append("END")
    return lines


ENUM_CLASSES = [27, 91, 79, 77, 126, 59, 63, 13, 10, 0, 155, 143, 49, 65, 97, 33, 200]


def gen_parser_enum(maxlen):
    """every byte string up to maxlen over 17 byte classes of the input decoder,
    each on a fresh terminal, followed by four letters and a well-known key"""
    import itertools
    lines = []
    n = 0
    for k in range(0, maxlen + 1):
        for t in itertools.product(ENUM_CLASSES, repeat=k):
            n += 1
            lines.append("CASE %d" % n)
            lines.append("T 0 new 0")
            lines.append("T 0 arm")
            lines.append("T 0 recv " + hexs(list(t)))
            lines.append("T 0 recv 41424344")
            lines.append("T 0 items IT csikey 0 65 -1 -1 IT char 120")
            lines.append("END")
    return lines
