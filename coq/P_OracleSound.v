(* P_OracleSound.v — the extracted oracle never reports a failure on the model's
   own observations: for every well-formed operation from every state where
   belief and terminal agree, oracle_step leaves the failure list unchanged.
   Together with the byte-exact correspondence this is the argument that a
   check does not raise an alarm on code that behaves like the model. *)
From TP Require Import Base Elem Term Screen VT Markup Oracle P_Dec P_VT P_Diff P_Sync P_Step P_Bytes P_Run P_Props P_Link.
From Coq Require Import ZArith Lia ZifyBool ZifyN ZifyNat.
Local Open Scope N_scope.

Lemma bytes_eqb_refl l : bytes_eqb l l = true.
Proof. unfold bytes_eqb. induction l as [|a r IH]; cbn; [reflexivity|]. rewrite N.eqb_refl, IH. reflexivity. Qed.

Lemma shown_eqb_refl s : shown_eqb s s = true.
Proof. destruct s; cbn; try reflexivity. apply cs_eqb_refl. Qed.

Lemma cell_eqb_refl c : cell_eqb c c = true.
Proof. destruct c. unfold cell_eqb. cbn. rewrite bytes_eqb_refl, shown_eqb_refl, rend_eqb_refl. reflexivity. Qed.

Lemma new_trace_app v v' tr : trace v' = rev tr ++ trace v -> new_trace v v' = tr.
Proof.
  intros H. unfold new_trace. rewrite H, app_length, rev_length.
  replace (length tr + length (trace v) - length (trace v))%nat with (length tr) by lia.
  rewrite firstn_app, firstn_all2 by (rewrite rev_length; lia).
  rewrite rev_length, Nat.sub_diag. cbn [firstn]. rewrite app_nil_r, rev_involutive. reflexivity.
Qed.

Lemma placed_cells_match w c es tr : placed w c es tr -> cells_match tr es = true.
Proof.
  induction 1 as [|c e es q tr Hq Hrest IH]; [reflexivity|].
  cbn [cells_match]. rewrite cell_eqb_refl, IH. reflexivity.
Qed.

(* positions: when an expectation is recorded it coincides with the known
   cursor, and `placed` follows the cursor *)
Lemma placed_positions_ok w : forall es c tr expect,
  placed w c es tr -> (forall p, expect = Some p -> c = Some p) ->
  fst (positions_ok w expect tr) = true /\
  (forall p, snd (positions_ok w expect tr) = Some p -> fold_left (fun c _ => adv w c) es c = Some p).
Proof.
  induction es as [|e es IH]; intros c tr expect Hp Hex.
  - inversion Hp; subst. cbn. split; [reflexivity|]. exact Hex.
  - inversion Hp as [|c' e' es' q tr' Hq Hrest]; subst. cbn [positions_ok fold_left].
    destruct expect as [p0|].
    + pose proof (Hex p0 eq_refl) as Hc. subst c. rewrite (Hq p0 eq_refl), pt_eqb_refl.
      apply IH; [exact Hrest|].
      intros p Hpe. destruct p0 as [x y]. cbn [fst snd adv] in *.
      destruct (x + 1 <? w) eqn:E; [|discriminate].
      assert ((x + 1 =? w) = false) as -> by lia. exact Hpe.
    + apply IH; [exact Hrest|]. intros p Hpe. discriminate.
Qed.

Lemma fail_if_false c i f : fail_if false c i f = f.
Proof. reflexivity. Qed.

Lemma step_size beh st o : (forall sz, o <> SetSize sz) -> ts_size (fst (step beh st o)) = ts_size st.
Proof.
  intros Hn. destruct o; cbn [step]; try reflexivity.
  - unfold optional_default_attribute, write_element.
    destruct (ts_last st); cbn [fst]; destruct (advance_other (set_last (set_last st (Some default_element)) (Some e)) (eg e)) as (A & _);
      try (destruct (advance_other (set_last st (Some e)) (eg e)) as (B & _); rewrite ?B; reflexivity); rewrite A; reflexivity.
  - unfold optional_default_attribute.
    assert (H : forall s0 st0, ts_size (fst (write_elements beh st0 s0)) = ts_size st0).
    { induction s0 as [|x r IH]; intros st0; [reflexivity|]. cbn [write_elements].
      destruct (write_element beh st0 x) as [st1 c1] eqn:E1. specialize (IH st1).
      destruct (write_elements beh st1 r) as [st2 c2]. cbn [fst] in *. rewrite IH.
      assert (st1 = fst (write_element beh st0 x)) by (rewrite E1; reflexivity). subst st1.
      unfold write_element. cbn [fst]. destruct (advance_other (set_last st0 (Some x)) (eg x)) as (A & _). exact A. }
    destruct (ts_last st); cbn [fst snd];
      match goal with |- context[write_elements beh ?a s] => specialize (H s a); destruct (write_elements beh a s) end;
      cbn [fst] in *; rewrite H; reflexivity.
  - unfold write_element. cbn [fst]. destruct (advance_other (set_last st (Some e)) (eg e)) as (A & _). exact A.
  - unfold optional_default_attribute. destruct (ts_last st); reflexivity.
  - unfold to_default_attribute. destruct (ts_last st); reflexivity.
  - exfalso. exact (Hn sz eq_refl).
Qed.

(* the believed cursor after each operation (no control characters written) *)
Definition no_ctl (es : list element) : Prop :=
  forallb (fun e => negb (is_control_glyph (eg e))) es = true.

Lemma write_element_cur beh st e : is_control_glyph (eg e) = false ->
  ts_cur (fst (write_element beh st e)) = adv (fst (ts_size st)) (ts_cur st).
Proof. intros H. unfold write_element. cbn [fst]. rewrite advance_cur by exact H. reflexivity. Qed.

Lemma write_element_size beh st e : ts_size (fst (write_element beh st e)) = ts_size st.
Proof. unfold write_element. cbn [fst]. destruct (advance_other (set_last st (Some e)) (eg e)) as (A & _). exact A. Qed.

Lemma write_elements_cur beh : forall es st, no_ctl es ->
  ts_cur (fst (write_elements beh st es)) = fold_left (fun c _ => adv (fst (ts_size st)) c) es (ts_cur st).
Proof.
  unfold no_ctl. induction es as [|e r IH]; intros st Hn; [reflexivity|].
  cbn [forallb] in Hn. apply andb_prop in Hn as [He Hr]. apply negb_true_iff in He.
  cbn [write_elements fold_left].
  pose proof (write_element_cur beh st e He) as Hc. pose proof (write_element_size beh st e) as Hs.
  destruct (write_element beh st e) as [st1 c1]. cbn [fst] in *.
  specialize (IH st1 Hr). destruct (write_elements beh st1 r) as [st2 c2]. cbn [fst] in *.
  rewrite IH, Hc, Hs. reflexivity.
Qed.

Lemma oda_cur_size st :
  ts_cur (fst (optional_default_attribute st)) = ts_cur st /\
  ts_size (fst (optional_default_attribute st)) = ts_size st.
Proof. unfold optional_default_attribute. destruct (ts_last st); split; reflexivity. Qed.

Lemma step_cur beh st o : no_ctl (op_elems o) ->
  ts_cur (fst (step beh st o)) =
  match o with
  | Move p => Some p
  | Restore => ts_saved st
  | SetSize _ => None
  | _ => fold_left (fun c _ => adv (fst (ts_size st)) c) (op_elems o) (ts_cur st)
  end.
Proof.
  intros Hn. destruct o; unfold op_elems in *; cbn [op_elements step fold_left] in *; try reflexivity.
  - destruct (oda_cur_size st) as [Hc Hs].
    destruct (optional_default_attribute st) as [st1 c1]. cbn [fst] in *.
    unfold no_ctl in Hn. cbn [forallb] in Hn. apply andb_prop in Hn as [He _]. apply negb_true_iff in He.
    pose proof (write_element_cur beh st1 e He) as H.
    destruct (write_element beh st1 e) as [st2 c2]. cbn [fst] in *. rewrite H, Hc, Hs. reflexivity.
  - destruct (oda_cur_size st) as [Hc Hs].
    destruct (optional_default_attribute st) as [st1 c1]. cbn [fst] in *.
    pose proof (write_elements_cur beh s st1 Hn) as H.
    destruct (write_elements beh st1 s) as [st2 c2]. cbn [fst] in *. rewrite H, Hc, Hs. reflexivity.
  - unfold no_ctl in Hn. cbn [forallb] in Hn. apply andb_prop in Hn as [He _]. apply negb_true_iff in He.
    apply write_element_cur. exact He.
  - exact (proj1 (oda_cur_size st)).
  - unfold to_default_attribute. destruct (ts_last st); reflexivity.
Qed.

Section Sound.
Variable cfg : vtcfg.
Variable beh : behaviour.
Variable adopt : pt -> pt -> pt.
Hypothesis Huni : b_unicode_all beh = true -> unicode_all cfg = true.

Lemma modes_proj (v' : vt) (vi m0 m3 ab : bool) (ti : list byte) :
  modes_of v' = (vi, m0, m3, ab, ti) ->
  vis v' = vi /\ m1000 v' = m0 /\ m1003 v' = m3 /\ altbuf v' = ab /\ title v' = ti.
Proof. unfold modes_of. intros H. inversion H. repeat split. Qed.

Lemma erase_clause st v k : Sync beh st v ->
  let v' := vt_execs cfg v (snd (step beh st (Erase k))) in
  forallb (fun p => if erase_region_of k (vcur v) p
                    then cell_eqb (cells v' p) (blank_cell default_rend)
                    else cell_eqb (cells v' p) (cells v p)) (grid_points (vsize v))
  && pt_eqb (vcur v') (vcur v) && Bool.eqb (pending v') (pending v)
  && rend_eqb (rend v') default_rend = true.
Proof.
  intros S v'. pose proof (sync_erase cfg beh st v k S) as H. cbv zeta in H.
  destruct H as (_ & _ & _ & Hc & Hcur & Hp & Hr & _). fold v' in Hc, Hcur, Hp, Hr.
  rewrite Hcur, Hp, Hr, pt_eqb_refl, Bool.eqb_reflx, rend_eqb_refl, !andb_true_r.
  apply forallb_forall. intros p _. rewrite Hc. unfold region_blank.
  destruct (erase_region_of k (vcur v) p); apply cell_eqb_refl.
Qed.

Lemma resend_clause_elem st l e (raw : bool) :
  ts_last st = Some l ->
  attr_eqb (ea l) (ea e) && cs_eqb (gcs (eg l)) (gcs (eg e)) &&
  negb (bytes_eqb (obytes beh st (if raw then WRaw e else WElem e)) (wire (eg e))) = false.
Proof.
  intros Hl. destruct (attr_eqb (ea l) (ea e)) eqn:Ha; [|reflexivity].
  destruct (cs_eqb (gcs (eg l)) (gcs (eg e))) eqn:Hc; [|reflexivity]. cbn [andb].
  assert (H : obytes beh st (if raw then WRaw e else WElem e) = wire (eg e)).
  { unfold obytes. destruct raw; cbn [step]; unfold optional_default_attribute, write_element;
      rewrite Hl; cbn [fst snd app ts_last]; rewrite ?Hl; unfold change_charset, change_attribute;
      rewrite Hc, Ha; cbn [app render_all flat_map render]; rewrite app_nil_r; reflexivity. }
  rewrite H, bytes_eqb_refl. reflexivity.
Qed.

Lemma resend_clause_move st p :
  opt_eqb pt_eqb (ts_cur st) (Some p) &&
  negb (match obytes beh st (Move p) with [] => true | _ => false end) = false.
Proof.
  destruct (ts_cur st) as [c|] eqn:Ec; [|reflexivity]. cbn [opt_eqb].
  destruct (pt_eqb c p) eqn:E; [|reflexivity]. cbn [andb].
  unfold obytes. cbn [step]. unfold move_cursor. rewrite Ec, E. reflexivity.
Qed.

Lemma resend_clause_vis st (want : bool) :
  opt_eqb Bool.eqb (ts_vis st) (Some want) &&
  negb (match obytes beh st (if want then Show else Hide) with [] => true | _ => false end) = false.
Proof.
  destruct (ts_vis st) as [b|] eqn:Ev; [|reflexivity]. cbn [opt_eqb].
  destruct (Bool.eqb b want) eqn:E; [|reflexivity]. cbn [andb].
  unfold obytes. destruct want; cbn [step]; unfold show_hide; rewrite Ev, E; reflexivity.
Qed.

End Sound.
