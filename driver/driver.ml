(* driver.ml — runs the same line-oriented scripts as harness/impl_driver.cpp
   against the extracted Coq model (mode "model"), and runs the extracted
   property oracles on the implementation's observations (mode "oracle"). *)
open Model

(* ---- conversions --------------------------------------------------------- *)
let rec pos_of_int i = if i = 1 then XH else if i land 1 = 1 then XI (pos_of_int (i lsr 1)) else XO (pos_of_int (i lsr 1))
let n_of_int i = if i <= 0 then N0 else Npos (pos_of_int i)
let rec int_of_pos = function XH -> 1 | XO p -> 2 * int_of_pos p | XI p -> 2 * int_of_pos p + 1
let int_of_n = function N0 -> 0 | Npos p -> int_of_pos p
let z_of_int i = if i = 0 then Z0 else if i > 0 then Zpos (pos_of_int i) else Zneg (pos_of_int (-i))
let int_of_z = function Z0 -> 0 | Zpos p -> int_of_pos p | Zneg p -> - (int_of_pos p)
let rec nat_of_int i = if i <= 0 then O else S (nat_of_int (i - 1))

let hexd = "0123456789abcdef"
let hex (l : n list) =
  if l = [] then "-" else begin
    let b = Buffer.create 64 in
    List.iter (fun x -> let v = int_of_n x in Buffer.add_char b hexd.[(v lsr 4) land 15]; Buffer.add_char b hexd.[v land 15]) l;
    Buffer.contents b end
let unhex s =
  if s = "-" then [] else begin
    let v c = if c <= '9' then Char.code c - 48 else Char.code c - 87 in
    let r = ref [] in
    let i = ref (String.length s - 2) in
    while !i >= 0 do r := n_of_int (v s.[!i] * 16 + v s.[!i + 1]) :: !r; i := !i - 2 done;
    !r end

(* ---- token stream over a line ------------------------------------------- *)
type toks = { v : Stdlib.String.t array; mutable i : int }
(* cell handles taken on a canvas (K id hold x y) and used later (K id heldset k e):
   they keep denoting cell (x,y) of that canvas *)
let held : (int, int * int) Hashtbl.t = Hashtbl.create 8
(* objects of the attributed string class (Z lines) *)
let tstrings : (int, element list) Hashtbl.t = Hashtbl.create 8
let arm2 : (int, bool) Hashtbl.t = Hashtbl.create 8
let failnext : (int, bool) Hashtbl.t = Hashtbl.create 8
let num t = let x = int_of_string t.v.(t.i) in t.i <- t.i + 1; x
let str t = let x = t.v.(t.i) in t.i <- t.i + 1; x
let split line = Array.of_list (List.filter (fun s -> s <> "") (String.split_on_char ' ' line))

let cs_of_int i = match cs_of_index (n_of_int i) with Some c -> c | None -> CsAscii
let int_of_cs c = int_of_n (cs_index c)
let is_utf8 c = int_of_cs c = 18

let mk_glyph t =
  let cs = num t in let b0 = num t in let b1 = num t in let b2 = num t in
  { gcs = cs_of_int cs; g0 = n_of_int b0; g1 = n_of_int b1; g2 = n_of_int b2 }
let mk_colour t =
  let k = num t in let a = num t in let b = num t in let c = num t in
  match k with 0 -> CLow (n_of_int a) | 1 -> CHigh (n_of_int a) | 2 -> CGrey (n_of_int a)
  | _ -> CTrue (n_of_int a, n_of_int b, n_of_int c)
let mk_attr t =
  let f = mk_colour t in let b = mk_colour t in
  let i = num t in let u = num t in let ng = num t in let bl = num t in
  { fg = f; bg = b; inten = (if i = 1 then IBold else if i = 2 then IFaint else INormal);
    ul = (u <> 0); neg = (ng <> 0); blink = (bl <> 0) }
let mk_elem t = let g = mk_glyph t in let a = mk_attr t in { eg = g; ea = a }
let mk_string t = let n = num t in List.init n (fun _ -> mk_elem t)

let pr_colour = function
  | CLow v -> Printf.sprintf "0 %d 0 0" (int_of_n v)
  | CHigh v -> Printf.sprintf "1 %d 0 0" (int_of_n v)
  | CGrey v -> Printf.sprintf "2 %d 0 0" (int_of_n v)
  | CTrue (r, g, b) -> Printf.sprintf "3 %d %d %d" (int_of_n r) (int_of_n g) (int_of_n b)
let pr_elem e =
  let g = e.eg in let a = e.ea in
  let gs = if is_utf8 g.gcs then Printf.sprintf "%d %d %d %d" (int_of_cs g.gcs) (int_of_n g.g0) (int_of_n g.g1) (int_of_n g.g2)
           else Printf.sprintf "%d %d 0 0" (int_of_cs g.gcs) (int_of_n g.g0) in
  Printf.sprintf "%s %s %s %d %d %d %d" gs (pr_colour a.fg) (pr_colour a.bg)
    (match a.inten with IBold -> 1 | IFaint -> 2 | INormal -> 0)
    (if a.ul then 1 else 0) (if a.neg then 1 else 0) (if a.blink then 1 else 0)

let pr_cseq (c : cseq) =
  Printf.sprintf "%d %d %d %d %d%s" (int_of_n c.cs_init) (int_of_n c.cs_cmd) (if c.cs_meta then 1 else 0)
    (int_of_n c.cs_ext) (List.length c.cs_args)
    (String.concat "" (List.map (fun a -> " " ^ hex a) c.cs_args))
let pr_token = function
  | TKey (k, m, r, s) ->
      Printf.sprintf "VK %d %d %d %s" (int_of_n k) (int_of_n m) (int_of_z r)
        (match s with KByte b -> Printf.sprintf "B %d" (int_of_n b) | KSeq c -> "C " ^ pr_cseq c)
  | TMouse (a, x, y) -> Printf.sprintf "MS %d %d %d" (int_of_n a) (int_of_z x) (int_of_z y)
  | TCtl c -> "CS " ^ pr_cseq c

let mk_cseq t =
  let i = num t in let c = num t in let m = num t in let e = num t in let n = num t in
  let args = List.init n (fun _ -> unhex (str t)) in
  { cs_init = n_of_int i; cs_cmd = n_of_int c; cs_meta = (m <> 0); cs_args = args; cs_ext = n_of_int e }
let mk_vk t =
  let k = num t in let m = num t in let r = num t in
  let s = if str t = "B" then KByte (n_of_int (num t)) else KSeq (mk_cseq t) in
  { k_key = n_of_int k; k_mods = n_of_int m; k_rep = z_of_int r; k_seq = s }

let mk_beh m =
  { b_basic_mouse = (m lsr 7) land 1 = 1; b_all_mouse = (m lsr 8) land 1 = 1;
    b_title_bel = (m lsr 9) land 1 = 1; b_title_st = (m lsr 10) land 1 = 1;
    b_unicode_all = (m lsr 11) land 1 = 1 }

let pr_opt_pt = function None -> "-" | Some (x, y) -> Printf.sprintf "%d %d" (int_of_n x) (int_of_n y)
let pr_state st =
  Printf.sprintf "ST %d %d L %s C %s S %s V %s" (int_of_n (fst st.ts_size)) (int_of_n (snd st.ts_size))
    (match st.ts_last with None -> "-" | Some e -> pr_elem e)
    (pr_opt_pt st.ts_cur) (pr_opt_pt st.ts_saved)
    (match st.ts_vis with None -> "-" | Some true -> "1" | Some false -> "0")

let pt a b = (n_of_int a, n_of_int b)

(* parse a terminal op (after "T id"); returns None for arm/recv/new *)
let erase_of_int = function 0 -> EDisplay | 1 -> EDisplayAbove | 2 -> EDisplayBelow | 3 -> ELine | 4 -> ELineLeft | _ -> ELineRight
let manips : (int, op) Hashtbl.t = Hashtbl.create 8
let parse_manip t : unit =
  let oid = num t in
  let o = match str t with
    | "title" -> Some (Title (unhex (str t)))
    | "move" -> let a = num t in let b = num t in Some (Move (pt a b))
    | "raw" -> Some (WRaw (mk_elem t))
    | "hide" -> Some Hide | "show" -> Some Show
    | "mouse" -> Some (if num t <> 0 then MouseOn else MouseOff)
    | "erase" -> Some (Erase EDisplay)
    | _ -> None in
  match o with Some o -> Hashtbl.replace manips oid o | None -> ()
let forget k (st : tstate) : tstate =
  match k with
  | 0 -> { st with ts_last = None } | 1 -> { st with ts_cur = None }
  | 2 -> { st with ts_saved = None } | _ -> { st with ts_vis = None }
let parse_op name t : op option =
  match name with
  | "use" -> (try Some (Hashtbl.find manips (num t)) with Not_found -> None)
  | "size" -> let a = num t in let b = num t in Some (SetSize (pt a b))
  | "elem" -> Some (WElem (mk_elem t))
  | "raw" -> Some (WRaw (mk_elem t))
  | "oda" -> Some ODA
  | "str" -> Some (WStr (mk_string t))
  | "cstr" -> Some (WStr (s_of_cstr (unhex (str t))))
  | "stdstr" -> Some (WStr (s_of_bytes (unhex (str t))))
  | "move" -> let a = num t in let b = num t in Some (Move (pt a b))
  | "save" -> Some Save | "restore" -> Some Restore
  | "show" -> Some Show | "hide" -> Some Hide
  | "erase" -> Some (Erase (erase_of_int (num t)))
  | "mouse" -> Some (if num t <> 0 then MouseOn else MouseOff)
  | "buf" -> Some (if num t <> 0 then BufAlt else BufNormal)
  | "title" -> Some (Title (unhex (str t)))
  | _ -> None

(* ---- model mode ------------------------------------------------------------ *)
type term = { beh : behaviour; mutable st : tstate; mutable ps : pstate; mutable armed : bool }
type world = {
  terms : (int, term) Hashtbl.t;
  canvases : (int, canvas) Hashtbl.t;
  screens : (int, int * screen ref) Hashtbl.t;
  parsers : (int, pstate ref) Hashtbl.t }
let new_world () = { terms = Hashtbl.create 8; canvases = Hashtbl.create 8; screens = Hashtbl.create 8; parsers = Hashtbl.create 8 }

let cmp_line eq c heq =
  let ci = match c with Lt -> -1 | Eq -> 0 | Gt -> 1 in
  Printf.sprintf "CMP %d %d %d %d %d %d %d %s" (if eq then 1 else 0) (if eq then 0 else 1)
    (if ci < 0 then 1 else 0) (if ci > 0 then 1 else 0) (if ci <= 0 then 1 else 0) (if ci >= 0 then 1 else 0) ci heq
let hs b = if b then "1" else "0"

let pr_string out s =
  out (Printf.sprintf "EL %d" (List.length s));
  List.iter (fun e -> out ("E " ^ pr_elem e)) s

let model_line out w line =
  let t = { v = split line; i = 0 } in
  if Array.length t.v > 0 then begin
    out ("> " ^ line);
    match str t with
    | s when s.[0] = '#' -> ()
    | "CASE" -> Hashtbl.reset w.terms; Hashtbl.reset w.canvases; Hashtbl.reset w.screens; Hashtbl.reset w.parsers;
        Hashtbl.reset tstrings; Hashtbl.reset held; Hashtbl.reset arm2; Hashtbl.reset failnext; Hashtbl.reset manips
    | "END" -> ()
    | "T" ->
        let id = num t in
        let name = str t in
        if name = "new" then begin
          let tm = { beh = mk_beh (num t); st = init_tstate; ps = init_pstate; armed = false } in
          Hashtbl.replace w.terms id tm; out (pr_state tm.st) end
        else if name = "failnext" then Hashtbl.replace failnext id true
        else if name = "sleep" then ()
        else if name = "forget" then begin
          let tm = Hashtbl.find w.terms id in
          tm.st <- forget (num t) tm.st; out "W -"; out (pr_state tm.st) end
        else begin
          let tm = Hashtbl.find w.terms id in
          let bytes =
            if (name = "elem" || name = "str" || name = "move" || name = "hide" || name = "show") && (try Hashtbl.find failnext id with Not_found -> false) then begin
              (* the single write of this operation fails: nothing is sent and nothing is
                 remembered (the generator only places a failure before an operation that
                 writes nothing but its glyph) *)
              Hashtbl.replace failnext id false;
              (match parse_op name t with
               | Some o -> let (_, cmds) = step tm.beh tm.st o in
                   if cmds = [] then begin
                     (* nothing to write: the operation completes (and changes nothing) *)
                     let (st', _) = step tm.beh tm.st o in tm.st <- st'; out "NOEXC" end
                   else out (if name = "move" || name = "hide" || name = "show"
                                || List.for_all (function Payload _ -> true | _ -> false) cmds then "EXC" else "EXC-PARTIAL")
               | None -> ());
              [] end
            else if name = "arm" then (tm.armed <- true; Hashtbl.replace arm2 id false; [])
            else if name = "arm2" then (tm.armed <- true; Hashtbl.replace arm2 id true; [])
            else if name = "alive" then (let b = num t in out (Printf.sprintf "AL %d" (if b <> 0 then 1 else 0)); [])
            else if name = "recvq" then begin
              let n = num t in
              let ds = List.init n (fun _ -> unhex (str t)) in
              if tm.armed then begin
                let lines = List.map (fun data ->
                  let (ps', toks) = deliver tm.ps data in
                  tm.ps <- ps';
                  Printf.sprintf "CB %d%s" (List.length toks)
                    (String.concat "" (List.map (fun k -> " | " ^ pr_token k) toks))) ds in
                (* a client that re-arms before looking at its tokens finishes the
                   callbacks of the later deliveries first *)
                let lines = if (try Hashtbl.find arm2 id with Not_found -> false) then List.rev lines else lines in
                List.iter out lines
              end; [] end
            else if name = "recv" then begin
              let data = unhex (str t) in
              if tm.armed then begin
                let (ps', toks) = deliver tm.ps data in
                tm.ps <- ps';
                out (Printf.sprintf "CB %d%s" (List.length toks)
                       (String.concat "" (List.map (fun k -> " | " ^ pr_token k) toks)))
              end; [] end
            else match parse_op name t with
              | Some o -> let (st', cmds) = step tm.beh tm.st o in tm.st <- st'; render_all cmds
              | None -> out ("ERR unknown terminal op " ^ name); [] in
          out ("W " ^ hex bytes); out (pr_state tm.st) end
    | "K" ->
        let id = num t in
        (match str t with
         | "new" -> let a = num t in let b = num t in Hashtbl.replace w.canvases id (blank_canvas (n_of_int a) (n_of_int b))
         | "set" -> let x = num t in let y = num t in let e = mk_elem t in
             Hashtbl.replace w.canvases id (cv_set (Hashtbl.find w.canvases id) (n_of_int x) (n_of_int y) e)
         | "resize" -> let a = num t in let b = num t in
             Hashtbl.replace w.canvases id (cv_resize (Hashtbl.find w.canvases id) (n_of_int a) (n_of_int b))
         | "copy" | "assign" -> Hashtbl.replace w.canvases id (Hashtbl.find w.canvases (num t))
         | "move" -> let from = num t in let c = Hashtbl.find w.canvases from in
             Hashtbl.remove w.canvases from; Hashtbl.replace w.canvases id c
         | "fill" -> let e = mk_elem t in let c = Hashtbl.find w.canvases id in
             Hashtbl.replace w.canvases id { c with grid = List.map (fun _ -> e) c.grid }
         | "iterset" -> let i = num t in let e = mk_elem t in let c = Hashtbl.find w.canvases id in
             Hashtbl.replace w.canvases id { c with grid = List.mapi (fun k x -> if k = i then e else x) c.grid }
         | "hold" -> let x = num t in let y = num t in Hashtbl.replace held id (x, y)
         | "heldset" -> ignore (num t); let e = mk_elem t in let (x, y) = Hashtbl.find held id in
             Hashtbl.replace w.canvases id (cv_set (Hashtbl.find w.canvases id) (n_of_int x) (n_of_int y) e)
         | "dump" -> let c = Hashtbl.find w.canvases id in
             out (Printf.sprintf "KSZ %d %d %d" (int_of_n c.cw) (int_of_n c.ch) (List.length c.grid));
             List.iter (fun e -> out ("KE " ^ pr_elem e)) c.grid
         | "get" -> let x = num t in let y = num t in
             out ("KG " ^ pr_elem (cv_get (Hashtbl.find w.canvases id) (n_of_int x) (n_of_int y)))
         | "region" -> let x = num t in let y = num t in let a = num t in let b = num t in
             List.iter (fun ((px, py), e) -> out (Printf.sprintf "KR %d %d %s" (int_of_n px) (int_of_n py) (pr_elem e)))
               (region_visit (Hashtbl.find w.canvases id) (n_of_int x) (n_of_int y) (n_of_int a) (n_of_int b))
         | _ -> out "ERR unknown canvas op")
    | "S" ->
        let id = num t in
        (match str t with
         | "new" -> let tid = num t in Hashtbl.replace w.screens id (tid, ref init_screen)
         | "draw" ->
             let (tid, sr) = Hashtbl.find w.screens id in
             let tm = Hashtbl.find w.terms tid in
             let c = Hashtbl.find w.canvases (num t) in
             let ((s', st'), cmds) = draw tm.beh !sr tm.st c in
             sr := s'; tm.st <- st';
             out ("W " ^ hex (render_all cmds)); out (pr_state tm.st)
         | _ -> ())
    | "M" ->
        (match str t with
         | "encodearr" ->
             let b = unhex (str t) in
             let rec take i l = if i = 0 then [] else match l with [] -> [] | x :: r -> x :: take (i - 1) r in
             let b31 = take 31 b in
             pr_string out (encode (b31 @ List.init (32 - List.length b31) (fun _ -> N0)))
         | "encode" | "ets" -> pr_string out (encode (unhex (str t)))
         | "ete" -> out ("E " ^ pr_elem (ete (unhex (str t))))
         | "lookup" ->
             let b = unhex (str t) in let len = num t in
             let rec take i l = if i = 0 then [] else match l with [] -> [] | x :: r -> x :: take (i - 1) r in
             out ("LK " ^ (match lookup_cs (take len b) with Some c -> string_of_int (int_of_n (cs_index c)) | None -> "-"))
         | "tostring" -> out ("TS " ^ hex (to_string (mk_string t)))
         | "ofbytes" | "ofstd" -> let s = of_bytes (unhex (str t)) in pr_string out s; out ("TS " ^ hex (to_string s))
         | "ofstdattr" ->
             let bs = unhex (str t) in
             let a = mk_attr t in
             let s = List.map (fun e -> { eg = e.eg; ea = a }) (of_bytes bs) in
             pr_string out s; out ("TS " ^ hex (to_string s))
         | "concat" -> let a = mk_string t in let b = mk_string t in
             out ("TS " ^ hex (to_string (a @ b))); out ("TS " ^ hex (to_string a @ to_string b))
         | _ -> out "ERR unknown markup op")
    | "V" ->
        (match str t with
         | "glyph" -> let a = mk_glyph t in let b = mk_glyph t in
             out (cmp_line (glyph_eqb a b) (glyph_cmp a b) (hs (glyph_hash_key a = glyph_hash_key b)))
         | "cs" -> let a = cs_of_int (num t) in let b = cs_of_int (num t) in
             out (cmp_line (cs_eqb a b) (cs_cmp a b) (hs (cs_eqb a b)))
         | "colour" -> let a = mk_colour t in let b = mk_colour t in
             out (cmp_line (colour_eqb a b) (colour_cmp a b) (hs (colour_key a = colour_key b)))
         | "attr" -> let a = mk_attr t in let b = mk_attr t in
             out (cmp_line (attr_eqb a b) (attr_cmp a b) (hs (attr_hash_key a = attr_hash_key b)))
         | "elem" -> let a = mk_elem t in let b = mk_elem t in
             out (cmp_line (element_eqb a b) (element_cmp a b) (hs (element_hash_key a = element_hash_key b)))
         | "str" -> let a = mk_string t in let b = mk_string t in
             out (cmp_line (string_eqb a b) (string_cmp a b) (hs (string_hash_key a = string_hash_key b)))
         | "point" -> let ax = num t in let ay = num t in let bx = num t in let by = num t in
             let a = (z_of_int ax, z_of_int ay) and b = (z_of_int bx, z_of_int by) in
             out (cmp_line (point_eqb a b) (point_cmp a b) "-")
         | "extent" -> let ax = num t in let ay = num t in let bx = num t in let by = num t in
             let a = (z_of_int ax, z_of_int ay) and b = (z_of_int bx, z_of_int by) in
             out (cmp_line (point_eqb a b) (extent_cmp a b) "-")
         | "rect" ->
             let rd () = let x = num t in let y = num t in let ww = num t in let h = num t in
               ((z_of_int x, z_of_int y), (z_of_int ww, z_of_int h)) in
             let a = rd () in let b = rd () in
             out (cmp_line (rect_eqb a b) (rect_cmp a b) "-")
         | "cseq" -> let a = mk_cseq t in let b = mk_cseq t in out (cmp_line (cseq_eqb a b) (cseq_cmp a b) "-")
         | "vk" -> let a = mk_vk t in let b = mk_vk t in out (cmp_line (vkey_eqb a b) (vkey_cmp a b) "-")
         | "mouse" ->
             let rd () = let a = num t in let x = num t in let y = num t in (n_of_int a, (z_of_int x, z_of_int y)) in
             let a = rd () in let b = rd () in
             out (cmp_line (mouse_eqb a b) (mouse_cmp a b) "-")
         | "gptr" ->
             let g = glyph_of_cstr (unhex (str t)) in
             out (Printf.sprintf "G %d %d %d %d" (int_of_n (cs_index g.gcs)) (int_of_n g.g0) (int_of_n g.g1) (int_of_n g.g2))
         | "show" ->
             ignore (num t);      (* the host stream's formatting flags: not the values' business *)
             let k = num t in
             let vals = List.init k (fun _ ->
               match str t with
               | "colour" -> SvColour (mk_colour t)
               | "attr" -> SvAttr (mk_attr t)
               | "cs" -> SvCs (cs_of_int (num t))
               | "glyph" -> SvGlyph (mk_glyph t)
               | "elem" -> SvElem (mk_elem t)
               | "str" -> SvStr (mk_string t)
               | "point" -> let x = num t in let y = num t in SvPoint (z_of_int x, z_of_int y)
               | "extent" -> let x = num t in let y = num t in SvExtent (z_of_int x, z_of_int y)
               | "rect" -> let x = num t in let y = num t in let ww = num t in let h = num t in
                   SvRect ((z_of_int x, z_of_int y), (z_of_int ww, z_of_int h))
               | _ -> failwith "show tag") in
             out ("SH " ^ hex (show_stream vals));
             out ("SHS " ^ hex (show_stream vals))
         | _ -> out "ERR unknown value type")
    | "O" -> parse_manip t
    | "Z" ->
        let id = num t in
        let get i = Hashtbl.find tstrings i in
        let put v = Hashtbl.replace tstrings id v in
        (match str t with
         | "ofbytes" | "ofstd" -> put (s_of_bytes (unhex (str t)))
         | "ofstdattr" -> let b = unhex (str t) in put (s_of_bytes_attr b (mk_attr t))
         | "cstr" -> put (s_of_cstr (unhex (str t)))
         | "fill" -> let n = num t in put (s_fill (nat_of_int n) (mk_elem t))
         | "range" | "ilist" -> put (s_of_elems (mk_string t))
         | "copy" | "assign" -> put (get (num t))
         | "move" -> let from = num t in let v = get from in Hashtbl.remove tstrings from; put v
         | "appendelem" -> put (s_append_elem (get id) (mk_elem t))
         | "appendown" -> let i = num t in let s0 = get id in put (s_append_elem s0 (List.nth s0 i))
         | "append" -> put (s_append (get id) (get (num t)))
         | "plus" -> let a = num t in let b = num t in put (s_append (get a) (get b))
         | "pluselem" -> let a = num t in put (s_append_elem (get a) (mk_elem t))
         | "insert" -> let pos = num t in put (s_insert (get id) (nat_of_int pos) (mk_elem t))
         | "insertrange" -> let pos = num t in let o = num t in put (s_insert_range (get id) (nat_of_int pos) (get o))
         | "insertstream" -> let pos = num t in let b = unhex (str t) in put (s_insert_range (get id) (nat_of_int pos) (s_of_bytes b))
         | "erase" -> put (s_erase_all (get id))
         | "erasefrom" -> put (s_erase_from (get id) (nat_of_int (num t)))
         | "eraserange" -> let a = num t in let b = num t in put (s_erase_range (get id) (nat_of_int a) (nat_of_int b))
         | "setat" -> let i = num t in put (s_set (get id) (nat_of_int i) (mk_elem t))
         | "swap" -> let o = num t in let a = get id and b = get o in Hashtbl.replace tstrings id b; Hashtbl.replace tstrings o a
         | "mdump" -> ()
         | "hold" -> Hashtbl.replace held (1000 + id) (num t, 0)
         | "heldset" -> ignore (num t); let e = mk_elem t in let (i, _) = Hashtbl.find held (1000 + id) in
             put (s_set (get id) (nat_of_int i) e)
         | "dump" -> let s = get id in
             out (Printf.sprintf "ZS %d %d" (List.length s) (if s = [] then 1 else 0));
             List.iter (fun e -> out ("E " ^ pr_elem e)) s;
             out ("TS " ^ hex (to_string s))
         | _ -> out "ERR unknown string op")
    | "P" ->
        let id = num t in
        (match str t with
         | "new" -> Hashtbl.replace w.parsers id (ref init_pstate)
         | "feed" ->
             let r = Hashtbl.find w.parsers id in
             let (s', toks) = feed !r (unhex (str t)) in
             r := s'; List.iter (fun k -> out ("PT " ^ pr_token k)) toks
         | _ -> ())
    | _ -> out "ERR unknown line kind"
  end

(* ---- oracle mode ------------------------------------------------------------ *)
(* Reads the IMPLEMENTATION's output (echoed script lines "> ..." followed by
   observation lines) and runs the extracted oracle over every terminal of
   every case, under every reference-terminal configuration. *)
let parse_state line : tstate =
  (* ST w h L <elem|-> C <x y|-> S <x y|-> V <v> *)
  let t = { v = split line; i = 1 } in
  let w = num t in let h = num t in
  ignore (str t);
  let last = if t.v.(t.i) = "-" then (t.i <- t.i + 1; None) else Some (mk_elem t) in
  ignore (str t);
  (* a negative coordinate reported as known is never true of a terminal: keep it
     out of range instead of clamping it to 0 *)
  let far x = if x < 0 then 1073741823 else x in
  let rd () = if t.v.(t.i) = "-" then (t.i <- t.i + 1; None) else (let a = num t in let b = num t in Some (pt (far a) (far b))) in
  let c = rd () in ignore (str t);
  let s = rd () in ignore (str t);
  let vis = match str t with "1" -> Some true | "0" -> Some false | _ -> None in
  { ts_size = pt w h; ts_last = last; ts_cur = c; ts_saved = s; ts_vis = vis }

let configs =
  List.concat_map (fun (wn, wm) ->
    List.concat_map (fun (an, af) ->
      List.map (fun (vn, v0) -> (Printf.sprintf "%s/%s/%s" wn an vn, wm, af, v0))
        [("clean", vt0_clean); ("junk", vt0_junk)])
      [("keep", adopt_keep); ("corner", adopt_corner)])
    [("deferred", Deferred); ("immediate", Immediate); ("nowrap", NoWrap)]

type oitem = Obs of obs | Forgets of int

(* oracle_run, with the application's own "I no longer know this" steps applied to the
   belief the oracle carries (a weaker belief is still a true one) *)
let oracle_items cfg beh af ct v0 (h : oitem list) =
  let s0 = { os_vt = v0; os_prev = init_tstate; os_model = init_tstate; os_expect = None;
             os_frame = blank_canvas N0 N0; os_idx = N0; os_fail = [] } in
  let s = List.fold_left (fun s it ->
    match it with
    | Obs o -> oracle_step cfg beh af ct s o
    | Forgets k -> { s with os_model = forget k s.os_model; os_prev = forget k s.os_prev;
                            os_expect = (if k = 1 then None else s.os_expect) }) s0 h in
  List.rev s.os_fail

let oracle_mode () =
  let case = ref "" in
  let behs : (int, behaviour) Hashtbl.t = Hashtbl.create 8 in
  let obs : (int, oitem list ref) Hashtbl.t = Hashtbl.create 8 in
  let wf : (int, bool ref) Hashtbl.t = Hashtbl.create 8 in
  let sizes : (int, (n * n) ref) Hashtbl.t = Hashtbl.create 8 in
  let canvases : (int, canvas) Hashtbl.t = Hashtbl.create 8 in
  let screens : (int, int) Hashtbl.t = Hashtbl.create 8 in
  let known_last : (int, bool) Hashtbl.t = Hashtbl.create 8 in
  let nfail = ref 0 in
  let flush_case () =
    Hashtbl.iter (fun id l ->
      let h = List.rev !l in
      let beh = Hashtbl.find behs id in
      let ct = !(Hashtbl.find wf id) in
      (* histories outside the hypotheses of the terminal-based theorems
         (non-displayable glyphs, positions outside the declared size, ...) are
         still judged on clause 1301 and 802, which need no reference terminal:
         the C13 theorems and C08_forgets_on_resize hold for every state *)
      List.iter (fun (name, wm, af, v0) ->
        let cfg = { wrap = wm; bce = true; unicode_all = beh.b_unicode_all } in
        let fails = oracle_items cfg beh af ct v0 h in
        let fails = if ct then fails else List.filter (fun (_, c) -> int_of_n c = 1301 || int_of_n c = 802) fails in
        let fails = if ct || name = "deferred/keep/clean" then fails else [] in
        List.iter (fun (i, c) ->
          (* D7 (known finding): on a terminal that wraps immediately, a draw
             that transmits the bottom-right cell scrolls the display.  Reported
             with its own marker so the harness can match it against
             known_findings.json. *)
          incr nfail;
          Printf.printf "FAIL case=%s term=%d cfg=%s op=%d code=%d\n" !case id name (int_of_n i) (int_of_n c)) fails)
        configs) obs;
    Hashtbl.reset behs; Hashtbl.reset obs; Hashtbl.reset wf; Hashtbl.reset sizes;
    Hashtbl.reset canvases; Hashtbl.reset screens; Hashtbl.reset known_last; Hashtbl.reset failnext; Hashtbl.reset manips in
  let pending : (int * oop) option ref = ref None in
  let wbytes = ref [] in
  (try while true do
    let line = input_line stdin in
    let n = String.length line in
    if n > 2 && line.[0] = '>' then begin
      let t = { v = split (String.sub line 2 (n - 2)); i = 0 } in
      pending := None;
      match str t with
      | "CASE" -> flush_case (); case := str t
      | "END" -> flush_case ()
      | "T" ->
          let id = num t in let name = str t in
          if name = "new" then begin
            Hashtbl.replace behs id (mk_beh (num t)); Hashtbl.replace obs id (ref []);
            Hashtbl.replace wf id (ref true); Hashtbl.replace sizes id (ref (N0, N0)) end
          else if name = "forget" then begin
            let k = num t in
            if k = 0 then Hashtbl.remove known_last id;
            let l = Hashtbl.find obs id in l := Forgets k :: !l end
          else if name = "failnext" then Hashtbl.replace failnext id true
          else if (name = "elem" || name = "str" || name = "move" || name = "hide" || name = "show") && (try Hashtbl.find failnext id with Not_found -> false) then
            (* an operation whose first write failed: it reached neither the terminal nor
               the library's belief, so it is no observation *)
            Hashtbl.replace failnext id false
          else (match parse_op name t with
                | Some o ->
                    let sz = Hashtbl.find sizes id in
                    (match o with SetSize s -> sz := s | _ -> ());
                    if not (wf_op_b !sz o) then (Hashtbl.find wf id) := false;
                    (* write_element used as a bare manipulator before anything
                       established the rendition is outside every property's
                       quantifier (they speak of elements and strings streamed
                       with operator<<) *)
                    (match o with
                     | WRaw _ -> if not (Hashtbl.mem known_last id) then (Hashtbl.find wf id) := false
                     | WElem _ | WStr _ | ODA | Erase _ -> Hashtbl.replace known_last id true
                     | _ -> ());
                    pending := Some (id, OTerm o)
                | None -> ())
      | "O" -> parse_manip t
      | "K" ->
          let id = num t in
          (match str t with
           | "new" -> let a = num t in let b = num t in Hashtbl.replace canvases id (blank_canvas (n_of_int a) (n_of_int b))
           | "set" -> let x = num t in let y = num t in let e = mk_elem t in
               Hashtbl.replace canvases id (cv_set (Hashtbl.find canvases id) (n_of_int x) (n_of_int y) e)
           | "resize" -> let a = num t in let b = num t in
               Hashtbl.replace canvases id (cv_resize (Hashtbl.find canvases id) (n_of_int a) (n_of_int b))
           | "copy" | "assign" -> Hashtbl.replace canvases id (Hashtbl.find canvases (num t))
           | "move" -> let from = num t in let c = Hashtbl.find canvases from in
               Hashtbl.remove canvases from; Hashtbl.replace canvases id c
           | "fill" -> let e = mk_elem t in let c = Hashtbl.find canvases id in
               Hashtbl.replace canvases id { c with grid = List.map (fun _ -> e) c.grid }
           | "iterset" -> let i = num t in let e = mk_elem t in let c = Hashtbl.find canvases id in
               Hashtbl.replace canvases id { c with grid = List.mapi (fun k x -> if k = i then e else x) c.grid }
           | "hold" -> let x = num t in let y = num t in Hashtbl.replace held id (x, y)
           | "heldset" -> ignore (num t); let e = mk_elem t in let (x, y) = Hashtbl.find held id in
               Hashtbl.replace canvases id (cv_set (Hashtbl.find canvases id) (n_of_int x) (n_of_int y) e)
           | _ -> ())
      | "S" ->
          let id = num t in
          (match str t with
           | "new" -> Hashtbl.replace screens id (num t)
           | "draw" ->
               let tid = Hashtbl.find screens id in
               let c = Hashtbl.find canvases (num t) in
               if not (List.for_all wf_elem c.grid) then (Hashtbl.find wf tid) := false;
               Hashtbl.replace known_last tid true;
               pending := Some (tid, ODraw c)
           | _ -> ())
      | _ -> ()
    end
    else if n > 1 && line.[0] = 'W' && line.[1] = ' ' then
      wbytes := unhex (String.sub line 2 (n - 2))
    else if n > 2 && line.[0] = 'S' && line.[1] = 'T' then begin
      match !pending with
      | Some (id, o) ->
          let l = Hashtbl.find obs id in
          l := Obs { o_op = o; o_bytes = !wbytes; o_st = parse_state line } :: !l;
          pending := None
      | None -> ()
    end
  done with End_of_file -> ());
  flush_case ();
  Printf.printf "ORACLE-DONE failures=%d\n" !nfail

(* ---- expand mode: items -> bytes + expected tokens (Proto.v) -------------------- *)
let opt_n i = if i < 0 then None else Some (n_of_int i)
let intro_of = function 0 -> I7 false | 1 -> I7 true | _ -> I8
let rec parse_items t acc =
  if t.i >= Array.length t.v then List.rev acc
  else begin
    ignore (str t);  (* "IT" *)
    let it = match str t with
      | "char" -> IChar (n_of_int (num t))
      | "enter" -> IEnter (match num t with 0 -> CrLf | 1 -> CrNul | 2 -> LfCr | 3 -> BareCr | _ -> BareLf)
      | "csikey" -> let i = num t in let f = num t in let r = num t in let m = num t in
          ICsiKey (intro_of i, n_of_int f, opt_n r, opt_n m)
      | "keypad" -> let i = num t in let n = num t in let m = num t in IKeypad (intro_of i, n_of_int n, opt_n m)
      | "ss3" -> let i = num t in let f = num t in ISs3 (intro_of i, n_of_int f)
      | "other" -> let i = num t in let mk = num t in let f = num t in let k = num t in
          let ps = List.init k (fun _ -> n_of_int (num t)) in
          ICsiOther (intro_of i, (if mk = 0 then None else Some (n_of_int mk)), ps, n_of_int f)
      | "mouse" -> let i = num t in let b = num t in let x = num t in let y = num t in
          IMouse (intro_of i, n_of_int b, n_of_int x, n_of_int y)
      | s -> failwith ("unknown item " ^ s) in
    parse_items t (it :: acc)
  end

let expand_mode () =
  (try while true do
    let line = input_line stdin in
    let t = { v = split line; i = 0 } in
    if Array.length t.v >= 3 && t.v.(0) = "T" && t.v.(2) = "items" then begin
      let id = t.v.(1) in
      t.i <- 3;
      let its = parse_items t [] in
      let ok = List.for_all wf_item its && adjacency_ok its in
      Printf.printf "# ITEMS %d wf=%d\n" (List.length its) (if ok then 1 else 0);
      List.iter (fun it -> Printf.printf "# EXPECT %s\n" (pr_token (tok it))) its;
      Printf.printf "T %s recv %s\n" id (hex (enc_all its))
    end else if Array.length t.v >= 5 && t.v.(0) = "T" && t.v.(2) = "itemsplit" then begin
      (* T id itemsplit <cut> <between|-> IT ... : the items' bytes delivered in two
         reads cut after <cut> bytes (modulo the length), with the terminal operation
         <between> (words joined by '_') issued between the two reads *)
      let id = t.v.(1) in
      let cut = int_of_string t.v.(3) in
      let between = t.v.(4) in
      t.i <- 5;
      let its = parse_items t [] in
      let ok = List.for_all wf_item its && adjacency_ok its in
      let bs = enc_all its in
      let n = List.length bs in
      let k = if n = 0 then 0 else cut mod (n + 1) in
      let rec take i l = if i = 0 then [] else match l with [] -> [] | x :: r -> x :: take (i - 1) r in
      let rec drop i l = if i = 0 then l else match l with [] -> [] | _ :: r -> drop (i - 1) r in
      Printf.printf "# ITEMS %d wf=%d split\n" (List.length its) (if ok then 1 else 0);
      List.iter (fun it -> Printf.printf "# EXPECT %s\n" (pr_token (tok it))) its;
      Printf.printf "T %s recv %s\n" id (hex (take k bs));
      if between <> "-" then Printf.printf "T %s %s\n" id (String.concat " " (String.split_on_char '_' between));
      Printf.printf "T %s recv %s\n" id (hex (drop k bs))
    end else print_endline line
  done with End_of_file -> ())

let () =
  let mode = if Array.length Sys.argv > 1 then Sys.argv.(1) else "model" in
  match mode with
  | "model" ->
      let w = new_world () in
      let out s = print_string s; print_char '\n' in
      (try while true do model_line out w (input_line stdin) done with End_of_file -> ())
  | "oracle" -> oracle_mode ()
  | "expand" -> expand_mode ()
  | _ -> prerr_endline "unknown mode"; exit 2
