(* Multi.v — several independent objects (terminals, screens, parsers, strings):
   a world is a family of object states indexed by an id, and every operation
   touches only the component it is addressed to.  Model + its frame theorem. *)
From TP Require Import Base.
Local Open Scope N_scope.

Section Multi.
Variables (S O Out : Type).
Variable stp : S -> O -> S * Out.

Definition mstep (w : N -> S) (io : N * O) : (N -> S) * (N * Out) :=
  let '(s', out) := stp (w (fst io)) (snd io) in
  (fun j => if j =? fst io then s' else w j, (fst io, out)).

Fixpoint mrun (w : N -> S) (sched : list (N * O)) : (N -> S) * list (N * Out) :=
  match sched with
  | [] => (w, [])
  | io :: r =>
      let '(w1, o1) := mstep w io in
      let '(w2, os) := mrun w1 r in (w2, o1 :: os)
  end.

Fixpoint srun (s : S) (ops : list O) : S * list Out :=
  match ops with
  | [] => (s, [])
  | o :: r =>
      let '(s1, out) := stp s o in
      let '(s2, outs) := srun s1 r in (s2, out :: outs)
  end.

Definition mine (i : N) {X} (l : list (N * X)) : list X :=
  map snd (filter (fun x => fst x =? i) l).

(* whatever the interleaving, object i ends in the state, and produces the
   outputs, of its solo run *)
Theorem interleaving_frame : forall sched w i,
  fst (mrun w sched) i = fst (srun (w i) (mine i sched)) /\
  mine i (snd (mrun w sched)) = snd (srun (w i) (mine i sched)).
Proof.
  induction sched as [|[j o] r IH]; intros w i; [split; reflexivity|].
  cbn [mrun]. unfold mstep. cbn [fst snd].
  destruct (stp (w j) o) as [s' out] eqn:E.
  specialize (IH (fun k => if k =? j then s' else w k) i).
  destruct (mrun (fun k => if k =? j then s' else w k) r) as [w2 os].
  cbn [fst snd] in *. unfold mine in *. cbn [filter fst].
  destruct (j =? i) eqn:Eji.
  - apply N.eqb_eq in Eji. subst j. cbn [map snd srun]. rewrite E.
    rewrite N.eqb_refl in IH.
    destruct (srun s' (map snd (filter (fun x => fst x =? i) r))) as [s2 outs].
    cbn [fst snd] in *. destruct IH as [H1 H2]. split; [exact H1|]. rewrite H2. reflexivity.
  - assert ((i =? j) = false) as Eij by (rewrite N.eqb_sym; exact Eji).
    rewrite Eij in IH. exact IH.
Qed.
End Multi.
