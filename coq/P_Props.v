(* P_Props.v — consequences of the step/history theorems used by the
   property statements C02, C09, C11, C13, C17. *)
From TP Require Import Base Elem Term VT Markup Oracle P_Dec P_VT P_Diff P_Sync P_Step P_Bytes P_Run.
From Coq Require Import ZArith Lia ZifyBool ZifyN ZifyNat.
Local Open Scope N_scope.

(* ---- C02: consecutive placement --------------------------------------------------- *)
Fixpoint row_positions (x y : N) (n : nat) : list pt :=
  match n with O => [] | S k => (x, y) :: row_positions (x + 1) y k end.

Lemma adv_some w x y : x + 1 < w -> adv w (Some (x, y)) = Some (x + 1, y).
Proof. intros H. cbn [adv]. assert ((x + 1 =? w) = false) as -> by lia. reflexivity. Qed.

Lemma placed_none_nil w c tr : placed w c [] tr -> tr = [].
Proof. inversion 1. reflexivity. Qed.

Definition no_ctl (es : list element) : Prop :=
  forallb (fun e => negb (is_control_glyph (eg e))) es = true.

Lemma placed_positions w : forall es x y tr,
  placed w (Some (x, y)) es tr -> no_ctl es -> x + N.of_nat (length es) <= w ->
  map fst tr = row_positions x y (length es).
Proof.
  unfold no_ctl. induction es as [|e es IH]; intros x y tr Hp Hnc Hlen.
  - apply placed_none_nil in Hp. subst. reflexivity.
  - cbn [forallb] in Hnc. apply andb_prop in Hnc as [Hne Hnc]. apply negb_true_iff in Hne.
    inversion Hp as [|c e' es' q tr' Hc Hq Hrest|c e' es' tr' Hc Hrest]; subst; [|congruence].
    cbn [map fst length row_positions].
    rewrite (Hq (x, y) eq_refl). f_equal.
    destruct es as [|e2 es2].
    + apply placed_none_nil in Hrest. subst. reflexivity.
    + cbn [length] in Hlen. rewrite adv_some in Hrest by lia. apply IH; [exact Hrest|exact Hnc|cbn [length]; lia].
Qed.

Lemma no_ctl_visible es : no_ctl es -> visible es = es.
Proof.
  unfold no_ctl, visible. induction es as [|e r IH]; [reflexivity|].
  cbn [forallb filter]. intros H. apply andb_prop in H as [He Hr]. rewrite He, (IH Hr). reflexivity.
Qed.

Lemma wf_elems_no_ctl es : forallb wf_elem es = true -> no_ctl es.
Proof.
  unfold no_ctl. induction es as [|e r IH]; [reflexivity|]. cbn [forallb]. intros H.
  apply andb_prop in H as [He Hr]. rewrite (wf_elem_not_control _ He), (IH Hr). reflexivity.
Qed.

Lemma wf_elems_c es : forallb wf_elem es = true -> forallb wf_elem_c es = true.
Proof.
  induction es as [|e r IH]; [reflexivity|]. cbn [forallb]. intros H.
  apply andb_prop in H as [He Hr]. rewrite (wf_elem_wf_elem_c _ He), (IH Hr). reflexivity.
Qed.

(* ---- C11: modes as a function of the requests ---------------------------------------- *)
Definition modes := (bool * bool * bool * bool * list byte)%type.

Definition modes_after (beh : behaviour) (m : modes) (o : op) : modes :=
  let '(vi, m0, m3, ab, ti) := m in
  match o with
  | Show => (true, m0, m3, ab, ti)
  | Hide => (false, m0, m3, ab, ti)
  | MouseOn => match mouse_mode beh with
               | Some 1000 => (vi, true, m3, ab, ti)
               | Some _ => (vi, m0, true, ab, ti)
               | None => m
               end
  | MouseOff => match mouse_mode beh with
                | Some 1000 => (vi, false, m3, ab, ti)
                | Some _ => (vi, m0, false, ab, ti)
                | None => m
                end
  | BufNormal => (vi, m0, m3, false, ti)
  | BufAlt => (vi, m0, m3, true, ti)
  | Title t => if b_title_bel beh || b_title_st beh then (vi, m0, m3, ab, t) else m
  | _ => m
  end.

Lemma op_modes_after beh v o : op_modes beh v o = modes_after beh (modes_of v) o.
Proof.
  unfold op_modes, modes_after, modes_of, set_vis_modes, mouse_modes, title_modes, modes_of.
  destruct o; try reflexivity.
Qed.

Definition hist_modes (beh : behaviour) (h : list hop) (m : modes) : modes :=
  fold_left (fun m x => match x with HOp o => modes_after beh m o | HResize _ _ => m end) h m.

Section Modes.
Variable cfg : vtcfg.
Variable beh : behaviour.
Hypothesis Huni : b_unicode_all beh = true -> unicode_all cfg = true.

Lemma modes_hrun : forall h st v,
  Sync beh st v -> wf_hist beh st h ->
  modes_of (snd (hrun cfg beh st v h)) = hist_modes beh h (modes_of v).
Proof.
  induction h as [|x r IH]; intros st v S Hwf; [reflexivity|].
  cbn [wf_hist] in Hwf. destruct Hwf as [Hx Hr].
  unfold hrun, hist_modes. cbn [fold_left hstep].
  destruct x as [o|sz a]; cbn [hop_op] in Hr.
  - pose proof (sync_step cfg beh Huni st v o S Hx) as H. cbv zeta in H.
    destruct H as (S1 & _ & Hm).
    specialize (IH _ _ S1 Hr). unfold hrun, hist_modes in IH. rewrite IH, Hm, op_modes_after. reflexivity.
  - destruct (sync_resize beh st v sz a S) as (S1 & _ & Hm).
    specialize (IH _ _ S1 Hr). unfold hrun, hist_modes in IH. rewrite IH, Hm. reflexivity.
Qed.
End Modes.

(* ---- C17: text ---------------------------------------------------------------------------- *)
Lemma wire_text g : cs_eqb (gcs g) CsUtf8 = false \/ wf_utf8 g = true -> wire g = glyph_text g.
Proof.
  unfold wire, glyph_text, utf8_len, hi. intros [H|H].
  - rewrite H. reflexivity.
  - destruct (cs_eqb (gcs g) CsUtf8); [|reflexivity].
    unfold wf_utf8, cont in H.
    destruct (128 <=? g0 g) eqn:E0; cbn [negb].
    + destruct (128 <=? g1 g) eqn:E1; cbn [negb].
      * destruct (128 <=? g2 g) eqn:E2; cbn [negb].
        -- assert ((g1 g =? 0) = false) as -> by lia. assert ((g2 g =? 0) = false) as -> by lia. reflexivity.
        -- assert ((g1 g =? 0) = false) as -> by lia. assert ((g2 g =? 0) = true) as -> by lia. reflexivity.
      * exfalso. lia.
    + assert ((g1 g =? 0) = true) as -> by lia. reflexivity.
Qed.

Lemma displayable_wf g : displayable g = true ->
  cs_eqb (gcs g) CsUtf8 = false \/ wf_utf8 g = true.
Proof.
  unfold displayable. destruct (cs_eqb (gcs g) CsUtf8); [|left; reflexivity].
  intros H. apply andb_prop in H as [H _]. right. exact H.
Qed.

Lemma display_bytes e : wf_elem e = true -> c_bytes (display_of e) = glyph_text (eg e).
Proof.
  unfold wf_elem. intros H. apply andb_prop in H as [H _]. apply andb_prop in H as [H _].
  unfold display_of. destruct (cs_eqb (gcs (eg e)) CsUtf8) eqn:E; cbn [c_bytes].
  - apply wire_text. apply displayable_wf. exact H.
  - unfold glyph_text. rewrite E. reflexivity.
Qed.

Lemma to_string_app a b : to_string (a ++ b) = to_string a ++ to_string b.
Proof. unfold to_string. apply flat_map_app. Qed.

Lemma to_string_of_bytes bs : to_string (of_bytes bs) = bs.
Proof.
  induction bs as [|b r IH]; [reflexivity|].
  change (to_string (of_bytes (b :: r))) with ([b] ++ to_string (of_bytes r)).
  rewrite IH. reflexivity.
Qed.

Lemma wf_elem_c_visible e : wf_elem_c e = true -> is_control_glyph (eg e) = false -> wf_elem e = true.
Proof.
  intros H Hc. apply wf_elem_c_cases in H. destruct H as [H|(Hfe & _)]; [exact H|].
  unfold format_effector in Hfe. apply andb_prop in Hfe as [Hfe _].
  unfold is_control_glyph in Hc. lia.
Qed.

(* the text a terminal receives for a string: control characters are not glyphs *)
Lemma placed_text w c es tr : placed w c es tr -> forallb wf_elem_c es = true ->
  flat_map (fun pc => c_bytes (snd pc)) tr = to_string (visible es).
Proof.
  induction 1 as [|c e es q tr Hc Hq Hrest IH|c e es tr Hc Hrest IH]; intros Hwf; [reflexivity| |];
    cbn [forallb] in Hwf; apply andb_prop in Hwf as [He Hes]; unfold visible; cbn [filter]; rewrite Hc; cbn [negb].
  - cbn [flat_map snd]. rewrite (display_bytes e (wf_elem_c_visible e He Hc)).
    fold (visible es). rewrite (IH Hes). reflexivity.
  - fold (visible es). exact (IH Hes).
Qed.

(* ---- C17: the payload of a write is the text, whatever the glyphs are ------------------ *)
Definition payload_of (cs : list cmd) : list byte :=
  flat_map (fun c => match c with Payload bs => bs | _ => [] end) cs.

Lemma payload_of_app a b : payload_of (a ++ b) = payload_of a ++ payload_of b.
Proof. unfold payload_of. apply flat_map_app. Qed.

Lemma payload_of_ctl cs : forallb ctl_ok cs = true -> payload_of cs = [].
Proof.
  induction cs as [|c r IH]; [reflexivity|]. cbn [forallb]. intros H. apply andb_prop in H as [Hc Hr].
  unfold payload_of in *. cbn [flat_map]. rewrite (IH Hr). destruct c; try reflexivity. discriminate.
Qed.

Lemma payload_write_element beh st e : payload_of (snd (write_element beh st e)) = wire (eg e).
Proof.
  unfold write_element. cbn [snd]. rewrite app_assoc, payload_of_app.
  rewrite payload_of_ctl by (rewrite forallb_app, ctl_change_charset, ctl_change_attribute; reflexivity).
  cbn. apply app_nil_r.
Qed.

Lemma payload_write_elements beh : forall es st,
  payload_of (snd (write_elements beh st es)) = flat_map (fun e => wire (eg e)) es.
Proof.
  induction es as [|e r IH]; intros st; [reflexivity|].
  cbn [write_elements flat_map].
  pose proof (payload_write_element beh st e) as H1.
  destruct (write_element beh st e) as [st1 c1]. cbn [snd] in H1.
  specialize (IH st1). destruct (write_elements beh st1 r) as [st2 c2]. cbn [snd] in *.
  rewrite payload_of_app, H1, IH. reflexivity.
Qed.
