(* Properties_C05.v — C05: well-formed keyboard, mouse and control input decodes
   to exactly what was sent. *)
From TP Require Import Base Parser Proto P_Dec P_Parser P_Items Tie_Input.
Local Open Scope N_scope.

(* Any concatenation of well-formed items (Proto.v: plain bytes, the five forms of
   Enter, CSI cursor keys with optional repeat count and modifier code, keypad /
   function keys CSI n ~, SS3 keys, other CSI sequences with parameters and private
   markers, X10 mouse reports; 7-bit with optional meta prefix or 8-bit) that
   respects the CR/LF adjacency rule is reported as exactly one token per item, in
   order, each being the token the protocol prescribes (key, modifiers, repeat
   count, mouse button and zero-based position, original sequence). *)
Theorem C05_decode :
  forall its, forallb wf_item its = true -> adjacency_ok its = true ->
    snd (deliver init_pstate (enc_all its)) = map tok its.
Proof.
  intros its Hwf Hadj. apply items_decode; [exact Hwf|exact Hadj|].
  destruct its; exact I.
Qed.
Print Assumptions C05_decode.

(* the same from any state the decoder can be left in by previous complete items
   (at rest, or just after a bare CR / bare LF that the next item does not extend) *)
Theorem C05_decode_from_rest :
  forall its s, forallb wf_item its = true -> adjacency_ok its = true ->
    match its with [] => True | it :: _ => rest_ok s (first_byte it) end ->
    snd (deliver s (enc_all its)) = map tok its.
Proof. exact items_decode. Qed.
Print Assumptions C05_decode_from_rest.

(* The decoding of an item never depends on the items that preceded it: from
   every state at rest - whatever its scratch fields hold - every byte string is
   decoded exactly as by a fresh decoder. *)
Theorem C05_item_independent :
  forall s bs, p_st s = PIdle ->
    snd (deliver s bs) = snd (deliver init_pstate bs).
Proof.
  intros s bs H. unfold deliver.
  destruct (idle_like_fresh s bs H) as [H1 _].
  destruct (feed s bs), (feed init_pstate bs). cbn [snd] in *. rewrite H1. reflexivity.
Qed.
Print Assumptions C05_item_independent.

(* modifier codes follow xterm: code-1 is the mask shift=1, alt=2, ctrl=4,
   meta=8, mapped to the library's bits shift=1, ctrl=2, alt=4, meta=8 *)
Theorem C05_modifiers :
  forall c, (1 <=? c) && (c <=? 16) = true -> convert_modifier (show_N c) = xterm_mods c.
Proof. exact convert_modifier_ok. Qed.
Print Assumptions C05_modifiers.

Example C05_nonvacuous :
  let its := [IChar 97; IEnter CrLf; ICsiKey (I7 true) 65 (Some 5) (Some 6);
              IKeypad I8 15 None; ISs3 (I7 false) 80;
              ICsiOther (I7 false) (Some 63) [25; 7] 104; IMouse I8 64 10 200;
              IEnter BareCr; IChar 200] in
  forallb wf_item its = true /\ adjacency_ok its = true /\
  length (snd (deliver init_pstate (enc_all its))) = 9%nat.
Proof. vm_compute. repeat split. Qed.
