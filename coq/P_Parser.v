(* P_Parser.v — the input decoder: chunking, state equivalence (no leak between
   items), resynchronisation, and decoding of every well-formed item. *)
From TP Require Import Base Parser Proto P_Dec.
From Coq Require Import ZArith Lia ZifyBool ZifyN.
Local Open Scope N_scope.
Local Arguments N.eqb : simpl never.
Local Arguments N.leb : simpl never.
Local Arguments N.ltb : simpl never.
Local Arguments N.add : simpl never.
Local Arguments N.sub : simpl never.

(* ---- feed over concatenation / chunking (C06) -------------------------------- *)
Lemma feed_app : forall a s b,
  feed s (a ++ b) =
  (fst (feed (fst (feed s a)) b), snd (feed s a) ++ snd (feed (fst (feed s a)) b)).
Proof.
  induction a as [|x a IH]; intros s b.
  - cbn [app feed fst snd]. destruct (feed s b); reflexivity.
  - cbn [app feed]. destruct (pstep s x) as [s1 t].
    rewrite IH. destruct (feed s1 a) as [s2 ta]. cbn [fst snd].
    destruct (feed s2 b) as [s3 tb]. cbn [fst snd]. destruct t; reflexivity.
Qed.

Lemma deliver_app s a b :
  deliver s (a ++ b) =
  (fst (deliver (fst (deliver s a)) b), snd (deliver s a) ++ snd (deliver (fst (deliver s a)) b)).
Proof.
  unfold deliver. rewrite feed_app.
  destruct (feed s a) as [s1 ta]. cbn [fst snd]. destruct (feed s1 b) as [s2 tb]. cbn [fst snd].
  rewrite map_app. reflexivity.
Qed.

Lemma deliver_all_concat : forall chunks s,
  fst (deliver_all s chunks) = fst (deliver s (concat chunks)) /\
  concat (snd (deliver_all s chunks)) = snd (deliver s (concat chunks)) /\
  length (snd (deliver_all s chunks)) = length chunks.
Proof.
  induction chunks as [|c r IH]; intros s.
  - cbn. repeat split.
  - cbn [deliver_all concat]. rewrite deliver_app.
    destruct (deliver s c) as [s1 cb]. cbn [fst snd].
    destruct (IH s1) as (H1 & H2 & H3).
    destruct (deliver_all s1 r) as [s2 cbs]. cbn [fst snd concat length] in *.
    rewrite H1, H2, H3. repeat split.
Qed.

(* ---- state equivalence: what a state can still read ---------------------------- *)
Definition sim (a b : pstate) : Prop :=
  p_st a = p_st b /\
  match p_st a with
  | PIdle | PCr | PLf | PMouse0 => True
  | PEscape => p_ext a = p_ext b /\ p_meta a = p_meta b /\ p_arg a = p_arg b /\ p_args a = p_args b
  | PArguments =>
      p_init a = p_init b /\ p_ext a = p_ext b /\ p_meta a = p_meta b /\
      p_arg a = p_arg b /\ p_args a = p_args b
  | PMouse1 => p_mev a = p_mev b
  | PMouse2 => p_mev a = p_mev b /\ p_mx a = p_mx b
  end.

Lemma sim_parse_idle a b x :
  snd (parse_idle a x) = snd (parse_idle b x) /\
  sim (fst (parse_idle (set_st a PIdle) x)) (fst (parse_idle (set_st b PIdle) x)).
Proof.
  unfold parse_idle, sim.
  repeat match goal with |- context[if ?c then _ else _] => destruct c end;
    cbn; repeat split; reflexivity.
Qed.

Lemma sim_step a b x : sim a b ->
  snd (pstep a x) = snd (pstep b x) /\ sim (fst (pstep a x)) (fst (pstep b x)).
Proof.
  intros [Hst H]. unfold pstep. rewrite <- Hst.
  destruct (p_st a) eqn:Ea.
  - (* idle *)
    destruct (sim_parse_idle a b x) as [H1 _]. split; [exact H1|].
    unfold parse_idle, sim.
    repeat match goal with |- context[if ?c then _ else _] => destruct c end;
      cbn; rewrite <- ?Hst, ?Ea; repeat split; reflexivity.
  - destruct ((x =? 10) || (x =? 0)).
    + cbn. split; [reflexivity|]. split; reflexivity.
    + destruct (sim_parse_idle (set_st a PIdle) (set_st b PIdle) x) as [H1 H2].
      split; [exact H1|exact H2].
  - destruct (x =? 13).
    + cbn. split; [reflexivity|]. split; reflexivity.
    + destruct (sim_parse_idle (set_st a PIdle) (set_st b PIdle) x) as [H1 H2].
      split; [exact H1|exact H2].
  - destruct H as (H1 & H2 & H3 & H4).
    destruct (x =? 27); cbn; (split; [reflexivity|]); unfold sim; cbn; repeat split; assumption.
  - destruct H as (H0 & H1 & H2 & H3 & H4).
    rewrite <- H0, <- H1, <- H2, <- H3, <- H4.
    repeat match goal with |- context[if ?c then _ else _] => destruct c end;
      cbn; (split; [reflexivity|]); unfold sim; cbn; repeat split; reflexivity.
  - cbn. split; [reflexivity|]. unfold sim. cbn. split; reflexivity.
  - cbn. split; [reflexivity|]. unfold sim. cbn. repeat split; assumption.
  - destruct H as [H1 H2]. rewrite <- H1, <- H2. cbn. split; [reflexivity|]. unfold sim. cbn. split; reflexivity.
Qed.

Lemma sim_feed : forall bs a b, sim a b ->
  snd (feed a bs) = snd (feed b bs) /\ sim (fst (feed a bs)) (fst (feed b bs)).
Proof.
  induction bs as [|x r IH]; intros a b H; [split; [reflexivity|exact H]|].
  cbn [feed]. destruct (sim_step a b x H) as [H1 H2].
  destruct (pstep a x) as [a1 ta], (pstep b x) as [b1 tb]. cbn [fst snd] in *. subst tb.
  destruct (IH a1 b1 H2) as [H3 H4].
  destruct (feed a1 r) as [a2 tsa], (feed b1 r) as [b2 tsb]. cbn [fst snd] in *. subst tsb.
  split; [reflexivity|exact H4].
Qed.

(* every state that is at rest decodes all future input exactly like a fresh one *)
Theorem idle_like_fresh s bs : p_st s = PIdle ->
  snd (feed s bs) = snd (feed init_pstate bs) /\
  p_st (fst (feed s bs)) = p_st (fst (feed init_pstate bs)).
Proof.
  intros H. assert (S : sim s init_pstate) by (unfold sim; rewrite H; split; reflexivity).
  destruct (sim_feed bs s init_pstate S) as [H1 [H2 _]]. split; assumption.
Qed.

(* ---- resynchronisation (C07) ----------------------------------------------------- *)
Definition letter (b : byte) : bool :=
  ((65 <=? b) && (b <=? 90)) || ((97 <=? b) && (b <=? 122)).

Lemma letter_facts b : letter b = true ->
  is_digit b = false /\ (b =? 59) = false /\ is_ext b = false /\ (b =? 27) = false /\
  (b =? 13) = false /\ (b =? 10) = false /\ (b =? 155) = false /\ (b =? 143) = false /\
  (b =? 0) = false /\ (b =? 91) = false.
Proof. unfold letter, is_digit, is_ext. intros H. repeat split; lia. Qed.

Definition rank (s : pstate) : nat :=
  match p_st s with
  | PIdle => 0 | PCr => 1 | PLf => 1
  | PEscape => 2
  | PArguments => if p_init s =? 91 then 4 else 1
  | PMouse0 => 3 | PMouse1 => 2 | PMouse2 => 1
  end.

Lemma letter_step s b : letter b = true -> (rank (fst (pstep s b)) <= pred (rank s))%nat.
Proof.
  intros L. destruct (letter_facts b L) as (D & S59 & E & E27 & E13 & E10 & E155 & E143 & E0 & E91).
  unfold rank at 2. unfold pstep, parse_idle.
  destruct (p_st s) eqn:Es; rewrite ?D, ?S59, ?E, ?E27, ?E13, ?E10, ?E155, ?E143, ?E0;
    cbn [orb andb fst]; unfold rank; cbn [p_st p_init set_st fst].
  - rewrite Es. lia.
  - rewrite ?D, ?S59, ?E, ?E27, ?E13, ?E10, ?E155, ?E143, ?E0. cbn [p_st set_st fst]. lia.
  - rewrite ?D, ?S59, ?E, ?E27, ?E13, ?E10, ?E155, ?E143, ?E0. cbn [p_st set_st fst]. lia.
  - rewrite E91. lia.
  - destruct (p_init s =? 91) eqn:Ei.
    + destruct (b =? 77); cbn [andb fst p_st p_init set_st]; lia.
    + rewrite andb_false_r. cbn [fst p_st p_init]. lia.
  - lia.
  - lia.
  - lia.
Qed.

Lemma letters_resync : forall ls s,
  forallb letter ls = true -> (rank s <= length ls)%nat -> p_st (fst (feed s ls)) = PIdle.
Proof.
  induction ls as [|b r IH]; intros s HL Hr.
  - cbn in *. unfold rank in Hr. destruct (p_st s) eqn:E; try reflexivity; try (cbn in Hr; lia).
    destruct (p_init s =? 91); lia.
  - cbn [forallb] in HL. apply andb_prop in HL as [Hb Hrest].
    cbn [feed]. pose proof (letter_step s b Hb) as Hs.
    destruct (pstep s b) as [s1 t]. cbn [fst] in Hs.
    specialize (IH s1 Hrest). destruct (feed s1 r) as [s2 ts]. cbn [fst] in *.
    apply IH. cbn [length] in Hr. lia.
Qed.

Lemma rank_le_4 s : (rank s <= 4)%nat.
Proof. unfold rank. destruct (p_st s); try lia. destruct (p_init s =? 91); lia. Qed.

Theorem resync s l1 l2 l3 l4 :
  letter l1 = true -> letter l2 = true -> letter l3 = true -> letter l4 = true ->
  p_st (fst (feed s [l1; l2; l3; l4])) = PIdle.
Proof.
  intros H1 H2 H3 H4. apply letters_resync.
  - cbn. rewrite H1, H2, H3, H4. reflexivity.
  - apply rank_le_4.
Qed.

(* "four" is tight *)
Example resync_tight :
  p_st (fst (feed (mkP PArguments 91 0 false 0 0%Z 0%Z [] []) [77; 65; 65])) <> PIdle.
Proof. cbn. discriminate. Qed.

(* ---- index-safety obligations of well_known_virtual_key.cpp ------------------------ *)
(* every control sequence the parser emits has at least one argument (so
   arguments[0] exists) and its arguments consist of digits only (so the
   conversion to int reads a digit string) *)
Definition digits_inv (s : pstate) : Prop :=
  forallb is_digit (p_arg s) = true /\ forallb (forallb is_digit) (p_args s) = true.

Definition cseq_ok (c : cseq) : Prop :=
  cs_args c <> [] /\ forallb (forallb is_digit) (cs_args c) = true.

Lemma pstep_digits s b : digits_inv s ->
  digits_inv (fst (pstep s b)) /\
  (forall c, snd (pstep s b) = Some (TCtl c) -> cseq_ok c).
Proof.
  intros [Ha Has]. unfold pstep, parse_idle, digits_inv, cseq_ok.
  destruct (p_st s);
    repeat match goal with |- context[if ?c then _ else _] => destruct c eqn:? end;
    cbn [fst snd p_arg p_args set_st]; (split; [split|intros c Hc; inversion Hc; subst; cbn [cs_args]]);
    rewrite ?forallb_app; cbn [forallb]; rewrite ?Ha, ?Has; try reflexivity; try discriminate;
    try match goal with H : is_digit _ = true |- _ => rewrite H end; try reflexivity.
  all: split; [destruct (p_args s); discriminate|reflexivity].
Qed.

Lemma feed_digits : forall bs s, digits_inv s ->
  digits_inv (fst (feed s bs)) /\
  (forall c, In (TCtl c) (snd (feed s bs)) -> cseq_ok c).
Proof.
  induction bs as [|b r IH]; intros s H; [split; [exact H|intros c []]|].
  cbn [feed]. destruct (pstep_digits s b H) as [H1 H2].
  destruct (pstep s b) as [s1 t]. cbn [fst snd] in *.
  destruct (IH s1 H1) as [H3 H4]. destruct (feed s1 r) as [s2 ts]. cbn [fst snd] in *.
  split; [exact H3|]. intros c Hin. destruct t as [x|]; [|exact (H4 c Hin)].
  destruct Hin as [Hx|Hin]; [|exact (H4 c Hin)]. subst x. apply H2. reflexivity.
Qed.
