(* Base.v — bytes, decimal printing/reading, small list helpers.
   Model file: definitions only, no proofs (proofs live in P_*.v). *)
From Coq Require Export NArith List Bool.
Export ListNotations.
Local Open Scope N_scope.

Notation byte := N (only parsing).

(* ---- decimal ---------------------------------------------------------- *)
(* fmt::format("{}", int) for a non-negative int: minimal decimal. *)
Fixpoint show_aux (fuel : nat) (n : N) (acc : list byte) : list byte :=
  match fuel with
  | O => acc
  | S f =>
      let acc' := (48 + n mod 10) :: acc in
      if n / 10 =? 0 then acc' else show_aux f (n / 10) acc'
  end.

Definition show_N (n : N) : list byte := show_aux (S (N.to_nat (N.log2 n))) n [].

Definition is_digit (b : byte) : bool := (48 <=? b) && (b <=? 57).

(* value of a digit string, most significant first, starting from acc *)
Fixpoint read_digits (acc : N) (ds : list byte) : N :=
  match ds with
  | [] => acc
  | d :: r => read_digits (acc * 10 + (d - 48)) r
  end.

Fixpoint intercalate {A} (sep : list A) (ls : list (list A)) : list A :=
  match ls with
  | [] => []
  | [l] => l
  | l :: r => l ++ sep ++ intercalate sep r
  end.

Definition opt_eqb {A} (eqb : A -> A -> bool) (a b : option A) : bool :=
  match a, b with
  | Some x, Some y => eqb x y
  | None, None => true
  | _, _ => false
  end.

Fixpoint list_eqb {A} (eqb : A -> A -> bool) (a b : list A) : bool :=
  match a, b with
  | [], [] => true
  | x :: a', y :: b' => eqb x y && list_eqb eqb a' b'
  | _, _ => false
  end.

Definition pt := (N * N)%type.   (* (x, y) *)
Definition pt_eqb (a b : pt) : bool := (fst a =? fst b) && (snd a =? snd b).
