(* Properties_C15.v -- placeholder, theorems follow *)
From TP Require Import Term.
