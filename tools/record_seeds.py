#!/usr/bin/env python3
"""Copies the validated seeded changes into /verif/seeded/<id>/ with meta.json."""
import glob, json, os, re, shutil, subprocess
V = os.path.dirname(os.path.dirname(os.path.abspath(__file__)))
head = subprocess.run(["git", "-C", "/repo", "rev-parse", "--short", "HEAD"], stdout=subprocess.PIPE, text=True).stdout.strip()
rows = []
import sys
ROOT = sys.argv[1] if len(sys.argv) > 1 else "/tmp/wt"
TAG = {"/tmp/wt": "", "/tmp/wt2": "r2-", "/tmp/wt3": "r3-", "/tmp/wt4": "r4-", "/tmp/wt5": "r5-", "/tmp/wt6": "r6-", "/tmp/wt7": "r7-"}[ROOT]
for d in sorted(glob.glob(ROOT + "/C*.out/seed*")):
    prop = re.search(r"/(C\d+)\.out/", d).group(1)
    k = d[-1]
    name = "%s-%sseed%s" % (prop, TAG, k)
    res = {}
    rp = "/tmp/val/%s.result" % name
    if os.path.exists(rp):
        for l in open(rp):
            if "=" in l:
                a, b = l.strip().split("=", 1)
                res[a] = b
    ok = res.get("builds") == "yes" and "PASSED" in res.get("tests", "") and res.get("demo_with_patch_exit") not in (None, "0") and res.get("demo_without_patch_exit") == "0"
    if not ok:
        print("skip (not validated):", name, res)
        continue
    out = os.path.join(V, "seeded", name)
    os.makedirs(out, exist_ok=True)
    for f in ("patch.diff", "demo.cpp", "README.md"):
        if os.path.exists(os.path.join(d, f)):
            shutil.copy(os.path.join(d, f), out)
    chk = open("/tmp/val/%s.check" % name).read().strip() if os.path.exists("/tmp/val/%s.check" % name) else ""
    readme = open(os.path.join(d, "README.md")).read() if os.path.exists(os.path.join(d, "README.md")) else ""
    m = re.search(r"VIOLATION property=(\S+) replay=(\S+)( no-failing-input-found)?", chk)
    meta = {
        "property": prop,
        "source": "independent sub-agent given only the property text and a scratch worktree of /repo at %s" % head,
        "what_it_needs_to_manifest": " ".join(readme.split())[:900],
        "validated_by_me": {
            "worktree": "/tmp/val/wt (scratch, removed afterwards)",
            "commands": ["git apply patch.diff", "cmake --build _build", "./_build/terminalpp_tester", "g++ demo.cpp libterminalpp.a -lfmt && ./demo", "git checkout -- . ; rebuild ; ./demo"],
            "builds": res.get("builds"), "test_suite": res.get("tests"),
            "demo_exit_with_patch": res.get("demo_with_patch_exit"), "demo_exit_without_patch": res.get("demo_without_patch_exit")},
        "my_check": {"command": "git -C /repo apply patch.diff && bin/check %s ; git -C /repo checkout -- ." % prop,
                     "result": chk[:400],
                     "caught": bool(m), "with_failing_input": bool(m) and not m.group(3)},
    }
    if os.path.exists(os.path.join(d, "patch.original.diff")):
        shutil.copy(os.path.join(d, "patch.original.diff"), out)
        meta["note"] = "patch.diff is the sub-agent's change ported by hand to the current HEAD (the original, patch.original.diff, no longer applied after a later fix: commit touched the same lines)"
    json.dump(meta, open(os.path.join(out, "meta.json"), "w"), indent=1)
    rows.append((name, meta["my_check"]["caught"], meta["my_check"]["with_failing_input"], (m.group(2) if m else "")))
for r in rows:
    print(r)
