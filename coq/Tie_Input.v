(* Tie_Input.v — constants and enumerator values used by the input model. *)
From TP Require Import Parser Generated.
Local Open Scope N_scope.

Lemma tie_input_constants :
  g_control7_csi = [27; 91] /\ g_control7_ss3 = [27; 79] /\
  g_control8_csi = 155 /\ g_control8_ss3 = 143 /\ g_ps = 59 /\ g_esc = 27 /\
  g_cr = 13 /\ g_lf = 10 /\ g_nul = 0 /\
  [g_question_mark; g_greater_than; g_exclamation_mark] = [63; 62; 33] /\
  g_csi_mouse_tracking = 77 /\ g_csi_keypad_function = 126 /\
  g_mouse_value_offset = 32.
Proof. vm_compute. repeat split. Qed.

Lemma tie_vk_values :
  g_vk_abstract =
    [vk_cursor_up; vk_cursor_down; vk_cursor_left; vk_cursor_right; vk_home; vk_ins;
     vk_end; vk_pgup; vk_pgdn; vk_bt; vk_enter; vk_f1; vk_f2; vk_f3; vk_f4; vk_f5;
     vk_f6; vk_f7; vk_f8; vk_f9; vk_f10; vk_f11; vk_f12] /\
  g_vk_misc = [vk_ht; vk_del; 10; 13; 27; 1] /\
  g_vk_modifier_bits = [0; 1; 2; 4; 8].
Proof. vm_compute. repeat split. Qed.

(* tables that live inside the .cpp files are tied by exhaustive
   correspondence (see DESIGN.md); the constants they are built from are tied
   here *)
Lemma tie_key_tables :
  map cursor_key [g_csi_cursor_up; g_csi_cursor_down; g_csi_cursor_forward;
                  g_csi_cursor_backward; g_csi_cursor_home; g_csi_cursor_end;
                  g_csi_cursor_tabulation; g_csi_cursor_backward_tabulation]
  = map Some [vk_cursor_up; vk_cursor_down; vk_cursor_right; vk_cursor_left;
              vk_home; vk_end; vk_ht; vk_bt] /\
  map ss3_key g_ss3_codes
  = map Some [vk_cursor_up; vk_cursor_down; vk_cursor_right; vk_cursor_left; vk_home;
              vk_end; vk_ht; vk_enter; vk_f1; vk_f2; vk_f3; vk_f4] /\
  map (fun c => keypad_key (Z.of_N c)) g_keypad_codes
  = map Some [vk_home; vk_ins; vk_del; vk_end; vk_pgup; vk_pgdn; vk_f1; vk_f2; vk_f3;
              vk_f4; vk_f5; vk_f6; vk_f7; vk_f8; vk_f9; vk_f10; vk_f11; vk_f12] /\
  map (fun c => convert_modifier (show_N c)) g_modifier_codes
  = [1; 4; 5; 2; 3; 6; 7; 8; 9; 12; 13; 10; 11; 14; 15] /\
  map mouse_event_of (map (fun c => c + 32) g_mouse_codes) = g_mouse_event_types.
Proof. vm_compute. repeat split. Qed.
