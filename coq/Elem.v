(* Elem.v — model of character_set.hpp, glyph.hpp, colour.hpp, effect.hpp,
   attribute.hpp, element.hpp.  Definitions only. *)
From TP Require Export Base.
Local Open Scope N_scope.

(* ---- character sets (enum order of charset in character_set.hpp) ------ *)
Inductive charset :=
| CsDec | CsDecSup | CsDecSupGr | CsDecTech | CsUk | CsAscii | CsDutch
| CsFinnish | CsFrench | CsFrenchCa | CsGerman | CsItalian | CsDanish
| CsPortuguese | CsSpanish | CsSwedish | CsSwiss | CsSco | CsUtf8.

Definition all_charsets : list charset :=
  [CsDec; CsDecSup; CsDecSupGr; CsDecTech; CsUk; CsAscii; CsDutch; CsFinnish;
   CsFrench; CsFrenchCa; CsGerman; CsItalian; CsDanish; CsPortuguese;
   CsSpanish; CsSwedish; CsSwiss; CsSco; CsUtf8].

Definition cs_index (c : charset) : N :=
  match c with
  | CsDec => 0 | CsDecSup => 1 | CsDecSupGr => 2 | CsDecTech => 3 | CsUk => 4
  | CsAscii => 5 | CsDutch => 6 | CsFinnish => 7 | CsFrench => 8
  | CsFrenchCa => 9 | CsGerman => 10 | CsItalian => 11 | CsDanish => 12
  | CsPortuguese => 13 | CsSpanish => 14 | CsSwedish => 15 | CsSwiss => 16
  | CsSco => 17 | CsUtf8 => 18
  end.

Definition cs_of_index (n : N) : option charset :=
  nth_error all_charsets (N.to_nat n).

Definition cs_eqb (a b : charset) : bool := cs_index a =? cs_index b.

(* encode_character_set: first entry of charset_map / extended_charset_map
   whose set matches; utf8 (in neither table) falls back to us_ascii. *)
Definition encode_cs (c : charset) : list byte :=
  match c with
  | CsAscii => [66] | CsSco => [85] | CsDec => [48] | CsDecSup => [60]
  | CsDecTech => [62] | CsUk => [65] | CsDutch => [52] | CsFinnish => [67]
  | CsFrench => [82] | CsFrenchCa => [81] | CsGerman => [75]
  | CsItalian => [89] | CsDanish => [96] | CsSpanish => [90]
  | CsSwedish => [72] | CsSwiss => [61]
  | CsDecSupGr => [37; 53] | CsPortuguese => [37; 54]
  | CsUtf8 => [66]
  end.

(* lookup_character_set *)
Definition lookup_cs1 (b : byte) : option charset :=
  match b with
  | 66 => Some CsAscii | 85 => Some CsSco | 48 => Some CsDec
  | 60 => Some CsDecSup | 62 => Some CsDecTech | 65 => Some CsUk
  | 52 => Some CsDutch | 67 => Some CsFinnish | 53 => Some CsFinnish
  | 82 => Some CsFrench | 102 => Some CsFrench | 81 => Some CsFrenchCa
  | 57 => Some CsFrenchCa | 75 => Some CsGerman | 89 => Some CsItalian
  | 96 => Some CsDanish | 69 => Some CsDanish | 54 => Some CsDanish
  | 90 => Some CsSpanish | 72 => Some CsSwedish | 55 => Some CsSwedish
  | 61 => Some CsSwiss
  | _ => None
  end.

Definition lookup_cs2 (b : byte) : option charset :=
  match b with
  | 53 => Some CsDecSupGr | 54 => Some CsPortuguese | _ => None
  end.

Definition lookup_cs (code : list byte) : option charset :=
  match code with
  | [] => None
  | 37 :: [] => None
  | 37 :: b :: _ => lookup_cs2 b
  | b :: _ => lookup_cs1 b
  end.

(* ---- glyph: charset + the three storage bytes of the union ------------ *)
Record glyph := mkGlyph { gcs : charset; g0 : byte; g1 : byte; g2 : byte }.

Definition glyph_eqb (a b : glyph) : bool :=
  cs_eqb (gcs a) (gcs b) &&
  (if cs_eqb (gcs a) CsUtf8
   then (g0 a =? g0 b) && (g1 a =? g1 b) && (g2 a =? g2 b)
   else (g0 a =? g0 b)).

Definition glyph_ltb (a b : glyph) : bool :=
  if cs_index (gcs a) <? cs_index (gcs b) then true
  else if cs_eqb (gcs a) (gcs b) then
    if cs_eqb (gcs a) CsUtf8 then
      if g0 a <? g0 b then true else if g0 b <? g0 a then false else
      if g1 a <? g1 b then true else if g1 b <? g1 a then false else
      if g2 a <? g2 b then true else false
    else g0 a <? g0 b
  else false.

(* what hash_value(glyph) is a function of *)
Definition glyph_hash_key (a : glyph) : list N :=
  if cs_eqb (gcs a) CsUtf8 then [cs_index (gcs a); g0 a; g1 a; g2 a]
  else [cs_index (gcs a); g0 a].

Definition default_glyph : glyph := mkGlyph CsAscii 32 0 0.

(* ---- colours ----------------------------------------------------------- *)
Inductive colour :=
| CLow (v : N) | CHigh (v : N) | CGrey (v : N) | CTrue (r g b : N).

Definition colour_key (c : colour) : list N :=
  match c with
  | CLow v => [0; v] | CHigh v => [1; v] | CGrey v => [2; v]
  | CTrue r g b => [3; r; g; b]
  end.

Definition colour_eqb (a b : colour) : bool :=
  match a, b with
  | CLow x, CLow y => x =? y
  | CHigh x, CHigh y => x =? y
  | CGrey x, CGrey y => x =? y
  | CTrue r g b, CTrue r' g' b' => (r =? r') && (g =? g') && (b =? b')
  | _, _ => false
  end.

Definition default_colour : colour := CLow 9.

(* ansi::graphics arithmetic on bytes *)
Definition wrap8 (n : N) : N := n mod 256.
Definition encode_high (r g b : N) : N := wrap8 (16 + r * 36 + g * 6 + b).
(* (value - 16) is computed in int, so it may be negative for value < 16;
   C++ division truncates towards zero.  Modelled on Z in P_Tie; here the
   non-negative branch and the negative branch are spelled out. *)
Definition high_red (v : N) : N :=
  if 16 <=? v then wrap8 ((v - 16) / 36) else 0.
Definition high_green (v : N) : N :=
  if 16 <=? v then wrap8 (((v - 16) mod 36) / 6)
  else wrap8 (256 - ((16 - v) mod 36) / 6).
Definition high_blue (v : N) : N :=
  if 16 <=? v then wrap8 ((v - 16) mod 6)
  else wrap8 (256 - ((16 - v) mod 6)).
Definition encode_grey (s : N) : N := wrap8 (232 + s).
Definition grey_component (v : N) : N := wrap8 (v + 256 - 232).

(* ---- effects / attribute ---------------------------------------------- *)
Inductive intensity := IBold | IFaint | INormal.
Definition inten_code (i : intensity) : N :=
  match i with IBold => 1 | IFaint => 2 | INormal => 22 end.
Definition inten_eqb (a b : intensity) : bool := inten_code a =? inten_code b.

Record attr := mkAttr {
  fg : colour; bg : colour; inten : intensity;
  ul : bool;      (* underlined *)
  neg : bool;     (* negative polarity *)
  blink : bool }.

Definition ul_code (b : bool) : N := if b then 4 else 24.
Definition neg_code (b : bool) : N := if b then 7 else 27.
Definition blink_code (b : bool) : N := if b then 5 else 25.

Definition default_attr : attr :=
  mkAttr default_colour default_colour INormal false false false.

Definition attr_eqb (a b : attr) : bool :=
  colour_eqb (fg a) (fg b) && colour_eqb (bg a) (bg b) &&
  inten_eqb (inten a) (inten b) && Bool.eqb (ul a) (ul b) &&
  Bool.eqb (neg a) (neg b) && Bool.eqb (blink a) (blink b).

Record element := mkElem { eg : glyph; ea : attr }.

Definition default_element : element := mkElem default_glyph default_attr.

Definition element_eqb (a b : element) : bool :=
  glyph_eqb (eg a) (eg b) && attr_eqb (ea a) (ea b).

(* Comparison keys: member-wise lexicographic order in declaration order
   (defaulted operator<=>): the key of a value is the list of numbers a
   lexicographic comparison of which gives the C++ ordering. *)
Definition attr_key (a : attr) : list (list N) :=
  [colour_key (fg a); colour_key (bg a); [inten_code (inten a)];
   [ul_code (ul a)]; [neg_code (neg a)]; [blink_code (blink a)]].
