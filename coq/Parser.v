(* Parser.v — model of src/detail/parser.cpp (all scratch fields kept),
   src/detail/well_known_virtual_key.cpp and terminal::async_read.
   Definitions only. *)
From TP Require Export Base.
From Coq Require Export ZArith.
Local Open Scope N_scope.

Inductive pst := PIdle | PCr | PLf | PEscape | PArguments | PMouse0 | PMouse1 | PMouse2.

Record cseq := mkCseq {
  cs_init : byte; cs_cmd : byte; cs_meta : bool;
  cs_args : list (list byte); cs_ext : byte }.

Inductive kseq := KByte (b : byte) | KSeq (c : cseq).

Inductive token :=
| TKey (key : N) (mods : N) (rep : Z) (s : kseq)
| TMouse (action : N) (x y : Z)
| TCtl (c : cseq).

Record pstate := mkP {
  p_st : pst;
  p_init : byte; p_ext : byte; p_meta : bool;
  p_mev : N; p_mx : Z; p_my : Z;
  p_arg : list byte; p_args : list (list byte) }.

Definition init_pstate : pstate := mkP PIdle 0 0 false 0 0%Z 0%Z [] [].

(* vk enumerator values (tied to the header by P_Tie) *)
Definition vk_cursor_up := 128.   Definition vk_cursor_down := 129.
Definition vk_cursor_left := 130. Definition vk_cursor_right := 131.
Definition vk_home := 132. Definition vk_ins := 133. Definition vk_end := 134.
Definition vk_pgup := 135. Definition vk_pgdn := 136. Definition vk_bt := 137.
Definition vk_enter := 138.
Definition vk_f1 := 139. Definition vk_f2 := 140. Definition vk_f3 := 141.
Definition vk_f4 := 142. Definition vk_f5 := 143. Definition vk_f6 := 144.
Definition vk_f7 := 145. Definition vk_f8 := 146. Definition vk_f9 := 147.
Definition vk_f10 := 148. Definition vk_f11 := 149. Definition vk_f12 := 150.
Definition vk_ht := 9. Definition vk_del := 127.

Definition enter_token : token := TKey vk_enter 0 1%Z (KByte 10).

Definition set_st (s : pstate) (x : pst) : pstate :=
  mkP x (p_init s) (p_ext s) (p_meta s) (p_mev s) (p_mx s) (p_my s) (p_arg s) (p_args s).

Definition parse_idle (s : pstate) (b : byte) : pstate * option token :=
  if b =? 27 then
    (mkP PEscape (p_init s) 0 false (p_mev s) (p_mx s) (p_my s) [] [], None)
  else if b =? 13 then (set_st s PCr, Some enter_token)
  else if b =? 10 then (set_st s PLf, Some enter_token)
  else if b =? 155 then
    (mkP PArguments 91 0 false (p_mev s) (p_mx s) (p_my s) [] [], None)
  else if b =? 143 then
    (mkP PArguments 79 0 false (p_mev s) (p_mx s) (p_my s) [] [], None)
  else (s, Some (TKey b 0 1%Z (KByte b))).

Definition is_ext (b : byte) : bool := (b =? 63) || (b =? 62) || (b =? 33).

Definition mouse_event_of (b : byte) : N :=
  (* input - 32 looked up in the table; no match -> no_button_change *)
  if b <? 32 then 4 else
  match b - 32 with
  | 0 => 0 | 1 => 1 | 2 => 2 | 3 => 3 | 32 => 4 | 64 => 5 | 65 => 6
  | _ => 4
  end.

Definition pstep (s : pstate) (b : byte) : pstate * option token :=
  match p_st s with
  | PIdle => parse_idle s b
  | PCr =>
      let s' := set_st s PIdle in
      if (b =? 10) || (b =? 0) then (s', None) else parse_idle s' b
  | PLf =>
      let s' := set_st s PIdle in
      if b =? 13 then (s', None) else parse_idle s' b
  | PEscape =>
      if b =? 27 then
        (mkP PEscape (p_init s) (p_ext s) true (p_mev s) (p_mx s) (p_my s) (p_arg s) (p_args s), None)
      else
        (mkP PArguments b (p_ext s) (p_meta s) (p_mev s) (p_mx s) (p_my s) (p_arg s) (p_args s), None)
  | PArguments =>
      if is_digit b then
        (mkP PArguments (p_init s) (p_ext s) (p_meta s) (p_mev s) (p_mx s) (p_my s)
             (p_arg s ++ [b]) (p_args s), None)
      else if b =? 59 then
        (mkP PArguments (p_init s) (p_ext s) (p_meta s) (p_mev s) (p_mx s) (p_my s)
             [] (p_args s ++ [p_arg s]), None)
      else if (b =? 77) && (p_init s =? 91) then (set_st s PMouse0, None)
      else if is_ext b then
        (mkP PArguments (p_init s) b (p_meta s) (p_mev s) (p_mx s) (p_my s)
             (p_arg s) (p_args s), None)
      else
        let args := p_args s ++ [p_arg s] in
        (mkP PIdle (p_init s) (p_ext s) (p_meta s) (p_mev s) (p_mx s) (p_my s)
             (p_arg s) args,
         Some (TCtl (mkCseq (p_init s) b (p_meta s) args (p_ext s))))
  | PMouse0 =>
      (mkP PMouse1 (p_init s) (p_ext s) (p_meta s) (mouse_event_of b) (p_mx s) (p_my s)
           (p_arg s) (p_args s), None)
  | PMouse1 =>
      (mkP PMouse2 (p_init s) (p_ext s) (p_meta s) (p_mev s) (Z.of_N b - 32 - 1)%Z (p_my s)
           (p_arg s) (p_args s), None)
  | PMouse2 =>
      let y := (Z.of_N b - 32 - 1)%Z in
      (mkP PIdle (p_init s) (p_ext s) (p_meta s) (p_mev s) (p_mx s) y (p_arg s) (p_args s),
       Some (TMouse (p_mev s) (p_mx s) y))
  end.

(* raw parser tokens of a byte string *)
Fixpoint feed (s : pstate) (bs : list byte) : pstate * list token :=
  match bs with
  | [] => (s, [])
  | b :: r =>
      let '(s1, t) := pstep s b in
      let '(s2, ts) := feed s1 r in
      (s2, match t with Some x => x :: ts | None => ts end)
  end.

(* ---- well_known_virtual_key.cpp --------------------------------------- *)
(* argument_to_int: std::from_chars on a digit-only (possibly empty) string,
   saturating at INT_MAX when the value does not fit an int *)
Definition atoi (ds : list byte) : Z :=
  Z.of_N (N.min (read_digits 0 ds) 2147483647).

Definition convert_modifier (arg : list byte) : N :=
  match atoi arg with
  | 2%Z => 1 | 5%Z => 2 | 3%Z => 4 | 9%Z => 8
  | 4%Z => 5 | 6%Z => 3 | 7%Z => 6 | 8%Z => 7
  | 10%Z => 9 | 13%Z => 10 | 11%Z => 12
  | 12%Z => 13 | 14%Z => 11 | 15%Z => 14 | 16%Z => 15
  | _ => 0
  end.

Definition cursor_key (cmd : byte) : option N :=
  match cmd with
  | 65 => Some vk_cursor_up | 66 => Some vk_cursor_down
  | 67 => Some vk_cursor_right | 68 => Some vk_cursor_left
  | 72 => Some vk_home | 70 => Some vk_end
  | 73 => Some vk_ht | 90 => Some vk_bt
  | _ => None
  end.

Definition ss3_key (cmd : byte) : option N :=
  match cmd with
  | 65 => Some vk_cursor_up | 66 => Some vk_cursor_down
  | 67 => Some vk_cursor_right | 68 => Some vk_cursor_left
  | 72 => Some vk_home | 70 => Some vk_end | 73 => Some vk_ht
  | 77 => Some vk_enter
  | 80 => Some vk_f1 | 81 => Some vk_f2 | 82 => Some vk_f3 | 83 => Some vk_f4
  | _ => None
  end.

Definition keypad_key (n : Z) : option N :=
  match n with
  | 1%Z => Some vk_home | 2%Z => Some vk_ins | 3%Z => Some vk_del
  | 4%Z => Some vk_end | 5%Z => Some vk_pgup | 6%Z => Some vk_pgdn
  | 11%Z => Some vk_f1 | 12%Z => Some vk_f2 | 13%Z => Some vk_f3
  | 14%Z => Some vk_f4 | 15%Z => Some vk_f5 | 17%Z => Some vk_f6
  | 18%Z => Some vk_f7 | 19%Z => Some vk_f8 | 20%Z => Some vk_f9
  | 21%Z => Some vk_f10 | 23%Z => Some vk_f11 | 24%Z => Some vk_f12
  | _ => None
  end.

Definition meta_bit (m : bool) : N := if m then 8 else 0.

Definition seq_modifiers (c : cseq) : N :=
  N.lor (match cs_args c with
         | _ :: a1 :: _ => convert_modifier a1
         | _ => 0
         end) (meta_bit (cs_meta c)).

Definition convert_cseq (c : cseq) : token :=
  if cs_init c =? 91 then
    if cs_cmd c =? 126 then
      match cs_args c with
      | [] => TCtl c                       (* unreachable: parser always pushes one *)
      | a0 :: _ =>
          match a0 with
          | [] => TCtl c
          | d :: _ =>
              if is_digit d then
                match keypad_key (atoi a0) with
                | Some k => TKey k (seq_modifiers c) 1%Z (KSeq c)
                | None => TCtl c
                end
              else TCtl c
          end
      end
    else
      match cursor_key (cs_cmd c) with
      | Some k =>
          let rep := match cs_args c with
                     | [] => 1%Z
                     | a0 :: _ => Z.max (atoi a0) 1
                     end in
          TKey k (seq_modifiers c) rep (KSeq c)
      | None => TCtl c
      end
  else if cs_init c =? 79 then
    match ss3_key (cs_cmd c) with
    | Some k => TKey k (meta_bit (cs_meta c)) 1%Z (KSeq c)
    | None => TCtl c
    end
  else TCtl c.

Definition well_known (t : token) : token :=
  match t with
  | TCtl c => convert_cseq c
  | _ => t
  end.

(* ---- terminal::async_read: one callback per delivery ------------------- *)
Definition deliver (s : pstate) (chunk : list byte) : pstate * list token :=
  let '(s', ts) := feed s chunk in (s', map well_known ts).

Fixpoint deliver_all (s : pstate) (chunks : list (list byte))
  : pstate * list (list token) :=
  match chunks with
  | [] => (s, [])
  | c :: r =>
      let '(s1, cb) := deliver s c in
      let '(s2, cbs) := deliver_all s1 r in
      (s2, cb :: cbs)
  end.
