(* Tie_Glyph.v — glyph ==, <, <=> and hash equality of the real code on a grid
   of storage-byte patterns agree with the model. *)
From TP Require Import Elem Order Generated.
Local Open Scope N_scope.

Definition glyph_of_pat (p : list N) : glyph :=
  match p with
  | [c; b0; b1; b2] =>
      mkGlyph (match cs_of_index c with Some x => x | None => CsAscii end) b0 b1 b2
  | _ => default_glyph
  end.

Definition glyph_result (a b : glyph) : N :=
  (if glyph_eqb a b then 1 else 0) + (if glyph_ltb a b then 2 else 0) +
  (match glyph_cmp a b with Lt => 4 | Gt => 8 | Eq => 0 end) +
  (if list_eqb N.eqb (glyph_hash_key a) (glyph_hash_key b) then 16 else 0).

(* hash equality is only claimed in one direction (equal keys => equal
   hashes); bit 16 of the model implies bit 16 of the implementation *)
Definition result_ok (model impl : N) : bool :=
  (N.land model 15 =? N.land impl 15) &&
  (if N.testbit model 4 then N.testbit impl 4 else true).

Lemma tie_glyph_grid :
  let gs := map glyph_of_pat g_glyph_grid in
  forallb (fun mi => result_ok (fst mi) (snd mi))
    (combine (flat_map (fun a => map (fun b => glyph_result a b) gs) gs) g_glyph_results) = true
  /\ length g_glyph_results = (length g_glyph_grid * length g_glyph_grid)%nat.
Proof. vm_compute. split; reflexivity. Qed.
