(* P_Bytes.v — the bytes the model renders for one operation, interpreted by
   the byte-level reference terminal, have the effect of the abstract commands. *)
From TP Require Import Base Elem Term VT Oracle P_Dec P_VT P_Diff P_Sync P_Step.
From Coq Require Import ZArith Lia ZifyBool ZifyN.
Local Open Scope N_scope.

Ltac destruct_matches :=
  repeat match goal with
         | |- context[match ?x with _ => _ end] => is_var x; destruct x
         end.

Lemma set_mode_lex v m on : lex (set_mode v m on) = lex v.
Proof. unfold set_mode. destruct_matches; reflexivity. Qed.

Lemma fold_set_mode_lex on : forall ps v,
  lex (fold_left (fun v m => set_mode v m on) ps v) = lex v.
Proof.
  induction ps as [|m r IH]; intros v; [reflexivity|].
  cbn [fold_left]. rewrite IH. apply set_mode_lex.
Qed.

Lemma vt_csi_lex cfg v priv ps f : lex (vt_csi cfg v priv ps f) = lex v.
Proof.
  unfold vt_csi. destruct priv.
  - destruct_matches; try reflexivity; apply fold_set_mode_lex.
  - cbv zeta.
    destruct_matches; try reflexivity;
      repeat match goal with
             | |- context[if ?c then _ else _] => destruct c
             | |- context[let '(_, _) := ?x in _] => destruct x
             end; reflexivity.
Qed.

Lemma vt_designate_lex v d : lex (vt_designate v d) = lex v.
Proof. unfold vt_designate. destruct (std_lookup d); reflexivity. Qed.

Lemma vt_osc_lex v body : lex (vt_osc v body) = lex v.
Proof. unfold vt_osc. destruct_matches; reflexivity. Qed.

Definition ctl_ok (c : cmd) : bool :=
  match c with
  | Csi _ _ f => (64 <=? f) && (f <=? 126)
  | EscG0 d => existsb (fun c => bytes_eqb d (encode_cs c)) all_charsets
  | EscUtf8 _ => true
  | Osc body _ => forallb osc_byte_ok body
  | Payload _ => false
  end.

Lemma bytes_eqb_eq a : forall b, bytes_eqb a b = true -> a = b.
Proof.
  unfold bytes_eqb. induction a as [|x a IH]; intros [|y b] H; cbn in H; try discriminate; [reflexivity|].
  apply andb_prop in H as [H1 H2]. apply N.eqb_eq in H1. subst. f_equal. apply IH, H2.
Qed.

Section Bytes.
Variable cfg : vtcfg.

Lemma ctl_exec v c : lex v = Ground -> ctl_ok c = true ->
  vt_bytes cfg v (render c) = vt_exec cfg v c /\ lex (vt_exec cfg v c) = Ground.
Proof.
  intros Hg Hc. destruct c as [priv ps f|d|on|body bel|bs]; cbn [ctl_ok] in Hc.
  - split; [apply lex_csi; assumption|]. cbn [vt_exec]. rewrite vt_csi_lex. exact Hg.
  - apply existsb_exists in Hc as [c [_ Hc]]. apply bytes_eqb_eq in Hc. subst d.
    split; [apply (lex_g0 cfg v c Hg)|]. cbn [vt_exec]. rewrite vt_designate_lex. exact Hg.
  - split; [apply lex_utf8; exact Hg|]. cbn [vt_exec]. exact Hg.
  - split; [apply lex_osc; assumption|]. cbn [vt_exec]. rewrite vt_osc_lex. exact Hg.
  - discriminate.
Qed.

Lemma render_all_app a b : render_all (a ++ b) = render_all a ++ render_all b.
Proof. unfold render_all. apply flat_map_app. Qed.

Lemma ctls_exec : forall cs v, lex v = Ground -> forallb ctl_ok cs = true ->
  vt_bytes cfg v (render_all cs) = vt_execs cfg v cs /\ lex (vt_execs cfg v cs) = Ground.
Proof.
  induction cs as [|c r IH]; intros v Hg H; [split; [reflexivity|exact Hg]|].
  cbn [forallb] in H. apply andb_prop in H as [Hc Hr].
  destruct (ctl_exec v c Hg Hc) as [H1 H2].
  change (render_all (c :: r)) with (render c ++ render_all r).
  rewrite vt_bytes_app, H1. cbn [vt_execs fold_left]. apply IH; assumption.
Qed.

(* ---- the commands of each operation are well-formed controls ----------------- *)
Lemma ctl_designate c : ctl_ok (designate_g0 c) = true.
Proof. destruct c; reflexivity. Qed.

Lemma ctl_change_charset beh s d : forallb ctl_ok (change_charset beh s d) = true.
Proof.
  unfold change_charset, change_charset_nonutf8.
  repeat match goal with |- context[if ?c then _ else _] => destruct c end;
    cbn [app forallb]; rewrite ?ctl_designate; reflexivity.
Qed.

Lemma ctl_change_attribute a b : forallb ctl_ok (change_attribute a b) = true.
Proof.
  unfold change_attribute.
  repeat match goal with |- context[if ?c then _ else _] => destruct c end; reflexivity.
Qed.

Lemma ctl_cup p : ctl_ok (cup p) = true.
Proof. destruct p as [x y]. unfold cup. repeat match goal with |- context[if ?c then _ else _] => destruct c end; reflexivity. Qed.

Lemma ctl_move st p : forallb ctl_ok (snd (move_cursor st p)) = true.
Proof.
  unfold move_cursor, cha, cuu, cud. cbn [snd].
  destruct (ts_cur st); cbn [forallb]; rewrite ?ctl_cup;
  repeat match goal with |- context[if ?c then _ else _] => destruct c end;
    cbn [forallb]; rewrite ?ctl_cup; reflexivity.
Qed.

Lemma ctl_to_default st : forallb ctl_ok (snd (to_default_attribute st)) = true.
Proof.
  unfold to_default_attribute. destruct (ts_last st); cbn [snd]; [apply ctl_change_attribute|reflexivity].
Qed.

Lemma ctl_oda st : forallb ctl_ok (snd (optional_default_attribute st)) = true.
Proof. unfold optional_default_attribute. destruct (ts_last st); reflexivity. Qed.

Lemma title_bytes_ok t : wf_title t = true -> forallb osc_byte_ok t = true.
Proof.
  unfold wf_title. induction t as [|b r IH]; intros H; [reflexivity|].
  cbn [forallb] in H |- *. apply andb_prop in H as [Hb Hr]. rewrite (IH Hr). unfold osc_byte_ok.
  assert (negb (b =? 7) && negb (b =? 27) = true) as -> by lia. reflexivity.
Qed.
Lemma title_osc_ok t : wf_title t = true -> forallb osc_byte_ok (50 :: 59 :: t) = true.
Proof. intros H. cbn [forallb]. rewrite (title_bytes_ok t H). reflexivity. Qed.

(* every operation except element/string writes emits controls only *)
Lemma ctl_step beh st o :
  match o with
  | WElem _ | WStr _ | WRaw _ | SetSize _ => True
  | Title t => wf_title t = true -> forallb ctl_ok (snd (step beh st o)) = true
  | _ => forallb ctl_ok (snd (step beh st o)) = true
  end.
Proof.
  destruct o; try exact I; cbn [step].
  - apply ctl_oda.
  - apply ctl_move.
  - reflexivity.
  - reflexivity.
  - destruct (to_default_attribute st) as [st1 c1] eqn:E. cbn [snd].
    rewrite forallb_app. pose proof (ctl_to_default st) as H. rewrite E in H. cbn [snd] in H.
    rewrite H. destruct k; reflexivity.
  - unfold show_hide. cbn [snd]. repeat match goal with |- context[if ?c then _ else _] => destruct c | |- context[match ts_vis st with _ => _ end] => destruct (ts_vis st) end; reflexivity.
  - unfold show_hide. cbn [snd]. repeat match goal with |- context[if ?c then _ else _] => destruct c | |- context[match ts_vis st with _ => _ end] => destruct (ts_vis st) end; reflexivity.
  - unfold mouse_cmd, mouse_mode. cbn [snd]. repeat match goal with |- context[if ?c then _ else _] => destruct c end; reflexivity.
  - unfold mouse_cmd, mouse_mode. cbn [snd]. repeat match goal with |- context[if ?c then _ else _] => destruct c end; reflexivity.
  - reflexivity.
  - reflexivity.
  - intros Hw. cbn [snd]. unfold title_cmd.
    repeat match goal with |- context[if ?c then _ else _] => destruct c end;
      cbn [forallb ctl_ok]; rewrite ?(title_bytes_ok _ Hw); reflexivity.
Qed.

End Bytes.
