(* Properties_C09.v -- placeholder, theorems follow *)
From TP Require Import Term.
