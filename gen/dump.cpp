// dump.cpp — translator from the REAL headers of /repo to Gallina data.
// It evaluates constants, tables and complete graphs of the finite-domain
// leaf functions with the code as compiled now and prints coq/Generated.v.
// Generated.v contains data only; the theorems in P_Tie.v / Properties_*.v are
// re-proved against it on every run.
#include <terminalpp/ansi/charset.hpp>
#include <terminalpp/ansi/control_characters.hpp>
#include <terminalpp/ansi/csi.hpp>
#include <terminalpp/ansi/dec_private_mode.hpp>
#include <terminalpp/ansi/graphics.hpp>
#include <terminalpp/ansi/mouse.hpp>
#include <terminalpp/ansi/osc.hpp>
#include <terminalpp/ansi/protocol.hpp>
#include <terminalpp/ansi/ss3.hpp>
#include <terminalpp/behaviour.hpp>
#include <terminalpp/character_set.hpp>
#include <terminalpp/colour.hpp>
#include <terminalpp/element.hpp>
#include <terminalpp/glyph.hpp>
#include <terminalpp/mouse.hpp>
#include <terminalpp/virtual_key.hpp>

#include <cstdio>
#include <functional>
#include <string>
#include <vector>

using namespace terminalpp;

static void defn(char const *name, long v) { std::printf("Definition %s : N := %ld.\n", name, v); }

template <class It>
static void bytes_def(char const *name, It b, It e)
{
    std::printf("Definition %s : list N := [", name);
    bool first = true;
    for (; b != e; ++b) { std::printf("%s%d", first ? "" : "; ", int(*b)); first = false; }
    std::printf("].\n");
}

static void list_def(char const *name, std::vector<long> const &v)
{
    std::printf("Definition %s : list N := [", name);
    for (size_t i = 0; i < v.size(); ++i) std::printf("%s%ld", i ? "; " : "", v[i]);
    std::printf("].\n");
}

static void optlist_def(char const *name, std::vector<long> const &v)
{
    std::printf("Definition %s : list (option N) := [", name);
    for (size_t i = 0; i < v.size(); ++i)
    {
        if (v[i] < 0) std::printf("%sNone", i ? "; " : "");
        else std::printf("%sSome %ld", i ? "; " : "", v[i]);
    }
    std::printf("].\n");
}

#define BYTES(name, arr) bytes_def(name, std::cbegin(arr), std::cend(arr))

int main()
{
    std::printf("(* Generated.v -- produced by gen/dump.cpp from the headers of /repo.  Data only. *)\n");
    std::printf("From Coq Require Import NArith List.\nImport ListNotations.\nLocal Open Scope N_scope.\n\n");

    // ---- control characters / protocol ------------------------------------
    BYTES("g_control7_csi", ansi::control7::csi);
    BYTES("g_control7_ss3", ansi::control7::ss3);
    BYTES("g_control7_osc", ansi::control7::osc);
    BYTES("g_control7_st", ansi::control7::st);
    defn("g_control8_csi", ansi::control8::csi);
    defn("g_control8_ss3", ansi::control8::ss3);
    defn("g_ps", ansi::ps);
    defn("g_esc", detail::ascii::esc);
    defn("g_bel", detail::ascii::bel);
    defn("g_cr", detail::ascii::cr);
    defn("g_lf", detail::ascii::lf);
    defn("g_nul", detail::ascii::nul);
    defn("g_question_mark", detail::ascii::question_mark);
    defn("g_greater_than", detail::ascii::greater_than);
    defn("g_exclamation_mark", detail::ascii::exclamation_mark);
    BYTES("g_dec_private_mode", ansi::dec_private_mode);
    BYTES("g_dec_pm_set", ansi::dec_pm::set);
    BYTES("g_dec_pm_reset", ansi::dec_pm::reset);
    BYTES("g_dec_pm_cursor", ansi::dec_pm::cursor);
    BYTES("g_dec_pm_basic_mouse", ansi::dec_pm::basic_mouse_tracking);
    BYTES("g_dec_pm_all_motion_mouse", ansi::dec_pm::all_motion_mouse_tracking);
    BYTES("g_dec_pm_alt_buffer", ansi::dec_pm::use_alternate_screen_buffer);
    defn("g_osc_set_window_title", ansi::osc::set_window_title);
    BYTES("g_select_default_charset", ansi::select_default_character_set);
    BYTES("g_select_utf8_charset", ansi::select_utf8_character_set);
    BYTES("g_set_charset_g0", ansi::set_charset_g0);
    defn("g_charset_extender", ansi::charset_extender);

    // ---- CSI finals and parameters ------------------------------------------
    defn("g_csi_cursor_up", ansi::csi::cursor_up);
    defn("g_csi_cursor_down", ansi::csi::cursor_down);
    defn("g_csi_cursor_forward", ansi::csi::cursor_forward);
    defn("g_csi_cursor_backward", ansi::csi::cursor_backward);
    defn("g_csi_cursor_home", ansi::csi::cursor_home);
    defn("g_csi_cursor_end", ansi::csi::cursor_end);
    defn("g_csi_cursor_tabulation", ansi::csi::cursor_tabulation);
    defn("g_csi_cursor_backward_tabulation", ansi::csi::cursor_backward_tabulation);
    defn("g_csi_cursor_horizontal_absolute", ansi::csi::cursor_horizontal_absolute);
    defn("g_csi_cursor_position", ansi::csi::cursor_position);
    defn("g_csi_erase_in_display", ansi::csi::erase_in_display);
    defn("g_csi_erase_in_display_below", ansi::csi::erase_in_display_below);
    defn("g_csi_erase_in_display_above", ansi::csi::erase_in_display_above);
    defn("g_csi_erase_in_display_all", ansi::csi::erase_in_display_all);
    defn("g_csi_erase_in_line", ansi::csi::erase_in_line);
    defn("g_csi_erase_in_line_right", ansi::csi::erase_in_line_right);
    defn("g_csi_erase_in_line_left", ansi::csi::erase_in_line_left);
    defn("g_csi_erase_in_line_all", ansi::csi::erase_in_line_all);
    defn("g_csi_sgr", ansi::csi::select_graphics_rendition);
    defn("g_csi_save_cursor", ansi::csi::save_cursor_position);
    defn("g_csi_restore_cursor", ansi::csi::restore_cursor_position);
    defn("g_csi_mouse_tracking", ansi::csi::mouse_tracking);
    defn("g_csi_keypad_function", ansi::csi::keypad_function);
    list_def("g_keypad_codes",
             {ansi::csi::keypad_home, ansi::csi::keypad_insert, ansi::csi::keypad_del, ansi::csi::keypad_end,
              ansi::csi::keypad_pgup, ansi::csi::keypad_pgdn, ansi::csi::keypad_f1, ansi::csi::keypad_f2,
              ansi::csi::keypad_f3, ansi::csi::keypad_f4, ansi::csi::keypad_f5, ansi::csi::keypad_f6,
              ansi::csi::keypad_f7, ansi::csi::keypad_f8, ansi::csi::keypad_f9, ansi::csi::keypad_f10,
              ansi::csi::keypad_f11, ansi::csi::keypad_f12});
    list_def("g_modifier_codes",
             {ansi::csi::modifier_shift, ansi::csi::modifier_alt, ansi::csi::modifier_shift_alt,
              ansi::csi::modifier_ctrl, ansi::csi::modifier_shift_ctrl, ansi::csi::modifier_alt_ctrl,
              ansi::csi::modifier_shift_alt_ctrl, ansi::csi::modifier_meta, ansi::csi::modifier_meta_shift,
              ansi::csi::modifier_meta_alt, ansi::csi::modifier_meta_shift_alt, ansi::csi::modifier_meta_ctrl,
              ansi::csi::modifier_meta_shift_ctrl, ansi::csi::modifier_meta_alt_ctrl,
              ansi::csi::modifier_meta_shift_alt_ctrl});
    list_def("g_ss3_codes",
             {ansi::ss3::cursor_up, ansi::ss3::cursor_down, ansi::ss3::cursor_right, ansi::ss3::cursor_left,
              ansi::ss3::cursor_home, ansi::ss3::cursor_end, ansi::ss3::cursor_tab, ansi::ss3::enter,
              ansi::ss3::f1, ansi::ss3::f2, ansi::ss3::f3, ansi::ss3::f4});
    list_def("g_mouse_codes",
             {ansi::mouse::left_button_down, ansi::mouse::middle_button_down, ansi::mouse::right_button_down,
              ansi::mouse::button_up, ansi::mouse::no_button_change, ansi::mouse::scrollwheel_up,
              ansi::mouse::scrollwheel_down});
    defn("g_mouse_value_offset", ansi::mouse::mouse_value_offset);
    list_def("g_mouse_event_types",
             {long(mouse::event_type::left_button_down), long(mouse::event_type::middle_button_down),
              long(mouse::event_type::right_button_down), long(mouse::event_type::button_up),
              long(mouse::event_type::no_button_change), long(mouse::event_type::scrollwheel_up),
              long(mouse::event_type::scrollwheel_down)});

    // ---- SGR ------------------------------------------------------------------
    list_def("g_sgr_codes",
             {ansi::graphics::no_attributes, ansi::graphics::bold, ansi::graphics::faint,
              ansi::graphics::normal_intensity, ansi::graphics::underlined, ansi::graphics::not_underlined,
              ansi::graphics::blinking, ansi::graphics::steady, ansi::graphics::negative_polarity,
              ansi::graphics::positive_polarity, ansi::graphics::foreground_colour_base,
              ansi::graphics::background_colour_base, ansi::graphics::colour_default});
    list_def("g_effect_values",
             {long(graphics::intensity::bold), long(graphics::intensity::faint), long(graphics::intensity::normal),
              long(graphics::underlining::underlined), long(graphics::underlining::not_underlined),
              long(graphics::polarity::negative), long(graphics::polarity::positive),
              long(graphics::blinking::blink), long(graphics::blinking::steady)});
    list_def("g_low_colours",
             {long(graphics::colour::black), long(graphics::colour::red), long(graphics::colour::green),
              long(graphics::colour::yellow), long(graphics::colour::blue), long(graphics::colour::magenta),
              long(graphics::colour::cyan), long(graphics::colour::white), long(graphics::colour::default_)});
    {
        attribute a;
        element e;
        std::printf("(* default attribute / element as constructed by the headers *)\n");
        list_def("g_default_element",
                 {long(e.glyph_.charset_.value_), long(e.glyph_.character_),
                  long(a.foreground_colour_.value_.index()),
                  long(std::get<low_colour>(a.foreground_colour_.value_).value_),
                  long(a.background_colour_.value_.index()),
                  long(std::get<low_colour>(a.background_colour_.value_).value_),
                  long(a.intensity_.value_), long(a.underlining_.value_), long(a.polarity_.value_),
                  long(a.blinking_.value_)});
        behaviour b;
        list_def("g_behaviour_defaults",
                 {b.supports_basic_mouse_tracking, b.supports_all_mouse_motion_tracking,
                  b.supports_window_title_bel, b.supports_window_title_st, b.unicode_in_all_charsets});
    }

    // ---- character sets: complete graphs of the real functions ---------------
    list_def("g_charset_order",
             {long(charset::dec), long(charset::dec_supplementary), long(charset::dec_supplementary_graphics),
              long(charset::dec_technical), long(charset::uk), long(charset::us_ascii), long(charset::dutch),
              long(charset::finnish), long(charset::french), long(charset::french_canadian), long(charset::german),
              long(charset::italian), long(charset::danish), long(charset::portuguese), long(charset::spanish),
              long(charset::swedish), long(charset::swiss), long(charset::sco), long(charset::utf8)});
    {
        std::vector<long> one, two;
        for (int b = 0; b < 256; ++b)
        {
            // the designator is a view into a longer buffer: what lies behind the
            // view ('5': the final byte of an extended designator) is not part of it
            byte c1[2] = {byte(b), byte('5')};
            auto r = lookup_character_set(bytes(c1, 1));
            one.push_back(r ? long(r->value_) : -1);
            byte c2[3] = {ansi::charset_extender, byte(b), byte('6')};
            auto r2 = lookup_character_set(bytes(c2, 2));
            two.push_back(r2 ? long(r2->value_) : -1);
        }
        optlist_def("g_lookup1", one);
        optlist_def("g_lookup2", two);
        // the same function evaluated by the compiler (constexpr / _ete literals at
        // namespace scope): it must be the same function
        {
            static constexpr auto graphs = []() {
                struct { long one[256]; long two[256]; } g{};
                for (int b = 0; b < 256; ++b)
                {
                    byte const c1[2] = {byte(b), byte('5')};
                    auto const r = lookup_character_set(bytes(c1, 1));
                    g.one[b] = r ? long(r->value_) : -1;
                    byte const c2[3] = {ansi::charset_extender, byte(b), byte('6')};
                    auto const r2 = lookup_character_set(bytes(c2, 2));
                    g.two[b] = r2 ? long(r2->value_) : -1;
                }
                return g;
            }();
            optlist_def("g_lookup1_constexpr", std::vector<long>(std::begin(graphs.one), std::end(graphs.one)));
            optlist_def("g_lookup2_constexpr", std::vector<long>(std::begin(graphs.two), std::end(graphs.two)));
        }
        byte c3[2] = {ansi::charset_extender, byte('6')};
        auto r3 = lookup_character_set(bytes(c3, 1));
        optlist_def("g_lookup_extender_alone", {r3 ? long(r3->value_) : -1});
        auto r4 = lookup_character_set(bytes());
        optlist_def("g_lookup_empty", {r4 ? long(r4->value_) : -1});
        std::printf("Definition g_encode_cs : list (list N) := [");
        for (int i = 0; i < 19; ++i)
        {
            auto v = encode_character_set(character_set(static_cast<charset>(i)));
            std::printf("%s[", i ? "; " : "");
            for (size_t k = 0; k < v.size(); ++k) std::printf("%s%d", k ? "; " : "", int(v[k]));
            std::printf("]");
        }
        std::printf("].\n");
    }

    // ---- 256-colour arithmetic: complete graphs --------------------------------
    {
        std::vector<long> enc, r, g, b, ge, gc, ctor_h, ctor_g;
        for (int rr = 0; rr < 6; ++rr)
            for (int gg = 0; gg < 6; ++gg)
                for (int bb = 0; bb < 6; ++bb)
                {
                    enc.push_back(ansi::graphics::encode_high_components(byte(rr), byte(gg), byte(bb)));
                    ctor_h.push_back(high_colour(byte(rr), byte(gg), byte(bb)).value_);
                }
        for (int v = 0; v < 256; ++v)
        {
            r.push_back(ansi::graphics::high_red_component(byte(v)));
            g.push_back(ansi::graphics::high_green_component(byte(v)));
            b.push_back(ansi::graphics::high_blue_component(byte(v)));
            ge.push_back(ansi::graphics::encode_greyscale_component(byte(v)));
            gc.push_back(ansi::graphics::greyscale_component(byte(v)));
            ctor_g.push_back(greyscale_colour(byte(v)).shade_);
        }
        list_def("g_encode_high_216", enc);
        list_def("g_high_colour_ctor_216", ctor_h);
        list_def("g_high_red", r);
        list_def("g_high_green", g);
        list_def("g_high_blue", b);
        list_def("g_encode_grey", ge);
        list_def("g_grey_component", gc);
        list_def("g_greyscale_ctor", ctor_g);
        // boundary rows of encode_high_components with byte wrap
        std::vector<long> wrap;
        for (int x = 0; x < 256; ++x) wrap.push_back(ansi::graphics::encode_high_components(byte(x), byte(255 - x), byte(x / 2)));
        list_def("g_encode_high_wrap", wrap);
    }

    // ---- markup digit functions ---------------------------------------------------
    {
        std::vector<long> d10, d16;
        for (int c = 0; c < 256; ++c)
        {
            d10.push_back(detail::digit10_to_byte(static_cast<char>(c)));
            d16.push_back(detail::digit16_to_byte(static_cast<char>(c)));
        }
        list_def("g_digit10", d10);
        list_def("g_digit16", d16);
        defn("g_markup_handlers", long(detail::parser_state::done));
    }

    // ---- virtual keys ---------------------------------------------------------------
    list_def("g_vk_abstract",
             {long(vk::cursor_up), long(vk::cursor_down), long(vk::cursor_left), long(vk::cursor_right),
              long(vk::home), long(vk::ins), long(vk::end), long(vk::pgup), long(vk::pgdn), long(vk::bt),
              long(vk::enter), long(vk::f1), long(vk::f2), long(vk::f3), long(vk::f4), long(vk::f5),
              long(vk::f6), long(vk::f7), long(vk::f8), long(vk::f9), long(vk::f10), long(vk::f11),
              long(vk::f12)});
    list_def("g_vk_misc", {long(vk::ht), long(vk::del), long(vk::lf), long(vk::cr), long(vk::esc), long(sizeof(vk))});
    list_def("g_vk_modifier_bits",
             {long(vk_modifier::none), long(vk_modifier::shift), long(vk_modifier::ctrl), long(vk_modifier::alt),
              long(vk_modifier::meta)});
    {
        std::vector<long> ck;
        for (int k = 0; k < 256; ++k) ck.push_back(is_control_key(static_cast<vk>(k)) ? 1 : 0);
        list_def("g_is_control_key", ck);
    }

    // ---- glyph relational operators on a grid of storage patterns -------------------
    {
        // charset index, b0, b1, b2
        std::vector<std::vector<int>> pats;
        int css[] = {0, 5, 17, 18};
        int bs[] = {0, 65, 200};
        for (int c : css)
            for (int b0 : bs)
                for (int b1 : {0, 130})
                    for (int b2 : {0, 190}) pats.push_back({c, b0, b1, b2});
        auto mk = [](std::vector<int> const &p) {
            byte const arr[4] = {byte(p[1]), byte(p[2]), byte(p[3]), 0};
            glyph g(arr);
            g.charset_ = character_set(static_cast<charset>(p[0]));
            return g;
        };
        std::printf("Definition g_glyph_grid : list (list N) := [");
        for (size_t i = 0; i < pats.size(); ++i)
            std::printf("%s[%d; %d; %d; %d]", i ? "; " : "", pats[i][0], pats[i][1], pats[i][2], pats[i][3]);
        std::printf("].\n");
        std::vector<long> res;
        for (auto const &a : pats)
            for (auto const &b : pats)
            {
                glyph ga = mk(a), gb = mk(b);
                auto c = ga <=> gb;
                long v = (ga == gb ? 1 : 0) | (ga < gb ? 2 : 0) | (c < 0 ? 4 : 0) | (c > 0 ? 8 : 0)
                       | (std::hash<glyph>{}(ga) == std::hash<glyph>{}(gb) ? 16 : 0);
                res.push_back(v);
            }
        list_def("g_glyph_results", res);
    }
    return 0;
}
