(* Properties_C13.v -- placeholder, theorems follow *)
From TP Require Import Term.
