(* Properties_C16.v — C16: canvas cells are addressed consistently and survive
   resizing. *)
From TP Require Import Base Elem Term Screen P_Canvas.
From Coq Require Import Lia.
Local Open Scope N_scope.

(* a canvas of width w and height h has exactly w*h cells; cell (x, y) is the
   (y*w + x)-th element of the begin()..end() range; cells are independently
   assignable *)
Theorem C16_cells :
  (forall w h, wf_canvas (blank_canvas w h) /\ length (grid (blank_canvas w h)) = N.to_nat (w * h) /\
               forall x y, cv_get (blank_canvas w h) x y = default_element) /\
  (forall c x y, cv_get c x y = nth (N.to_nat (y * cw c + x)) (grid c) default_element) /\
  (forall c x y e, wf_canvas c -> wf_canvas (cv_set c x y e)) /\
  (forall c x y e x' y',
     wf_canvas c -> x < cw c -> y < ch c -> x' < cw c -> y' < ch c ->
     cv_get (cv_set c x y e) x' y' = if (x' =? x) && (y' =? y) then e else cv_get c x' y').
Proof.
  split; [intros w h; split; [apply blank_wf|split; [apply blank_wf|apply blank_get]]|].
  split; [reflexivity|]. split; [exact set_wf|exact get_set].
Qed.
Print Assumptions C16_cells.

(* region iteration visits each cell of the region exactly once, in row-major
   order, with its correct coordinates and the element stored there *)
Theorem C16_region :
  forall c ox oy w h,
    length (region_visit c ox oy w h) = N.to_nat (w * h) /\
    (forall i j, i < w -> j < h ->
       nth (N.to_nat (j * w + i)) (region_visit c ox oy w h) ((0, 0), default_element)
       = ((ox + i, oy + j), cv_get c (ox + i) (oy + j))) /\
    (forall x y, In (x, y) (map fst (region_visit c ox oy w h)) <->
                 (ox <= x < ox + w) /\ (oy <= y < oy + h)).
Proof.
  intros c ox oy w h. unfold region_visit. split; [rewrite map_length; apply region_points_length|].
  split.
  - intros i j Hi Hj.
    set (f := fun p : pt => (p, cv_get c (fst p) (snd p))).
    rewrite (nth_indep _ _ (f (0, 0))).
    + rewrite (map_nth f), region_points_nth by assumption. reflexivity.
    + rewrite map_length, region_points_length. pose proof (index_bound w h i j Hi Hj). lia.
  - intros x y. rewrite map_map. cbn [fst]. rewrite map_id. apply In_region_points.
Qed.
Print Assumptions C16_region.

(* after a resize every cell inside both the old and the new extent keeps its
   element, every other cell is a default element, and the reported size is the
   new one - for all sizes and contents *)
Theorem C16_resize :
  forall c w' h',
    cw (cv_resize c w' h') = w' /\ ch (cv_resize c w' h') = h' /\
    wf_canvas (cv_resize c w' h') /\
    forall x y, x < w' -> y < h' ->
      cv_get (cv_resize c w' h') x y =
      if (x <? cw c) && (y <? ch c) then cv_get c x y else default_element.
Proof.
  intros c w' h'. split; [reflexivity|]. split; [reflexivity|]. split; [apply resize_wf|].
  exact (resize_get c w' h').
Qed.
Print Assumptions C16_resize.

(* lifted to every sequence of resizes *)
Theorem C16_resizes_wf :
  forall sizes c, wf_canvas c ->
    wf_canvas (fold_left (fun c sz => cv_resize c (fst sz) (snd sz)) sizes c).
Proof.
  induction sizes as [|sz r IH]; intros c H; [exact H|]. cbn [fold_left]. apply IH, resize_wf.
Qed.

Example C16_nonvacuous :
  let c := cv_set (cv_set (blank_canvas 3 2) 2 1 (mkElem (mkGlyph CsAscii 65 0 0) default_attr)) 0 0
                  (mkElem (mkGlyph CsAscii 66 0 0) default_attr) in
  g0 (eg (cv_get (cv_resize c 5 1) 0 0)) = 66 /\ g0 (eg (cv_get (cv_resize c 5 1) 2 0)) = 32 /\
  g0 (eg (cv_get (cv_resize (cv_resize c 2 2) 3 2) 2 1)) = 32.
Proof. vm_compute. repeat split. Qed.
