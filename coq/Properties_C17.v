(* Properties_C17.v -- placeholder, theorems follow *)
From TP Require Import Term.
