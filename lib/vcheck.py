"""The check driver: check <ID> [--tier quick|thorough] [--replay path]."""
import json, os, re, subprocess, sys, time, glob, shutil

sys.path.insert(0, os.path.dirname(os.path.abspath(__file__)))
import vbuild, gen, props  # noqa: E402

VERIF = vbuild.VERIF
RUNDIR = os.path.join(VERIF, ".build", "run")
KNOWN = os.path.join(VERIF, "known_findings.json")


def log(*a):
    print(*a, flush=True)


def run_driver(exe, mode, inp_path, out_path, timeout=900, env=None):
    with open(inp_path, "rb") as fi, open(out_path, "wb") as fo:
        try:
            r = subprocess.run([exe, mode], stdin=fi, stdout=fo, stderr=subprocess.PIPE, timeout=timeout, env=env)
        except subprocess.TimeoutExpired:
            return -999, "timeout after %ds" % timeout
    return r.returncode, r.stderr.decode(errors="replace")[-6000:]


def split_cases(lines):
    """group output/script lines by case id -> list of lines"""
    cases, cur, cid = {}, None, None
    order = []
    for l in lines:
        m = re.match(r"^(?:> )?CASE (\S+)", l)
        if m:
            cid = m.group(1)
            cur = []
            cases[cid] = cur
            order.append(cid)
        if cur is not None:
            cur.append(l)
    return cases, order


def cmp_lines_equal(li, lm):
    if li == lm:
        return True
    if li.startswith("CMP ") and lm.startswith("CMP "):
        a, b = li.split(), lm.split()
        if a[:8] != b[:8]:
            return False
        # hash equality: the model only claims "equal keys => equal hashes"
        if b[8] == "1":
            return a[8] == "1"
        return True
    return False


def diff_outputs(impl_lines, model_lines):
    """returns list of (case id, first differing line index, impl line, model line)"""
    ci, order = split_cases(impl_lines)
    cm, _ = split_cases(model_lines)
    bad = []
    for cid in order:
        a, b = ci.get(cid, []), cm.get(cid, [])
        n = max(len(a), len(b))
        for k in range(n):
            la = a[k] if k < len(a) else "<missing>"
            lb = b[k] if k < len(b) else "<missing>"
            if not cmp_lines_equal(la, lb):
                bad.append((cid, k, la, lb))
                break
    for cid in cm:
        if cid not in ci:
            bad.append((cid, 0, "<case missing in implementation output>", cm[cid][0]))
    return bad


class Ctx:
    def __init__(self, pid, tier, seed):
        self.pid, self.tier, self.seed = pid, tier, seed
        self.dir = os.path.join(RUNDIR, pid)
        shutil.rmtree(self.dir, ignore_errors=True)
        os.makedirs(self.dir, exist_ok=True)
        self.impl = {}
        self.model = None
        self.notes = []


def run_script(ctx, name, lines, kind="asan", impl_mode="run", want_oracle=True, want_model=True, expand=False):
    """run one script through implementation, model and oracle.
    returns dict(impl_rc, impl_err, mismatches, oracle_fails, impl_lines)"""
    sp = os.path.join(ctx.dir, name + ".script")
    with open(sp, "w") as fh:
        fh.write("\n".join(lines) + "\n")
    if expand:
        # item lines -> bytes + expected tokens, by the extracted Proto.v
        sp0 = sp + "0"
        os.rename(sp, sp0)
        rce, erre = run_driver(ctx.model, "expand", sp0, sp)
        if rce != 0:
            raise RuntimeError("expand failed: " + erre)
    oi = os.path.join(ctx.dir, name + ".impl.out")
    om = os.path.join(ctx.dir, name + ".model.out")
    oo = os.path.join(ctx.dir, name + ".oracle.out")
    env = dict(os.environ)
    env["ASAN_OPTIONS"] = "detect_leaks=0:abort_on_error=0:exitcode=99"
    env["UBSAN_OPTIONS"] = "halt_on_error=1:exitcode=98:print_stacktrace=1"
    env["TSAN_OPTIONS"] = "exitcode=97:halt_on_error=0"
    rc, err = run_driver(ctx.impl[kind], impl_mode, sp, oi, env=env)
    res = {"script": sp, "impl_rc": rc, "impl_err": err, "mismatches": [], "oracle_fails": [], "n_lines": len(lines)}
    impl_lines = open(oi, errors="replace").read().split("\n")
    res["impl_lines"] = impl_lines
    if getattr(ctx, "host_locale", False) and impl_mode == "run":
        # the same script in a host program that installed its own global locale: what
        # goes on the wire and what to_string / the stream inserters give may not depend
        # on it.  Compared on the lines the harness prints in hex (locale-proof).
        ol = os.path.join(ctx.dir, name + ".impl-locale.out")
        env2 = dict(env)
        env2["VERIF_HOST_LOCALE"] = "1"
        rc2, err2 = run_driver(ctx.impl[kind], impl_mode, sp, ol, env=env2)
        keep = ("W ", "TS ", "SH ", "SHS ", "> CASE")
        a = [l for l in impl_lines if l.startswith(keep)]
        b = [l for l in open(ol, errors="replace").read().split("\n") if l.startswith(keep)]
        if a != b:
            k = next((i for i in range(min(len(a), len(b))) if a[i] != b[i]), min(len(a), len(b)))
            case = next((x.split()[2] for x in reversed(a[:k + 1]) if x.startswith("> CASE")), "?")
            res["locale_diff"] = (case, a[k] if k < len(a) else "<missing>", b[k] if k < len(b) else "<missing>")
    if getattr(ctx, "host_locale", False) and impl_mode == "run":
        # ... and in a host program that called setlocale(LC_ALL, "") under a UTF-8
        # locale: nothing at all may differ
        oc = os.path.join(ctx.dir, name + ".impl-clocale.out")
        env3 = dict(env)
        env3["VERIF_HOST_CLOCALE"] = "C.UTF-8"
        # ... and with the environment variables terminal programs like to consult
        env3.update({"NO_COLOR": "1", "TERM": "dumb", "COLORTERM": "truecolor", "LANG": "C.UTF-8", "LC_ALL": "C.UTF-8",
                     "COLUMNS": "40", "LINES": "10", "CLICOLOR": "0", "CLICOLOR_FORCE": "1"})
        rc3, err3 = run_driver(ctx.impl[kind], impl_mode, sp, oc, env=env3)
        b = open(oc, errors="replace").read().split("\n")
        if b != impl_lines and not res.get("locale_diff"):
            k = next((i for i in range(min(len(impl_lines), len(b))) if impl_lines[i] != b[i]), min(len(impl_lines), len(b)))
            case = next((x.split()[2] for x in reversed(impl_lines[:k + 1]) if x.startswith("> CASE")), "?")
            res["locale_diff"] = (case, impl_lines[k] if k < len(impl_lines) else "<missing>", b[k] if k < len(b) else "<missing>")
    if getattr(ctx, "host_locale", False) and impl_mode == "run" and not res.get("locale_diff"):
        # ... and in a host program whose namespace-scope objects use the library in their
        # constructors: the whole script during static initialisation, before the
        # library's own namespace-scope objects are initialised
        oe = os.path.join(ctx.dir, name + ".impl-early.out")
        env4 = dict(env)
        env4["VERIF_EARLY_SCRIPT"] = sp
        try:
            r4 = subprocess.run([ctx.impl[kind], "early"], stdout=open(oe, "w"), stderr=subprocess.PIPE, env=env4, timeout=1800)
            b = open(oe, errors="replace").read().split("\n")
            if b != impl_lines and rc == 0:
                k = next((i for i in range(min(len(impl_lines), len(b))) if impl_lines[i] != b[i]), min(len(impl_lines), len(b)))
                case = next((x.split()[2] for x in reversed(impl_lines[:k + 1]) if x.startswith("> CASE")), "?")
                res["locale_diff"] = (case, impl_lines[k] if k < len(impl_lines) else "<missing>",
                                      "during static initialisation: " + (b[k] if k < len(b) else "<missing>"))
        except subprocess.TimeoutExpired:
            pass
    if want_model:
        rcm, errm = run_driver(ctx.model, "model", sp, om)
        if rcm != 0:
            res["model_err"] = errm
        model_lines = open(om, errors="replace").read().split("\n")
        res["mismatches"] = diff_outputs(impl_lines, model_lines)
    if want_oracle:
        rco, erro = run_driver(ctx.model, "oracle", oi, oo)
        fails = []
        done = False
        for l in open(oo, errors="replace"):
            m = re.match(r"FAIL case=(\S+) term=(\d+) cfg=(\S+) op=(\d+) code=(\d+)", l)
            if m:
                fails.append({"case": m.group(1), "term": int(m.group(2)), "cfg": m.group(3), "op": int(m.group(4)), "code": int(m.group(5))})
            if l.startswith("ORACLE-DONE"):
                done = True
        if not done:
            res["oracle_err"] = "oracle did not finish: rc=%s %s" % (rco, erro)
        res["oracle_fails"] = fails
    return res


def case_script(script_lines, cid):
    cases, _ = split_cases(script_lines)
    return cases.get(str(cid))


def shrink(ctx, lines, still_fails, budget=120):
    """greedy one-line-at-a-time delta debugging over the op lines of a case"""
    head, body, tail = lines[:1], lines[1:-1], lines[-1:]
    changed = True
    n = 0
    while changed and n < budget:
        changed = False
        i = len(body) - 1
        while i >= 0 and n < budget:
            if re.match(r"^(T \d+ new|S \d+ new|K \d+ new|P \d+ new)", body[i]):
                i -= 1
                continue
            cand = body[:i] + body[i + 1:]
            n += 1
            if still_fails(head + cand + tail):
                body = cand
                changed = True
            i -= 1
    return head + body + tail


def load_known():
    if not os.path.exists(KNOWN):
        return {"findings": [], "fixed": []}
    return json.load(open(KNOWN))


def write_evidence(pid, tier, seed, level, coverage, assumptions, wall, violations):
    ev = {"property_id": pid, "tier": tier, "seed": seed, "level": level, "coverage": coverage,
          "assumptions": assumptions, "wall_s": round(wall, 2), "violations": violations}
    os.makedirs(os.path.join(VERIF, "evidence"), exist_ok=True)
    with open(os.path.join(VERIF, "evidence", pid + ".json"), "w") as fh:
        json.dump(ev, fh, indent=1)


def write_replay(pid, seed, tag, lines, info):
    os.makedirs(os.path.join(VERIF, "replay"), exist_ok=True)
    path = os.path.join(VERIF, "replay", "%s-%s-%s.script" % (pid, seed, tag))
    with open(path, "w") as fh:
        for k, v in info.items():
            for ln in str(v).split("\n"):
                fh.write("# %s: %s\n" % (k, ln))
        fh.write("\n".join(lines) + "\n")
    return path


FORBIDDEN = re.compile(r"\b(Admitted|admit|Axiom|Parameter|Conjecture|Admit Obligations)\b|Unset Guard Checking|Unset Positivity Checking|Unset Universe Checking|bypass_check|-type-in-type|-impredicative-set")


def hygiene():
    """no Admitted / Axiom / disabled checks anywhere in the development"""
    bad = []
    for f in sorted(glob.glob(os.path.join(VERIF, "coq", "*.v"))):
        if os.path.basename(f).startswith("Generated"):
            continue
        txt = open(f).read()
        txt = re.sub(r"\(\*.*?\*\)", "", txt, flags=re.S)
        for i, l in enumerate(txt.split("\n")):
            if FORBIDDEN.search(l):
                bad.append("%s:%d: %s" % (os.path.basename(f), i + 1, l.strip()))
    # Variable/Hypothesis outside a section
    return bad


def coq_phase(ctx, targets):
    """regenerate Generated.v, build the property's cone + Extract.vo.
    returns dict(ok, failed_targets, log, assumptions)"""
    t0 = time.time()
    changed, gerr = vbuild.build_gen()
    res = {"gen_error": gerr, "failed": [], "assumptions": {}, "log": ""}
    if gerr:
        return res
    os.makedirs(os.path.join(VERIF, "coq", "extracted"), exist_ok=True)
    ok, out = vbuild.coq_make(["Extract.vo"] + targets)
    res["log"] = out
    for t in ["Extract.vo"] + targets:
        if not os.path.exists(os.path.join(VERIF, "coq", t)):
            res["failed"].append(t)
        else:
            # a .vo left over from an earlier run does not count: make -q says
            # whether the target is up to date with everything it depends on
            q = subprocess.run(["make", "-f", "Makefile.coq", "-q", t], cwd=os.path.join(VERIF, "coq"),
                               stdout=subprocess.DEVNULL, stderr=subprocess.DEVNULL)
            if q.returncode != 0:
                res["failed"].append(t)
    res["wall"] = time.time() - t0
    return res


def print_assumptions(targets):
    """re-run coqc on the Properties files to capture Print Assumptions output"""
    out = {}
    coqdir = os.path.join(VERIF, "coq")
    for t in targets:
        src = t[:-1]
        try:
            r = subprocess.run(["coqc", "-Q", ".", "TP", src, "-o", "/dev/null"], cwd=coqdir, stdout=subprocess.PIPE, stderr=subprocess.STDOUT, text=True, timeout=600)
            out[src] = r.stdout
        except subprocess.TimeoutExpired:
            out[src] = "timeout"
    return out


def coqchk(targets, timeout=1500):
    """independent re-check of the compiled property files (thorough tier)"""
    coqdir = os.path.join(VERIF, "coq")
    mods = ["TP." + t[:-3] for t in targets]
    try:
        r = subprocess.run(["coqchk", "-o", "-silent", "-Q", ".", "TP"] + mods, cwd=coqdir,
                           stdout=subprocess.PIPE, stderr=subprocess.STDOUT, text=True, timeout=timeout)
    except subprocess.TimeoutExpired:
        return {"ok": False, "summary": "coqchk timed out after %ds" % timeout}
    txt = r.stdout
    i = txt.find("CONTEXT SUMMARY")
    summ = txt[i:] if i >= 0 else txt[-1500:]
    return {"ok": r.returncode == 0, "summary": " ".join(summ.split())[:1500]}


def parse_assumptions(text):
    """-> (n_closed, list of axiom names)"""
    closed = len(re.findall(r"Closed under the global context", text))
    axioms = []
    for blk in re.findall(r"Axioms:\n((?:.+\n?)+?)(?:\n|$)", text):
        for l in blk.split("\n"):
            m = re.match(r"^(\S+)\s*:", l)
            if m:
                axioms.append(m.group(1))
    return closed, sorted(set(axioms))


def main(argv):
    import argparse
    ap = argparse.ArgumentParser()
    ap.add_argument("pid")
    ap.add_argument("--tier", default=os.environ.get("VERIF_TIER", "quick"))
    ap.add_argument("--replay")
    a = ap.parse_args(argv)
    seed = int(os.environ.get("VERIF_SEED", "1"))
    tier = a.tier if a.tier in ("quick", "thorough") else "quick"
    # watchdog: a check that runs away is an internal error, never a verdict
    import faulthandler
    faulthandler.dump_traceback_later(int(os.environ.get("VERIF_BUDGET", "2700" if tier == "quick" else "21600")), exit=True)
    if a.pid not in props.PROPS:
        log("unknown property", a.pid)
        return 2
    return props.run_check(a.pid, tier, seed, a.replay)
