(* Markup.v — model of detail/element_udl.hpp (the 38-state attribute markup
   decoder), encoder.cpp, to_string and string(char const*, len).
   Definitions only. *)
From TP Require Export Term.
Local Open Scope N_scope.

Inductive mstate :=
| MIdle | MEscape | MCharcode0 | MCharcode1 | MCharcode2 | MCharset | MCharsetExt
| MIntensity | MPolarity | MUnderlining
| MFgLow | MFgHigh0 | MFgHigh1 | MFgHigh2 | MFgGrey0 | MFgGrey1
| MFgTrue0 | MFgTrue1 | MFgTrue2 | MFgTrue3 | MFgTrue4 | MFgTrue5
| MBgLow | MBgHigh0 | MBgHigh1 | MBgHigh2 | MBgGrey0 | MBgGrey1
| MBgTrue0 | MBgTrue1 | MBgTrue2 | MBgTrue3 | MBgTrue4 | MBgTrue5
| MUtf80 | MUtf81 | MUtf82 | MUtf83
| MDone.

(* index of the state in the handler table; MDone = 38 has no handler *)
Definition mstate_index (s : mstate) : N :=
  match s with
  | MIdle => 0 | MEscape => 1 | MCharcode0 => 2 | MCharcode1 => 3
  | MCharcode2 => 4 | MCharset => 5 | MCharsetExt => 6 | MIntensity => 7
  | MPolarity => 8 | MUnderlining => 9 | MFgLow => 10 | MFgHigh0 => 11
  | MFgHigh1 => 12 | MFgHigh2 => 13 | MFgGrey0 => 14 | MFgGrey1 => 15
  | MFgTrue0 => 16 | MFgTrue1 => 17 | MFgTrue2 => 18 | MFgTrue3 => 19
  | MFgTrue4 => 20 | MFgTrue5 => 21 | MBgLow => 22 | MBgHigh0 => 23
  | MBgHigh1 => 24 | MBgHigh2 => 25 | MBgGrey0 => 26 | MBgGrey1 => 27
  | MBgTrue0 => 28 | MBgTrue1 => 29 | MBgTrue2 => 30 | MBgTrue3 => 31
  | MBgTrue4 => 32 | MBgTrue5 => 33 | MUtf80 => 34 | MUtf81 => 35
  | MUtf82 => 36 | MUtf83 => 37 | MDone => 38
  end.

Record minfo := mkMi {
  mi_st : mstate; mi_charcode : N; mi_red : N; mi_green : N; mi_blue : N;
  mi_grey : N; mi_utf8 : N }.
Definition init_minfo : minfo := mkMi MIdle 0 0 0 0 0 0.

Definition mi_set_st i s := mkMi s (mi_charcode i) (mi_red i) (mi_green i) (mi_blue i) (mi_grey i) (mi_utf8 i).
Definition mi_set_charcode i x s := mkMi s x (mi_red i) (mi_green i) (mi_blue i) (mi_grey i) (mi_utf8 i).
Definition mi_set_red i x s := mkMi s (mi_charcode i) x (mi_green i) (mi_blue i) (mi_grey i) (mi_utf8 i).
Definition mi_set_green i x s := mkMi s (mi_charcode i) (mi_red i) x (mi_blue i) (mi_grey i) (mi_utf8 i).
Definition mi_set_blue i x s := mkMi s (mi_charcode i) (mi_red i) (mi_green i) x (mi_grey i) (mi_utf8 i).
Definition mi_set_grey i x s := mkMi s (mi_charcode i) (mi_red i) (mi_green i) (mi_blue i) x (mi_utf8 i).
Definition mi_set_utf8 i x s := mkMi s (mi_charcode i) (mi_red i) (mi_green i) (mi_blue i) (mi_grey i) x.

(* digit10_to_byte / digit16_to_byte on a char given as its byte value *)
Definition digit10 (c : byte) : N := (c + 208) mod 256.
Definition digit16 (c : byte) : N :=
  if (48 <=? c) && (c <=? 57) then c - 48
  else if (97 <=? c) && (c <=? 102) then c - 97 + 10
  else if (65 <=? c) && (c <=? 70) then c - 65 + 10
  else 0.

Definition set_glyph (e : element) (g : glyph) : element := mkElem g (ea e).
Definition set_attr (e : element) (a : attr) : element := mkElem (eg e) a.
Definition set_g0 (e : element) (b : byte) : element :=
  set_glyph e (mkGlyph (gcs (eg e)) b (g1 (eg e)) (g2 (eg e))).
Definition set_cs (e : element) (c : charset) : element :=
  set_glyph e (mkGlyph c (g0 (eg e)) (g1 (eg e)) (g2 (eg e))).
Definition set_fg (e : element) (c : colour) : element :=
  let a := ea e in set_attr e (mkAttr c (bg a) (inten a) (ul a) (neg a) (blink a)).
Definition set_bg (e : element) (c : colour) : element :=
  let a := ea e in set_attr e (mkAttr (fg a) c (inten a) (ul a) (neg a) (blink a)).
Definition set_inten (e : element) (x : intensity) : element :=
  let a := ea e in set_attr e (mkAttr (fg a) (bg a) x (ul a) (neg a) (blink a)).
Definition set_ul (e : element) (x : bool) : element :=
  let a := ea e in set_attr e (mkAttr (fg a) (bg a) (inten a) x (neg a) (blink a)).
Definition set_neg (e : element) (x : bool) : element :=
  let a := ea e in set_attr e (mkAttr (fg a) (bg a) (inten a) (ul a) x (blink a)).

Definition utf8_encode (v : N) : glyph :=
  if v <=? 127 then mkGlyph CsUtf8 (N.land v 127) 0 0
  else if v <=? 2047 then
    mkGlyph CsUtf8 (wrap8 (N.lor 192 (N.shiftr v 6))) (N.lor 128 (N.land v 63)) 0
  else if v <=? 65535 then
    mkGlyph CsUtf8 (wrap8 (N.lor 224 (N.shiftr v 12)))
            (N.lor 128 (N.land (N.shiftr v 6) 63)) (N.lor 128 (N.land v 63))
  else mkGlyph CsUtf8 63 0 0.

Definition try_charset (e : element) (code : list byte) : element :=
  match lookup_cs code with Some c => set_cs e c | None => e end.

Definition mstep (c : byte) (i : minfo) (e : element) : minfo * element :=
  match mi_st i with
  | MIdle =>
      if c =? 92 then (mi_set_st i MEscape, e) else (mi_set_st i MDone, set_g0 e c)
  | MEscape =>
      match c with
      | 67 => (mi_set_st i MCharcode0, e)
      | 99 => (mi_set_st i MCharset, e)
      | 105 => (mi_set_st i MIntensity, e)
      | 112 => (mi_set_st i MPolarity, e)
      | 117 => (mi_set_st i MUnderlining, e)
      | 91 => (mi_set_st i MFgLow, e)
      | 60 => (mi_set_st i MFgHigh0, e)
      | 123 => (mi_set_st i MFgGrey0, e)
      | 40 => (mi_set_st i MFgTrue0, e)
      | 93 => (mi_set_st i MBgLow, e)
      | 62 => (mi_set_st i MBgHigh0, e)
      | 125 => (mi_set_st i MBgGrey0, e)
      | 41 => (mi_set_st i MBgTrue0, e)
      | 85 => (mi_set_st i MUtf80, e)
      | 120 => (mi_set_st i MIdle, set_attr e default_attr)
      | _ => (mi_set_st i MDone, set_g0 e c)
      end
  | MCharcode0 => (mi_set_charcode i (digit10 c) MCharcode1, e)
  | MCharcode1 =>
      (mi_set_charcode i (wrap8 (wrap8 (mi_charcode i * 10) + digit10 c)) MCharcode2, e)
  | MCharcode2 =>
      let cc := wrap8 (wrap8 (mi_charcode i * 10) + digit10 c) in
      (mi_set_charcode i cc MDone, set_g0 e cc)
  | MCharset =>
      if c =? 37 then (mi_set_st i MCharsetExt, e)
      else (mi_set_st i MIdle, try_charset e [c])
  | MCharsetExt => (mi_set_st i MIdle, try_charset e [37; c])
  | MIntensity =>
      (mi_set_st i MIdle,
       set_inten e (if c =? 62 then IBold else if c =? 60 then IFaint else INormal))
  | MPolarity => (mi_set_st i MIdle, set_neg e (c =? 45))
  | MUnderlining => (mi_set_st i MIdle, set_ul e (c =? 43))
  | MFgLow => (mi_set_st i MIdle, set_fg e (CLow (digit10 c)))
  | MFgHigh0 => (mi_set_red i (digit10 c) MFgHigh1, e)
  | MFgHigh1 => (mi_set_green i (digit10 c) MFgHigh2, e)
  | MFgHigh2 =>
      (mi_set_st i MIdle, set_fg e (CHigh (encode_high (mi_red i) (mi_green i) (digit10 c))))
  | MFgGrey0 => (mi_set_grey i (digit10 c) MFgGrey1, e)
  | MFgGrey1 =>
      (mi_set_st i MIdle, set_fg e (CGrey (encode_grey (wrap8 (mi_grey i * 10 + digit10 c)))))
  | MFgTrue0 => (mi_set_red i (digit16 c * 16) MFgTrue1, e)
  | MFgTrue1 => (mi_set_red i (N.lor (mi_red i) (digit16 c)) MFgTrue2, e)
  | MFgTrue2 => (mi_set_green i (digit16 c * 16) MFgTrue3, e)
  | MFgTrue3 => (mi_set_green i (N.lor (mi_green i) (digit16 c)) MFgTrue4, e)
  | MFgTrue4 => (mi_set_blue i (digit16 c * 16) MFgTrue5, e)
  | MFgTrue5 =>
      let b := N.lor (mi_blue i) (digit16 c) in
      (mi_set_blue i b MIdle, set_fg e (CTrue (mi_red i) (mi_green i) b))
  | MBgLow => (mi_set_st i MIdle, set_bg e (CLow (digit10 c)))
  | MBgHigh0 => (mi_set_red i (digit10 c) MBgHigh1, e)
  | MBgHigh1 => (mi_set_green i (digit10 c) MBgHigh2, e)
  | MBgHigh2 =>
      (mi_set_st i MIdle, set_bg e (CHigh (encode_high (mi_red i) (mi_green i) (digit10 c))))
  | MBgGrey0 => (mi_set_grey i (digit10 c) MBgGrey1, e)
  | MBgGrey1 =>
      (mi_set_st i MIdle, set_bg e (CGrey (encode_grey (wrap8 (mi_grey i * 10 + digit10 c)))))
  | MBgTrue0 => (mi_set_red i (digit16 c * 16) MBgTrue1, e)
  | MBgTrue1 => (mi_set_red i (N.lor (mi_red i) (digit16 c)) MBgTrue2, e)
  | MBgTrue2 => (mi_set_green i (digit16 c * 16) MBgTrue3, e)
  | MBgTrue3 => (mi_set_green i (N.lor (mi_green i) (digit16 c)) MBgTrue4, e)
  | MBgTrue4 => (mi_set_blue i (digit16 c * 16) MBgTrue5, e)
  | MBgTrue5 =>
      let b := N.lor (mi_blue i) (digit16 c) in
      (mi_set_blue i b MIdle, set_bg e (CTrue (mi_red i) (mi_green i) b))
  | MUtf80 => (mi_set_utf8 i (digit16 c) MUtf81, e)
  | MUtf81 => (mi_set_utf8 i ((mi_utf8 i * 16 + digit16 c) mod 65536) MUtf82, e)
  | MUtf82 => (mi_set_utf8 i ((mi_utf8 i * 16 + digit16 c) mod 65536) MUtf83, e)
  | MUtf83 =>
      let v := (mi_utf8 i * 16 + digit16 c) mod 65536 in
      (mi_set_st i MDone, set_glyph e (utf8_encode v))
  | MDone => (i, e)   (* no handler: the loop never calls it *)
  end.

Definition element_with_base (b : element) : element :=
  let g := eg b in
  mkElem (mkGlyph (if cs_eqb (gcs g) CsUtf8 then CsAscii else gcs g) 32 (g1 g) (g2 g)) (ea b).

Definition is_done (s : mstate) : bool := mstate_index s =? 38.

(* the while loop of parse_element: structural on the text *)
Fixpoint parse_loop (text : list byte) (i : minfo) (e : element) : list byte * element :=
  match text with
  | [] => ([], e)
  | c :: r =>
      if is_done (mi_st i) then (text, e)
      else let '(i', e') := mstep c i e in parse_loop r i' e'
  end.

Definition parse_element (text : list byte) (base : element) : list byte * element :=
  parse_loop text init_minfo (element_with_base base).

(* encode: fuel = length of the input; parse_element consumes >= 1 byte of a
   non-empty input (proved in P_Markup), so the fuel never runs out *)
Fixpoint encode_loop (fuel : nat) (text : list byte) (prev : element) : list element :=
  match fuel with
  | O => []
  | S f =>
      match text with
      | [] => []
      | _ =>
          let '(rest, e) := parse_element text prev in
          e :: encode_loop f rest e
      end
  end.

Definition encode (text : list byte) : list element :=
  encode_loop (length text) text default_element.

(* operator""_ete *)
Definition ete (text : list byte) : element := snd (parse_element text default_element).

(* to_string (after the U+0000 fix: first byte unconditionally) *)
Definition glyph_text (g : glyph) : list byte :=
  if cs_eqb (gcs g) CsUtf8 then
    g0 g :: (if g1 g =? 0 then [] else g1 g :: (if g2 g =? 0 then [] else [g2 g]))
  else [g0 g].

Definition to_string (s : list element) : list byte :=
  flat_map (fun e => glyph_text (eg e)) s.

(* string(char const*, len): one default-attribute us_ascii element per byte *)
Definition of_bytes (bs : list byte) : list element :=
  map (fun b => mkElem (mkGlyph CsAscii b 0 0) default_attr) bs.
