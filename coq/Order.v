(* Order.v — model of ==, <, <=> and hashing of the value types.
   Definitions only. *)
From TP Require Export Elem Parser.
Local Open Scope N_scope.

Definition lex (a b : comparison) : comparison :=
  match a with Eq => b | _ => a end.

Fixpoint list_cmp {A} (cmp : A -> A -> comparison) (a b : list A) : comparison :=
  match a, b with
  | [], [] => Eq
  | [], _ :: _ => Lt
  | _ :: _, [] => Gt
  | x :: a', y :: b' => lex (cmp x y) (list_cmp cmp a' b')
  end.

Definition bool_cmp (a b : bool) : comparison :=
  match a, b with
  | false, true => Lt | true, false => Gt | _, _ => Eq
  end.

Definition cs_cmp (a b : charset) : comparison := N.compare (cs_index a) (cs_index b).

(* glyph: operator<=> is defined from operator< *)
Definition glyph_cmp (a b : glyph) : comparison :=
  if glyph_ltb a b then Lt else if glyph_ltb b a then Gt else Eq.

Definition colour_tag (c : colour) : N :=
  match c with CLow _ => 0 | CHigh _ => 1 | CGrey _ => 2 | CTrue _ _ _ => 3 end.

Definition colour_cmp (a b : colour) : comparison :=
  match a, b with
  | CLow x, CLow y => N.compare x y
  | CHigh x, CHigh y => N.compare x y
  | CGrey x, CGrey y => N.compare x y
  | CTrue r g b, CTrue r' g' b' =>
      lex (N.compare r r') (lex (N.compare g g') (N.compare b b'))
  | _, _ => N.compare (colour_tag a) (colour_tag b)
  end.

Definition attr_cmp (a b : attr) : comparison :=
  lex (colour_cmp (fg a) (fg b))
  (lex (colour_cmp (bg a) (bg b))
  (lex (N.compare (inten_code (inten a)) (inten_code (inten b)))
  (lex (N.compare (ul_code (ul a)) (ul_code (ul b)))
  (lex (N.compare (neg_code (neg a)) (neg_code (neg b)))
       (N.compare (blink_code (blink a)) (blink_code (blink b))))))).

Definition element_cmp (a b : element) : comparison :=
  lex (glyph_cmp (eg a) (eg b)) (attr_cmp (ea a) (ea b)).

Definition string_cmp : list element -> list element -> comparison :=
  list_cmp element_cmp.
Definition string_eqb : list element -> list element -> bool :=
  list_eqb element_eqb.

(* hash keys: the C++ hash of a value is a function of its key only *)
Definition attr_hash_key (a : attr) : list (list N) := attr_key a.
Definition element_hash_key (e : element) : list (list N) :=
  glyph_hash_key (eg e) :: attr_hash_key (ea e).
Definition string_hash_key (s : list element) : list (list (list N)) :=
  map element_hash_key s.

Definition keys_eqb (a b : list (list N)) : bool := list_eqb (list_eqb N.eqb) a b.

(* point: members declared y_ then x_; coordinates are int32 *)
Definition zpt := (Z * Z)%type.   (* (x, y) *)
Definition point_cmp (a b : zpt) : comparison :=
  lex (Z.compare (snd a) (snd b)) (Z.compare (fst a) (fst b)).
Definition point_eqb (a b : zpt) : bool := Z.eqb (fst a) (fst b) && Z.eqb (snd a) (snd b).
(* extent: width_ then height_ *)
Definition extent_cmp (a b : zpt) : comparison :=
  lex (Z.compare (fst a) (fst b)) (Z.compare (snd a) (snd b)).
Definition rect_cmp (a b : zpt * zpt) : comparison :=
  lex (point_cmp (fst a) (fst b)) (extent_cmp (snd a) (snd b)).
Definition rect_eqb (a b : zpt * zpt) : bool :=
  point_eqb (fst a) (fst b) && point_eqb (snd a) (snd b).

Definition bytes_cmp : list byte -> list byte -> comparison := list_cmp N.compare.

Definition cseq_cmp (a b : cseq) : comparison :=
  lex (N.compare (cs_init a) (cs_init b))
  (lex (N.compare (cs_cmd a) (cs_cmd b))
  (lex (bool_cmp (cs_meta a) (cs_meta b))
  (lex (list_cmp bytes_cmp (cs_args a) (cs_args b))
       (N.compare (cs_ext a) (cs_ext b))))).
Definition cseq_eqb (a b : cseq) : bool :=
  (cs_init a =? cs_init b) && (cs_cmd a =? cs_cmd b) &&
  Bool.eqb (cs_meta a) (cs_meta b) &&
  list_eqb (list_eqb N.eqb) (cs_args a) (cs_args b) && (cs_ext a =? cs_ext b).

Definition kseq_cmp (a b : kseq) : comparison :=
  match a, b with
  | KByte x, KByte y => N.compare x y
  | KSeq x, KSeq y => cseq_cmp x y
  | KByte _, KSeq _ => Lt
  | KSeq _, KByte _ => Gt
  end.
Definition kseq_eqb (a b : kseq) : bool :=
  match a, b with
  | KByte x, KByte y => x =? y
  | KSeq x, KSeq y => cseq_eqb x y
  | _, _ => false
  end.

Record vkey := mkVk { k_key : N; k_mods : N; k_rep : Z; k_seq : kseq }.
Definition vkey_cmp (a b : vkey) : comparison :=
  lex (N.compare (k_key a) (k_key b))
  (lex (N.compare (k_mods a) (k_mods b))
  (lex (Z.compare (k_rep a) (k_rep b)) (kseq_cmp (k_seq a) (k_seq b)))).
Definition vkey_eqb (a b : vkey) : bool :=
  (k_key a =? k_key b) && (k_mods a =? k_mods b) && Z.eqb (k_rep a) (k_rep b) &&
  kseq_eqb (k_seq a) (k_seq b).

Definition mouse_cmp (a b : N * zpt) : comparison :=
  lex (N.compare (fst a) (fst b)) (point_cmp (snd a) (snd b)).
Definition mouse_eqb (a b : N * zpt) : bool :=
  (fst a =? fst b) && point_eqb (snd a) (snd b).
