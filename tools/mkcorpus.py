#!/usr/bin/env python3
"""Writes the committed corpus scripts that always run first: exhaustive sweeps of
the tables that live inside .cpp files (key, modifier, keypad and mouse tables),
so that they are tied to the model on their whole domain and not by sampling."""
import os
V = os.path.dirname(os.path.dirname(os.path.abspath(__file__)))


def hx(bs):
    return "".join("%02x" % b for b in bs) if bs else "-"


def case(lines, n, streams):
    lines.append("CASE %d" % n)
    lines.append("T 0 new 0")
    lines.append("T 0 arm")
    for s in streams:
        lines.append("T 0 recv " + hx(s))
    lines.append("T 0 recv 41424344")   # four letters: back to rest
    lines.append("END")


def main():
    lines = []
    n = 0
    for f in range(256):
        for intro in ([27, 91], [155], [27, 79], [143], [27, 27, 91], [27, 27, 79]):
            for args in (b"", b"5", b"1;2", b"3;6"):
                if args and f in (48, 49, 50, 51, 52, 53, 54, 55, 56, 57, 59):
                    continue
                n += 1
                case(lines, n, [list(bytes(intro) + args + bytes([f]))])
    for m in range(0, 21):
        for body in (b"1;%dA" % m, b"15;%d~" % m, b"2;%dZ" % m):
            n += 1
            case(lines, n, [[27, 91] + list(body)])
    for k in range(0, 31):
        for suffix in (b"~", b";5~"):
            n += 1
            case(lines, n, [[27, 91] + list(str(k).encode() + suffix), [155] + list(str(k).encode() + suffix)])
    for b in range(256):
        n += 1
        case(lines, n, [[27, 91, 77, b, 33, 34], [155, 77, b, 255, 0]])
    for b in range(256):
        n += 1
        case(lines, n, [[b], [13, b], [10, b]])
    os.makedirs(os.path.join(V, "corpus", "chunks"), exist_ok=True)
    with open(os.path.join(V, "corpus", "chunks", "exhaustive_tables.script"), "w") as fh:
        fh.write("# exhaustive sweep of the in-.cpp key / modifier / keypad / mouse tables and of all single bytes\n")
        fh.write("\n".join(lines) + "\n")
    print("cases:", n)


if __name__ == "__main__":
    main()
