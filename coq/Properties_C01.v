(* Properties_C01.v -- placeholder, theorems follow *)
From TP Require Import Term.
