(* Properties_C11.v — C11: mode switches leave the last requested mode in effect
   and respect capabilities. *)
From TP Require Import Base Elem Term VT Oracle P_Sync P_Step P_Bytes P_Run P_Props Tie_Output Screen P_Canvas P_Screen.
Local Open Scope N_scope.

(* After any well-formed history from any initial terminal (modes unknown),
   for all capability combinations: cursor visibility, the two mouse modes, the
   active buffer and the title of the terminal are the fold of the requests
   over the initial modes, where modes_after says: show/hide set DECTCEM;
   enable/disable set and reset exactly the one mode the behaviour selects
   (1000 if basic, else 1003 if all-motion, else nothing); buffers set mode 47;
   a title is taken iff BEL or ST form is supported. *)
Theorem C11_modes :
  forall cfg beh, (b_unicode_all beh = true -> unicode_all cfg = true) ->
  forall v0 h, vt0_ok v0 -> wf_hist beh init_tstate h ->
    modes_of (snd (hrun cfg beh init_tstate v0 h)) = hist_modes beh h (modes_of v0).
Proof.
  intros cfg beh Huni v0 h H0 Hwf.
  exact (modes_hrun cfg beh Huni h init_tstate v0 (sync_init beh v0 H0) Hwf).
Qed.
Print Assumptions C11_modes.

(* the last request wins, even though repeated requests are elided *)
Theorem C11_last_request_wins :
  forall beh m,
    (forall o, fst (fst (fst (fst (modes_after beh (modes_after beh m o) Show)))) = true) /\
    (forall o, fst (fst (fst (fst (modes_after beh (modes_after beh m o) Hide)))) = false) /\
    (forall o, snd (fst (modes_after beh (modes_after beh m o) BufAlt)) = true) /\
    (forall o, snd (fst (modes_after beh (modes_after beh m o) BufNormal)) = false).
Proof.
  intros beh [[[[vi m0] m3] ab] ti].
  repeat split; intros o; destruct o; cbn;
    repeat match goal with |- context[match ?x with _ => _ end] => destruct x end; reflexivity.
Qed.

(* capabilities: nothing at all is sent when the behaviour supports none, and
   the form sent is the supported one *)
Theorem C11_capabilities :
  forall beh st t,
    (b_basic_mouse beh = false -> b_all_mouse beh = false ->
       obytes beh st MouseOn = [] /\ obytes beh st MouseOff = []) /\
    (b_basic_mouse beh = true ->
       obytes beh st MouseOn = render (Csi true [1000] 104) /\
       obytes beh st MouseOff = render (Csi true [1000] 108)) /\
    (b_basic_mouse beh = false -> b_all_mouse beh = true ->
       obytes beh st MouseOn = render (Csi true [1003] 104) /\
       obytes beh st MouseOff = render (Csi true [1003] 108)) /\
    (b_title_bel beh = false -> b_title_st beh = false -> obytes beh st (Title t) = []) /\
    (b_title_bel beh = true -> obytes beh st (Title t) = render (Osc (50 :: 59 :: t) true)) /\
    (b_title_bel beh = false -> b_title_st beh = true ->
       obytes beh st (Title t) = render (Osc (50 :: 59 :: t) false)).
Proof.
  intros beh st t. unfold obytes. cbn [step snd]. unfold mouse_cmd, mouse_mode, title_cmd.
  repeat split; intros; repeat match goal with H : _ = _ |- _ => rewrite H end;
    cbn [render_all flat_map]; rewrite ?app_nil_r; reflexivity.
Qed.
Print Assumptions C11_capabilities.

(* visibility requests are elided only when the belief says they are in
   effect, and the belief is true (C08) *)
Theorem C11_visibility_bytes :
  forall beh st (want : bool),
    obytes beh st (if want then Show else Hide) =
    match ts_vis st with
    | Some b => if Bool.eqb b want then [] else render (dectcem want)
    | None => render (dectcem want)
    end.
Proof.
  intros beh st want. unfold obytes. destruct want; cbn [step]; unfold show_hide; cbn [snd];
    destruct (ts_vis st) as [[|]|]; cbn [Bool.eqb negb render_all flat_map]; rewrite ?app_nil_r; reflexivity.
Qed.

(* a screen draw requests no mode: cursor visibility, mouse modes, buffer and
   title stay as last requested (the draw may have been preceded by hide_cursor,
   enable_mouse, ...) *)
Theorem C11_draw_keeps_modes :
  forall cfg beh, (b_unicode_all beh = true -> unicode_all cfg = true) ->
  forall s st v c,
    Sync beh st v -> ts_size st = (cw c, ch c) -> canvas_elems_wf c ->
    (same_size s c = true -> Frame (last_frame s) v) ->
    (wrap cfg <> Immediate \/
     element_eqb (cv_get (prev_frame s c) (cw c - 1) (ch c - 1)) (cv_get c (cw c - 1) (ch c - 1)) = true) ->
    let v' := vt_bytes cfg v (render_all (snd (draw beh s st c))) in
    modes_of v' = modes_of v.
Proof.
  intros cfg beh Huni s st v c S Hsz Hwf Hf Hns v'.
  destruct (draw_correct cfg beh Huni s st v c S Hsz Hwf Hf Hns) as (_ & _ & _ & _ & _ & H). exact H.
Qed.
Print Assumptions C11_draw_keeps_modes.
