(* Tie_Charset.v — the model's character-set functions equal the COMPLETE
   graphs of the real lookup_character_set / encode_character_set (Generated.v,
   re-derived from the headers on every run). *)
From TP Require Import Elem Screen Generated.
Local Open Scope N_scope.

Lemma tie_charset_order : g_charset_order = map cs_index all_charsets.
Proof. vm_compute. reflexivity. Qed.

Lemma tie_lookup1 :
  map (fun b => option_map cs_index (lookup_cs [b])) (Nseq 0 256) = g_lookup1.
Proof. vm_compute. reflexivity. Qed.

Lemma tie_lookup2 :
  map (fun b => option_map cs_index (lookup_cs [37; b])) (Nseq 0 256) = g_lookup2.
Proof. vm_compute. reflexivity. Qed.

Lemma tie_lookup_edge :
  g_lookup_extender_alone = [option_map cs_index (lookup_cs [37])] /\
  g_lookup_empty = [option_map cs_index (lookup_cs [])] /\
  g_charset_extender = 37.
Proof. vm_compute. repeat split. Qed.

Lemma tie_encode_cs : map encode_cs all_charsets = g_encode_cs.
Proof. vm_compute. reflexivity. Qed.
