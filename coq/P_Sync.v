(* P_Sync.v — the invariant relating the library's belief (tstate) to the
   reference terminal, and its preservation by every operation. *)
From TP Require Import Base Elem Term VT Oracle P_Dec P_VT P_Diff.
From Coq Require Import ZArith Lia ZifyBool ZifyN.
Local Open Scope N_scope.

Lemma vt_eta v :
  v = mkVt (lex v) (malformed v) (unknown v) (vsize v) (cells v) (vcur v) (pending v)
           (rend v) (g0cs v) (utf8 v) (vsaved v) (vis v) (m1000 v) (m1003 v) (altbuf v)
           (title v) (trace v).
Proof. destruct v; reflexivity. Qed.

Lemma set_rend_same v : set_rend v (rend v) = v.
Proof. destruct v; reflexivity. Qed.
Lemma set_cs_same v : set_utf8 (set_g0cs v (g0cs v)) (utf8 v) = v.
Proof. destruct v; reflexivity. Qed.

Definition modes_of (v : vt) := (vis v, m1000 v, m1003 v, altbuf v, title v).

Lemma advance_cur st g : is_control_glyph g = false ->
  ts_cur (advance_cursor st g) =
  match ts_cur st with
  | Some (x, y) => if x + 1 =? fst (ts_size st) then None else Some (x + 1, y)
  | None => None
  end.
Proof.
  intros Hg. unfold advance_cursor. rewrite Hg. destruct (ts_cur st) as [[x y]|] eqn:E; [|exact E].
  destruct (x + 1 =? fst (ts_size st)); reflexivity.
Qed.
Lemma advance_cur_control st g : is_control_glyph g = true -> ts_cur (advance_cursor st g) = None.
Proof.
  intros Hg. unfold advance_cursor. rewrite Hg. destruct (ts_cur st) as [[x y]|] eqn:E; [reflexivity|exact E].
Qed.
Lemma advance_other st g :
  ts_size (advance_cursor st g) = ts_size st /\ ts_last (advance_cursor st g) = ts_last st /\
  ts_saved (advance_cursor st g) = ts_saved st /\ ts_vis (advance_cursor st g) = ts_vis st.
Proof.
  unfold advance_cursor. destruct (ts_cur st) as [[x y]|]; [|repeat split].
  destruct (is_control_glyph g); [repeat split|].
  destruct (x + 1 =? fst (ts_size st)); repeat split.
Qed.

Lemma displayable_not_control g : displayable g = true -> is_control_glyph g = false.
Proof.
  unfold displayable, is_control_glyph.
  destruct (cs_eqb (gcs g) CsUtf8).
  - intros H. apply andb_prop in H as [_ H].
    destruct (g0 g <=? 127) eqn:E; [lia|]. lia.
  - intros H. lia.
Qed.

Lemma adv_lt x w : (x <? w) = true -> (x + 1 =? w) = false -> (x + 1 <? w) = true.
Proof. lia. Qed.
Lemma inside_adv x y w h : (x + 1 <? w) = true -> (y <? h) = true ->
  inside (x + 1, y) (w, h) = true.
Proof. unfold inside. cbn [fst snd]. lia. Qed.
Lemma inside_split p sz : inside p sz = true -> (fst p <? fst sz) = true /\ (snd p <? snd sz) = true.
Proof. unfold inside. lia. Qed.

Section Sync.
Variable cfg : vtcfg.
Variable beh : behaviour.
Hypothesis Huni : b_unicode_all beh = true -> unicode_all cfg = true.

Definition cs_ok (c : charset) (v : vt) : Prop :=
  if cs_eqb c CsUtf8
  then utf8 v = true /\ (b_unicode_all beh = true \/ g0cs v = CsAscii)
  else utf8 v = false /\ g0cs v = c.

Definition last_cs (st : tstate) : charset :=
  match ts_last st with Some l => gcs (eg l) | None => CsAscii end.

Record Sync (st : tstate) (v : vt) : Prop := mkSync {
  sy_lex : lex v = Ground;
  sy_mal : malformed v = false;
  sy_unk : unknown v = false;
  sy_size : ts_size st = vsize v;
  sy_cs : cs_ok (last_cs st) v;
  sy_rend : forall l, ts_last st = Some l -> rend v = rend_of (ea l);
  sy_cur : forall p, ts_cur st = Some p ->
           vcur v = p /\ pending v = false /\ inside p (vsize v) = true;
  sy_saved : forall p, ts_saved st = Some p ->
             vsaved v = Some p /\ inside p (vsize v) = true;
  sy_vis : forall b, ts_vis st = Some b -> vis v = b }.

(* ---- character set --------------------------------------------------------- *)
Lemma std_lookup_encode c : c <> CsUtf8 -> std_lookup (encode_cs c) = Some c.
Proof. destruct c; intros H; try reflexivity. congruence. Qed.

Definition g0_after (v : vt) (d : charset) : charset :=
  if cs_eqb d CsUtf8 then (if b_unicode_all beh then g0cs v else CsAscii) else d.

Lemma exec_designate v c : c <> CsUtf8 ->
  vt_exec cfg v (designate_g0 c) = set_g0cs v c.
Proof.
  intros H. cbn [vt_exec designate_g0]. unfold vt_designate.
  rewrite std_lookup_encode by exact H. reflexivity.
Qed.

Lemma exec_change_charset v s d :
  cs_ok s v ->
  vt_execs cfg v (change_charset beh s d) =
  set_utf8 (set_g0cs v (g0_after v d)) (cs_eqb d CsUtf8).
Proof.
  unfold cs_ok, change_charset, g0_after. intros Hs.
  destruct (cs_eqb s d) eqn:Esd.
  - apply cs_eqb_eq in Esd. subst d. cbn [vt_execs fold_left].
    destruct (cs_eqb s CsUtf8) eqn:Eu.
    + destruct Hs as [Hu Hg]. destruct (b_unicode_all beh) eqn:Eb.
      * rewrite <- Hu. symmetry. apply set_cs_same.
      * destruct Hg as [Hg|Hg]; [discriminate|]. rewrite <- Hg, <- Hu. symmetry. apply set_cs_same.
    + destruct Hs as [Hu Hg]. rewrite <- Hg at 1. rewrite <- Hu. symmetry. apply set_cs_same.
  - destruct (cs_eqb d CsUtf8) eqn:Ed.
    + (* to utf8 *)
      apply cs_eqb_eq in Ed. subst d.
      assert (Es : cs_eqb s CsUtf8 = false) by exact Esd.
      rewrite Es in Hs. destruct Hs as [Hu Hg].
      destruct (b_unicode_all beh) eqn:Eb.
      * cbn [app vt_execs fold_left vt_exec]. destruct v; reflexivity.
      * destruct (cs_eqb s CsAscii) eqn:Ea.
        -- apply cs_eqb_eq in Ea. rewrite Ea in Hg. cbn [app vt_execs fold_left vt_exec].
           rewrite <- Hg. destruct v; reflexivity.
        -- unfold change_charset_nonutf8. rewrite Es.
           cbn [app vt_execs fold_left]. rewrite exec_designate by discriminate.
           cbn [vt_exec]. reflexivity.
    + unfold change_charset_nonutf8.
      assert (Hd : d <> CsUtf8) by (apply cs_eqb_neq; exact Ed).
      destruct (cs_eqb s CsUtf8) eqn:Es.
      * cbn [app vt_execs fold_left]. rewrite exec_designate by exact Hd.
        cbn [vt_exec]. destruct v; reflexivity.
      * cbn [app vt_execs fold_left]. rewrite exec_designate by exact Hd.
        destruct Hs as [Hu Hg]. rewrite <- Hu. destruct v; reflexivity.
Qed.

Lemma cs_ok_after v s d :
  cs_ok s v -> cs_ok d (set_utf8 (set_g0cs v (g0_after v d)) (cs_eqb d CsUtf8)).
Proof.
  unfold cs_ok, g0_after. intros Hs. destruct (cs_eqb d CsUtf8) eqn:Ed; cbn [utf8 g0cs set_utf8 set_g0cs].
  - split; [reflexivity|]. destruct (b_unicode_all beh); [left; reflexivity|right; reflexivity].
  - split; reflexivity.
Qed.

(* ---- attribute ---------------------------------------------------------------- *)
Lemma exec_change_attribute' v a b :
  rend v = rend_of a -> wf_colour (fg b) = true -> wf_colour (bg b) = true ->
  vt_execs cfg v (change_attribute a b) = set_rend v (rend_of b).
Proof.
  intros Hr Hf Hb.
  destruct (exec_change_attribute cfg v a b Hr Hf Hb) as [H|[H1 H2]]; [exact H|].
  rewrite H1, H2. symmetry. apply set_rend_same.
Qed.

(* ---- glyph payload --------------------------------------------------------------- *)
Definition shown_of (g : glyph) : shown :=
  if cs_eqb (gcs g) CsUtf8 then ShownUtf8 else ShownCs (gcs g).
Definition bytes_of (g : glyph) : list byte :=
  if cs_eqb (gcs g) CsUtf8 then wire g else [g0 g].

Lemma display_of_eq e : display_of e = mkCell (bytes_of (eg e)) (shown_of (eg e)) (rend_of (ea e)).
Proof. unfold display_of, bytes_of, shown_of. destruct (cs_eqb (gcs (eg e)) CsUtf8); reflexivity. Qed.

Lemma utf8_shown v : cs_ok CsUtf8 v ->
  (if unicode_all cfg || cs_eqb (g0cs v) CsAscii then ShownUtf8 else Garbled) = ShownUtf8.
Proof.
  unfold cs_ok. cbn [cs_eqb cs_index N.eqb Pos.eqb]. intros [_ [H|H]].
  - rewrite (Huni H). reflexivity.
  - rewrite H. rewrite orb_true_r. reflexivity.
Qed.

Lemma payload_displayable v g :
  lex v = Ground -> cs_ok (gcs g) v -> displayable g = true ->
  vt_bytes cfg v (wire g) = put_glyph cfg v (bytes_of g) (shown_of g).
Proof.
  intros Hg Hcs Hd. unfold displayable in Hd. unfold bytes_of, shown_of.
  destruct (cs_eqb (gcs g) CsUtf8) eqn:Eu.
  - unfold wire. rewrite Eu.
    apply cs_eqb_eq in Eu. rewrite Eu in Hcs.
    pose proof (utf8_shown v Hcs) as Hsh. destruct Hcs as [Hu _].
    apply andb_prop in Hd as [Hwf Hd]. unfold wf_utf8, cont in Hwf. unfold utf8_len, hi.
    destruct (g0 g <=? 127) eqn:E0.
    + (* one byte *)
      assert (H1 : negb (128 <=? g0 g) = true) by lia. rewrite H1.
      unfold vt_bytes, fold_left, vt_byte. rewrite Hg.
      assert ((g0 g =? 27) = false) as -> by lia.
      unfold vt_text. assert ((g0 g <? 32) = false) as -> by lia. rewrite Hu, Hsh. rewrite Hd. reflexivity.
    + assert (H1 : negb (128 <=? g0 g) = false) by lia. rewrite H1.
      destruct (g2 g =? 0) eqn:E2.
      * (* two bytes *)
        assert (H2 : negb (128 <=? g1 g) = false) by lia. rewrite H2.
        assert (H3 : negb (128 <=? g2 g) = true) by lia. rewrite H3.
        unfold vt_bytes, fold_left. unfold vt_byte at 2. rewrite Hg.
        assert ((g0 g =? 27) = false) as -> by lia.
        unfold vt_text. assert ((g0 g <? 32) = false) as -> by lia. rewrite Hu.
        assert ((32 <=? g0 g) && (g0 g <=? 126) = false) as -> by lia.
        assert ((194 <=? g0 g) && (g0 g <=? 223) = true) as -> by lia.
        unfold vt_byte. cbn [lex set_lex].
        assert ((128 <=? g1 g) && (g1 g <=? 191) = true) as -> by lia.
        cbn [g0cs utf8 set_lex]. rewrite Hsh, set_lex_idem, set_lex_ground by exact Hg.
        reflexivity.
      * assert (H2 : negb (128 <=? g1 g) = false) by lia. rewrite H2.
        assert (H3 : negb (128 <=? g2 g) = false) by lia. rewrite H3.
        unfold vt_bytes, fold_left. unfold vt_byte at 3. rewrite Hg.
        assert ((g0 g =? 27) = false) as -> by lia.
        unfold vt_text. assert ((g0 g <? 32) = false) as -> by lia. rewrite Hu.
        assert ((32 <=? g0 g) && (g0 g <=? 126) = false) as -> by lia.
        assert ((194 <=? g0 g) && (g0 g <=? 223) = false) as -> by lia.
        assert ((224 <=? g0 g) && (g0 g <=? 239) = true) as -> by lia.
        unfold vt_byte at 2. cbn [lex set_lex].
        assert ((128 <=? g1 g) && (g1 g <=? 191) = true) as -> by lia.
        unfold vt_byte. cbn [lex set_lex].
        assert ((128 <=? g2 g) && (g2 g <=? 191) = true) as -> by lia.
        cbn [g0cs utf8 set_lex]. rewrite Hsh, !set_lex_idem, set_lex_ground by exact Hg.
        reflexivity.
  - unfold wire. rewrite Eu. unfold cs_ok in Hcs. rewrite Eu in Hcs. destruct Hcs as [Hu Hg0].
    unfold vt_bytes, fold_left, vt_byte. rewrite Hg.
    assert ((g0 g =? 27) = false) as -> by lia.
    unfold vt_text. assert ((g0 g <? 32) = false) as -> by lia. rewrite Hu, Hg0.
    assert (((32 <=? g0 g) && (g0 g <=? 126) || (160 <=? g0 g)) = true) as -> by lia.
    reflexivity.
Qed.

(* ---- put_glyph ------------------------------------------------------------------------ *)
Lemma put_glyph_frame v bs sh :
  let v' := put_glyph cfg v bs sh in
  lex v' = lex v /\ malformed v' = malformed v /\ unknown v' = unknown v /\
  vsize v' = vsize v /\ rend v' = rend v /\ g0cs v' = g0cs v /\ utf8 v' = utf8 v /\
  vsaved v' = vsaved v /\ modes_of v' = modes_of v.
Proof.
  unfold put_glyph, next_line, scroll_up, modes_of.
  repeat match goal with
         | |- context[if ?c then _ else _] => destruct c
         | |- context[match wrap cfg with _ => _ end] => destruct (wrap cfg)
         end; cbn; repeat split; reflexivity.
Qed.

Lemma put_glyph_trace v bs sh : pending v = false ->
  trace (put_glyph cfg v bs sh) = (vcur v, mkCell bs sh (rend v)) :: trace v.
Proof.
  intros Hp. unfold put_glyph. rewrite Hp. unfold next_line, scroll_up.
  repeat match goal with
         | |- context[if ?c then _ else _] => destruct c
         | |- context[match wrap cfg with _ => _ end] => destruct (wrap cfg)
         end; reflexivity.
Qed.

Lemma put_glyph_trace_any v bs sh :
  exists q, trace (put_glyph cfg v bs sh) = (q, mkCell bs sh (rend v)) :: trace v.
Proof.
  unfold put_glyph, next_line, scroll_up.
  repeat match goal with
         | |- context[if ?c then _ else _] => destruct c
         | |- context[match wrap cfg with _ => _ end] => destruct (wrap cfg)
         end; eexists; reflexivity.
Qed.

Lemma put_glyph_cursor v bs sh x y :
  pending v = false -> vcur v = (x, y) -> (x + 1 <? fst (vsize v)) = true ->
  vcur (put_glyph cfg v bs sh) = (x + 1, y) /\ pending (put_glyph cfg v bs sh) = false.
Proof.
  intros Hp Hc Hx. unfold put_glyph. rewrite Hp.
  cbn [vsize set_trace set_cells vcur]. rewrite Hc. cbn [fst snd]. rewrite Hx.
  cbn. split; [reflexivity|exact Hp].
Qed.

Lemma put_glyph_cells v bs sh :
  pending v = false ->
  (wrap cfg <> Immediate \/
   ~ ((fst (vcur v) + 1 <? fst (vsize v)) = false /\ (snd (vcur v) + 1 <? snd (vsize v)) = false)) ->
  cells (put_glyph cfg v bs sh) = upd_cell (cells v) (vcur v) (mkCell bs sh (rend v)).
Proof.
  intros Hp Hw. unfold put_glyph. rewrite Hp.
  cbn [vsize set_trace set_cells vcur].
  destruct (fst (vcur v) + 1 <? fst (vsize v)) eqn:Ex; [reflexivity|].
  destruct (wrap cfg) eqn:Ew; try reflexivity.
  unfold next_line. cbn [vcur vsize set_trace set_cells snd].
  destruct (snd (vcur v) + 1 <? snd (vsize v)) eqn:Ey; [reflexivity|].
  exfalso. destruct Hw as [Hw|Hw]; [congruence|]. apply Hw. split; reflexivity.
Qed.

(* ---- write_element ---------------------------------------------------------------------- *)
Definition elem_facts (st : tstate) (v v' : vt) (e : element) : Prop :=
  (exists q, trace v' = (q, display_of e) :: trace v /\
             (forall p, ts_cur st = Some p -> q = p)) /\
  modes_of v' = modes_of v /\
  (forall p, ts_cur st = Some p ->
     (wrap cfg <> Immediate \/
      ~ ((fst p + 1 <? fst (vsize v)) = false /\ (snd p + 1 <? snd (vsize v)) = false)) ->
     cells v' = upd_cell (cells v) p (display_of e)).

Lemma sync_write_element st v e l :
  Sync st v -> ts_last st = Some l -> wf_elem e = true ->
  let st' := fst (write_element beh st e) in
  let v' := vt_execs cfg v (snd (write_element beh st e)) in
  Sync st' v' /\ elem_facts st v v' e.
Proof.
  intros S Hl Hwf. unfold wf_elem in Hwf.
  apply andb_prop in Hwf as [Hwf Hbg]. apply andb_prop in Hwf as [Hdisp Hfg].
  destruct S as [Slex Smal Sunk Ssize Scs Srend Scur Ssaved Svis].
  unfold last_cs in Scs. rewrite Hl in Scs. specialize (Srend l Hl).
  unfold write_element. rewrite Hl. cbn [fst snd].
  rewrite !vt_execs_app.
  rewrite (exec_change_charset v _ (gcs (eg e)) Scs).
  set (v1 := set_utf8 (set_g0cs v (g0_after v (gcs (eg e)))) (cs_eqb (gcs (eg e)) CsUtf8)).
  assert (Hcs1 : cs_ok (gcs (eg e)) v1) by (apply (cs_ok_after v _ _ Scs)).
  rewrite (exec_change_attribute' v1 (ea l) (ea e)) by (first [exact Srend | assumption]).
  set (v2 := set_rend v1 (rend_of (ea e))).
  assert (Hcs2 : cs_ok (gcs (eg e)) v2) by exact Hcs1.
  cbn [vt_execs fold_left vt_exec].
  rewrite (payload_displayable v2 (eg e)) by (first [exact Slex | exact Hcs2 | exact Hdisp]).
  pose proof (put_glyph_frame v2 (bytes_of (eg e)) (shown_of (eg e))) as F. cbv zeta in F.
  destruct F as (Flex & Fmal & Funk & Fsize & Frend & Fg0 & Futf & Fsaved & Fmodes).
  set (v3 := put_glyph cfg v2 (bytes_of (eg e)) (shown_of (eg e))) in *.
  assert (Hsz : vsize v2 = vsize v) by reflexivity.
  destruct (advance_other (set_last st (Some e)) (eg e)) as (Asz & Ala & Asv & Avi).
  cbn [ts_size ts_last ts_saved ts_vis set_last] in Asz, Ala, Asv, Avi.
  split.
  - constructor.
    + rewrite Flex. exact Slex.
    + rewrite Fmal. exact Smal.
    + rewrite Funk. exact Sunk.
    + rewrite Fsize, Asz. exact Ssize.
    + unfold last_cs. rewrite Ala. unfold cs_ok in *. rewrite Fg0, Futf. exact Hcs2.
    + intros l' Hl'. rewrite Ala in Hl'. inversion Hl'; subst l'. rewrite Frend. reflexivity.
    + intros p Hp. rewrite advance_cur in Hp by (apply displayable_not_control; exact Hdisp).
      cbn [ts_cur ts_size set_last] in Hp.
      destruct (ts_cur st) as [[x y]|] eqn:Ec; [|discriminate].
      destruct (x + 1 =? fst (ts_size st)) eqn:Ex; [discriminate|].
      inversion Hp; subst p. clear Hp.
      destruct (Scur (x, y) eq_refl) as (Hc & Hpend & Hin).
      apply inside_split in Hin. cbn [fst snd] in Hin. destruct Hin as [Hix Hiy].
      rewrite Ssize in Ex.
      assert (Hx : (x + 1 <? fst (vsize v2)) = true) by (rewrite Hsz; exact (adv_lt _ _ Hix Ex)).
      destruct (put_glyph_cursor v2 (bytes_of (eg e)) (shown_of (eg e)) x y Hpend Hc Hx) as [H1 H2].
      fold v3 in H1, H2. rewrite H1, H2, Fsize, Hsz. repeat split.
      rewrite Hsz in Hx. destruct (vsize v) as [w h]. exact (inside_adv _ _ _ _ Hx Hiy).
    + intros p Hp. rewrite Asv in Hp. rewrite Fsaved, Fsize. exact (Ssaved p Hp).
    + intros b Hb. rewrite Avi in Hb.
      assert (Hv : vis v3 = vis v2)
        by (apply (f_equal (fun m => fst (fst (fst (fst m))))) in Fmodes; exact Fmodes).
      rewrite Hv. exact (Svis b Hb).
  - unfold elem_facts. rewrite display_of_eq. repeat split.
    + destruct (ts_cur st) as [p|] eqn:Ec.
      * destruct (Scur p eq_refl) as (Hc & Hpend & Hin).
        exists p. split.
        -- unfold v3. rewrite put_glyph_trace by exact Hpend. cbn [rend set_rend vcur trace].
           change (vcur v2) with (vcur v). rewrite Hc. reflexivity.
        -- intros p' Hp'. inversion Hp'. reflexivity.
      * destruct (put_glyph_trace_any v2 (bytes_of (eg e)) (shown_of (eg e))) as [q Hq].
        exists q. split; [exact Hq|]. intros p' Hp'. discriminate.
    + exact Fmodes.
    + intros p Hp Hw. destruct (Scur p Hp) as (Hc & Hpend & Hin).
      unfold v3. rewrite put_glyph_cells.
      * change (vcur v2) with (vcur v). change (cells v2) with (cells v). rewrite Hc. reflexivity.
      * exact Hpend.
      * change (vcur v2) with (vcur v). change (vsize v2) with (vsize v). rewrite Hc. exact Hw.
Qed.

(* ---- format effectors written as elements (newline, carriage return, tab, backspace) ---- *)
Definition is_fe (b : byte) : bool := (b =? 8) || (b =? 9) || (b =? 10) || (b =? 13).

Lemma fe_cases b : is_fe b = true -> b = 8 \/ b = 9 \/ b = 10 \/ b = 13.
Proof. unfold is_fe. lia. Qed.

Lemma format_effector_fe g : format_effector g = true -> is_fe (g0 g) = true.
Proof. unfold format_effector, is_fe. intros H. apply andb_prop in H as [H _]. exact H. Qed.

Lemma format_effector_control g : format_effector g = true -> is_control_glyph g = true.
Proof. intros H. apply format_effector_fe in H. unfold is_fe in H. unfold is_control_glyph. lia. Qed.

Lemma vt_c0_frame v b : is_fe b = true ->
  let v' := vt_c0 cfg v b in
  lex v' = lex v /\ malformed v' = malformed v /\ unknown v' = unknown v /\
  vsize v' = vsize v /\ rend v' = rend v /\ g0cs v' = g0cs v /\ utf8 v' = utf8 v /\
  vsaved v' = vsaved v /\ modes_of v' = modes_of v /\ trace v' = trace v.
Proof.
  intros H. apply fe_cases in H. unfold modes_of.
  destruct H as [H|[H|[H|H]]]; subst b; unfold vt_c0, scroll_up;
    repeat match goal with |- context[if ?c then _ else _] => destruct c end;
    cbn; repeat split; reflexivity.
Qed.

Lemma payload_control v g : lex v = Ground -> format_effector g = true ->
  vt_bytes cfg v (wire g) = vt_c0 cfg v (g0 g).
Proof.
  intros Hg Hf. apply format_effector_fe in Hf. pose proof (fe_cases _ Hf) as Hc.
  assert (Hw : wire g = [g0 g]).
  { unfold wire, utf8_len, hi. destruct (cs_eqb (gcs g) CsUtf8); [|reflexivity].
    assert (negb (128 <=? g0 g) = true) as -> by lia. reflexivity. }
  rewrite Hw. unfold vt_bytes, fold_left, vt_byte. rewrite Hg.
  assert ((g0 g =? 27) = false) as -> by lia.
  unfold vt_text. assert ((g0 g <? 32) = true) as -> by lia. reflexivity.
Qed.

Lemma sync_write_control st v e l :
  Sync st v -> ts_last st = Some l -> format_effector (eg e) = true ->
  wf_colour (fg (ea e)) = true -> wf_colour (bg (ea e)) = true ->
  let st' := fst (write_element beh st e) in
  let v' := vt_execs cfg v (snd (write_element beh st e)) in
  Sync st' v' /\ trace v' = trace v /\ modes_of v' = modes_of v /\ ts_cur st' = None.
Proof.
  intros S Hl Hfe Hfg Hbg.
  destruct S as [Slex Smal Sunk Ssize Scs Srend Scur Ssaved Svis].
  unfold last_cs in Scs. rewrite Hl in Scs. specialize (Srend l Hl).
  unfold write_element. rewrite Hl. cbn [fst snd].
  rewrite !vt_execs_app.
  rewrite (exec_change_charset v _ (gcs (eg e)) Scs).
  set (v1 := set_utf8 (set_g0cs v (g0_after v (gcs (eg e)))) (cs_eqb (gcs (eg e)) CsUtf8)).
  assert (Hcs1 : cs_ok (gcs (eg e)) v1) by (apply (cs_ok_after v _ _ Scs)).
  rewrite (exec_change_attribute' v1 (ea l) (ea e)) by (first [exact Srend | assumption]).
  set (v2 := set_rend v1 (rend_of (ea e))).
  assert (Hcs2 : cs_ok (gcs (eg e)) v2) by exact Hcs1.
  cbn [vt_execs fold_left vt_exec].
  rewrite (payload_control v2 (eg e)) by (first [exact Slex | exact Hfe]).
  pose proof (vt_c0_frame v2 (g0 (eg e)) (format_effector_fe _ Hfe)) as F. cbv zeta in F.
  destruct F as (Flex & Fmal & Funk & Fsize & Frend & Fg0 & Futf & Fsaved & Fmodes & Ftrace).
  set (v3 := vt_c0 cfg v2 (g0 (eg e))) in *.
  destruct (advance_other (set_last st (Some e)) (eg e)) as (Asz & Ala & Asv & Avi).
  cbn [ts_size ts_last ts_saved ts_vis set_last] in Asz, Ala, Asv, Avi.
  pose proof (advance_cur_control (set_last st (Some e)) (eg e) (format_effector_control _ Hfe)) as Acur.
  split; [|split; [exact Ftrace|split; [exact Fmodes|exact Acur]]].
  constructor.
  - rewrite Flex. exact Slex.
  - rewrite Fmal. exact Smal.
  - rewrite Funk. exact Sunk.
  - rewrite Fsize, Asz. exact Ssize.
  - unfold last_cs. rewrite Ala. unfold cs_ok in *. rewrite Fg0, Futf. exact Hcs2.
  - intros l' Hl'. rewrite Ala in Hl'. inversion Hl'; subst l'. rewrite Frend. reflexivity.
  - intros p Hp. rewrite Acur in Hp. discriminate.
  - intros p Hp. rewrite Asv in Hp. rewrite Fsaved, Fsize. exact (Ssaved p Hp).
  - intros b Hb. rewrite Avi in Hb.
    assert (Hv : vis v3 = vis v2)
      by (apply (f_equal (fun m => fst (fst (fst (fst m))))) in Fmodes; exact Fmodes).
    rewrite Hv. exact (Svis b Hb).
Qed.

End Sync.

