// impl_driver.cpp — runs line-oriented scripts against the REAL terminalpp
// library (objects compiled from /repo's working tree) and prints one
// canonical observation block per script line.  The extracted Coq model is
// driven by the same scripts (driver/driver.ml) and must print the same text.
#include <terminalpp/algorithm/for_each_in_region.hpp>
#include <terminalpp/canvas.hpp>
#include <terminalpp/rectangle.hpp>
#include <terminalpp/encoder.hpp>
#include <terminalpp/screen.hpp>
#include <terminalpp/stdout_channel.hpp>
#include <terminalpp/string.hpp>
#include <terminalpp/terminal.hpp>
#include <terminalpp/detail/parser.hpp>

#include <algorithm>
#include <csignal>
#include <signal.h>
#include <cstdio>
#include <chrono>
#include <clocale>
#include <cstdlib>
#include <cstring>
#include <cstdlib>
#include <deque>
#include <fstream>
#include <locale>
#include <stdexcept>
#include <functional>
#include <iostream>
#include <map>
#include <memory>
#include <sstream>
#include <string>
#include <thread>
#include <vector>

using namespace terminalpp;

namespace {

struct cap_channel
{
    // a read is completed at once when data is already waiting (a channel that
    // buffers what arrived while no read was armed), else when data arrives
    void async_read(std::function<void(bytes)> const &cb)
    {
        if (!queued.empty())
        {
            byte_storage const d = queued.front();
            queued.pop_front();
            auto const keep = cb;
            keep(bytes(d.data(), d.size()));
            return;
        }
        read_cb = cb;
    }
    void write(bytes data)
    {
        if (fail_next)
        {
            // the connection reports an error for this one write
            fail_next = false;
            throw std::runtime_error("channel write failed");
        }
        written.append(data.begin(), data.end());
    }
    [[nodiscard]] bool is_alive() const { return alive; }
    bool fail_next = false;
    void close() {}
    bool alive = true;
    std::deque<byte_storage> queued;
    void receive(bytes data)
    {
        std::function<void(bytes)> cb;
        std::swap(read_cb, cb);
        if (cb) cb(data);
    }
    std::function<void(bytes)> read_cb;
    byte_storage written;
};

std::string hex(byte const *p, size_t n)
{
    static char const *d = "0123456789abcdef";
    if (n == 0) return "-";
    std::string r;
    for (size_t i = 0; i < n; ++i) { r += d[p[i] >> 4]; r += d[p[i] & 15]; }
    return r;
}
std::string hex(byte_storage const &s) { return hex(s.data(), s.size()); }

byte_storage unhex(std::string const &s)
{
    byte_storage r;
    if (s == "-") return r;
    auto v = [](char c) -> int { return c <= '9' ? c - '0' : c - 'a' + 10; };
    for (size_t i = 0; i + 1 < s.size(); i += 2)
        r.push_back(static_cast<byte>(v(s[i]) * 16 + v(s[i + 1])));
    return r;
}

struct toks
{
    std::vector<std::string> v;
    size_t i = 0;
    long num() { return std::stol(v.at(i++)); }
    std::string const &str() { return v.at(i++); }
};

character_set mk_cs(long n) { return character_set(static_cast<charset>(n)); }

glyph mk_glyph(toks &t)
{
    long cs = t.num(), b0 = t.num(), b1 = t.num(), b2 = t.num();
    if (static_cast<charset>(cs) == charset::utf8)
    {
        byte const arr[4] = {byte(b0), byte(b1), byte(b2), 0};
        return glyph(arr);
    }
    if (b1 != 0 || b2 != 0)
    {
        // a non-UTF-8 glyph whose unused storage bytes are dirty
        byte const arr[4] = {byte(b0), byte(b1), byte(b2), 0};
        glyph g(arr);
        g.charset_ = mk_cs(cs);
        g.character_ = byte(b0);
        return g;
    }
    return glyph(byte(b0), mk_cs(cs));
}

colour mk_colour(toks &t)
{
    long k = t.num(), a = t.num(), b = t.num(), c = t.num();
    switch (k)
    {
        case 0: return colour(low_colour(static_cast<graphics::colour>(a)));
        case 1: { high_colour h; h.value_ = byte(a); return colour(h); }
        case 2: { greyscale_colour g; g.shade_ = byte(a); return colour(g); }
        default: return colour(true_colour(byte(a), byte(b), byte(c)));
    }
}

attribute mk_attr(toks &t)
{
    attribute a;
    a.foreground_colour_ = mk_colour(t);
    a.background_colour_ = mk_colour(t);
    long in = t.num(), ul = t.num(), ng = t.num(), bl = t.num();
    a.intensity_ = in == 1 ? graphics::intensity::bold
                 : in == 2 ? graphics::intensity::faint
                           : graphics::intensity::normal;
    a.underlining_ = ul ? graphics::underlining::underlined
                        : graphics::underlining::not_underlined;
    a.polarity_ = ng ? graphics::polarity::negative : graphics::polarity::positive;
    a.blinking_ = bl ? graphics::blinking::blink : graphics::blinking::steady;
    return a;
}

element mk_elem(toks &t)
{
    glyph g = mk_glyph(t);
    attribute a = mk_attr(t);
    return element(g, a);
}

terminalpp::string mk_string(toks &t)
{
    long n = t.num();
    terminalpp::string s;
    for (long i = 0; i < n; ++i) s += mk_elem(t);
    return s;
}

std::string pr_colour(colour const &c)
{
    std::ostringstream o;
    std::visit(
        [&o](auto const &v) {
            using T = std::decay_t<decltype(v)>;
            if constexpr (std::is_same_v<T, low_colour>)
                o << "0 " << int(static_cast<byte>(v.value_)) << " 0 0";
            else if constexpr (std::is_same_v<T, high_colour>)
                o << "1 " << int(v.value_) << " 0 0";
            else if constexpr (std::is_same_v<T, greyscale_colour>)
                o << "2 " << int(v.shade_) << " 0 0";
            else
                o << "3 " << int(v.red_) << " " << int(v.green_) << " " << int(v.blue_);
        },
        c.value_);
    return o.str();
}

std::string pr_elem(element const &e)
{
    std::ostringstream o;
    bool const u = e.glyph_.charset_ == charset::utf8;
    o << int(static_cast<char>(e.glyph_.charset_.value_)) << " ";
    if (u)
        o << int(e.glyph_.ucharacter_[0]) << " " << int(e.glyph_.ucharacter_[1])
          << " " << int(e.glyph_.ucharacter_[2]);
    else
        o << int(e.glyph_.character_) << " 0 0";
    auto const &a = e.attribute_;
    o << " " << pr_colour(a.foreground_colour_) << " " << pr_colour(a.background_colour_);
    o << " "
      << (a.intensity_.value_ == graphics::intensity::bold    ? 1
          : a.intensity_.value_ == graphics::intensity::faint ? 2
          : a.intensity_.value_ == graphics::intensity::normal ? 0 : 9)
      << " " << (a.underlining_.value_ == graphics::underlining::underlined ? 1 : 0)
      << " " << (a.polarity_.value_ == graphics::polarity::negative ? 1 : 0)
      << " " << (a.blinking_.value_ == graphics::blinking::blink ? 1 : 0);
    return o.str();
}

std::string pr_cs(control_sequence const &s)
{
    std::ostringstream o;
    o << int(s.initiator) << " " << int(s.command) << " " << (s.meta ? 1 : 0)
      << " " << int(s.extender) << " " << s.arguments.size();
    for (auto const &a : s.arguments) o << " " << hex(a);
    return o.str();
}

std::string pr_token(token const &t)
{
    std::ostringstream o;
    std::visit(
        [&o](auto const &v) {
            using T = std::decay_t<decltype(v)>;
            if constexpr (std::is_same_v<T, virtual_key>)
            {
                o << "VK " << int(static_cast<byte>(v.key)) << " "
                  << int(static_cast<byte>(v.modifiers)) << " " << v.repeat_count;
                if (auto const *b = std::get_if<byte>(&v.sequence))
                    o << " B " << int(*b);
                else
                    o << " C " << pr_cs(std::get<control_sequence>(v.sequence));
            }
            else if constexpr (std::is_same_v<T, mouse::event>)
                o << "MS " << int(static_cast<byte>(v.action_)) << " "
                  << v.position_.x_ << " " << v.position_.y_;
            else
                o << "CS " << pr_cs(v);
        },
        t);
    return o.str();
}

// the same channel seen through a write() that reports success, as channels
// written against socket-like interfaces do; the library has no use for the value
struct reporting_channel
{
    cap_channel &inner;
    void async_read(std::function<void(bytes)> const &cb) { inner.async_read(cb); }
    bool write(bytes data) { inner.write(data); return true; }
    [[nodiscard]] bool is_alive() const { return inner.is_alive(); }
    void close() { inner.close(); }
};

struct term_obj
{
    term_obj(behaviour const &b, bool reporting)
      : rep{chan},
        holder(reporting ? std::make_unique<terminal>(rep, b) : std::make_unique<terminal>(chan, b)),
        term(*holder)
    {
    }
    cap_channel chan;
    reporting_channel rep;
    std::unique_ptr<terminal> holder;
    terminal &term;
    std::vector<std::string> pending_cb;  // lines produced by read callbacks
    std::function<void(tokens)> on_read;
};

behaviour mk_beh(long m)
{
    behaviour b;
    b.supports_cha = m & 1;
    b.supports_cha_default = (m >> 1) & 1;
    b.supports_vpa = (m >> 2) & 1;
    b.supports_vpa_default = (m >> 3) & 1;
    b.supports_cup_default_row = (m >> 4) & 1;
    b.supports_cup_default_column = (m >> 5) & 1;
    b.supports_cup_default_all = (m >> 6) & 1;
    b.supports_basic_mouse_tracking = (m >> 7) & 1;
    b.supports_all_mouse_motion_tracking = (m >> 8) & 1;
    b.supports_window_title_bel = (m >> 9) & 1;
    b.supports_window_title_st = (m >> 10) & 1;
    b.unicode_in_all_charsets = (m >> 11) & 1;
    return b;
}

std::string pr_opt_pt(std::optional<point> const &p)
{
    if (!p) return "-";
    return std::to_string(p->x_) + " " + std::to_string(p->y_);
}

void pr_state(std::ostream &out, term_obj &t)
{
    t.term << [&out](behaviour const &, terminal_state &st,
                     terminal::write_function const &) {
        out << "ST " << st.terminal_size_.width_ << " " << st.terminal_size_.height_
            << " L " << (st.last_element_ ? pr_elem(*st.last_element_) : std::string("-"))
            << " C " << pr_opt_pt(st.cursor_position_)
            << " S " << pr_opt_pt(st.saved_cursor_position_)
            << " V " << (st.cursor_visible_ ? (*st.cursor_visible_ ? "1" : "0") : "-")
            << "\n";
    };
}

void flush_written(std::ostream &out, term_obj &t)
{
    out << "W " << hex(t.chan.written) << "\n";
    t.chan.written.clear();
}

template <class T>
std::string cmp_answers(T const &a, T const &b)
{
    std::ostringstream o;
    auto const c = a <=> b;
    o << (a == b) << " " << (a != b) << " " << (a < b) << " "
      << (a > b) << " " << (a <= b) << " " << (a >= b) << " "
      << (c < 0 ? -1 : c > 0 ? 1 : 0);
    return o.str();
}

// The comparisons are asked three times: before either value was hashed, after
// the first was, after both were.  The answers may not depend on that (values
// are used in containers in any order); CMPX lines report answers that changed.
template <class T>
void cmp(std::ostream &out, T const &a, T const &b)
{
    std::string const before = cmp_answers(a, b);
    auto const ha = std::hash<T>{}(a);
    std::string const mid = cmp_answers(a, b);
    auto const hb = std::hash<T>{}(b);
    std::string const after = cmp_answers(a, b);
    bool const again = std::hash<T>{}(a) == ha && std::hash<T>{}(b) == hb;
    out << "CMP " << before << " " << (ha == hb) << "\n";
    if (mid != before) out << "CMPX after hashing the first value: " << mid << "\n";
    if (after != before) out << "CMPX after hashing both values: " << after << "\n";
    if (!again) out << "CMPX hashing a value twice gave different hashes\n";
}

template <class T>
void cmp_nohash(std::ostream &out, T const &a, T const &b)
{
    auto const c = a <=> b;
    out << "CMP " << (a == b) << " " << (a != b) << " " << (a < b) << " "
        << (a > b) << " " << (a <= b) << " " << (a >= b) << " "
        << (c < 0 ? -1 : c > 0 ? 1 : 0) << " -\n";
}

control_sequence mk_cseq(toks &t)
{
    control_sequence s;
    s.initiator = byte(t.num());
    s.command = byte(t.num());
    s.meta = t.num() != 0;
    s.extender = byte(t.num());
    long n = t.num();
    for (long i = 0; i < n; ++i) s.arguments.push_back(unhex(t.str()));
    return s;
}

virtual_key mk_vk(toks &t)
{
    virtual_key k;
    k.key = static_cast<vk>(t.num());
    k.modifiers = static_cast<vk_modifier>(t.num());
    k.repeat_count = int(t.num());
    if (t.str() == "B")
        k.sequence = byte(t.num());
    else
        k.sequence = mk_cseq(t);
    return k;
}

// handles onto one cell of a canvas, taken at one time and used later
struct held_cell
{
    canvas::iterator it;
    std::unique_ptr<canvas::column_proxy> col;
    element *ref;
    coordinate_type row;
};

struct world
{
    std::map<long, std::unique_ptr<term_obj>> terms;
    std::map<long, std::unique_ptr<canvas>> canvases;
    std::map<long, held_cell> held;
    std::map<long, terminalpp::string> strings;
    // manipulator objects the application made once and streams again and again,
    // to any of its terminals
    std::map<long, std::function<void(terminal &)>> manips;
    std::map<long, std::pair<element *, terminalpp::string::iterator>> sheld;
    std::map<long, std::pair<long, std::unique_ptr<screen>>> screens;
    std::map<long, std::unique_ptr<detail::parser>> parsers;
};

void do_term(std::ostream &out, world &w, toks &t)
{
    long id = t.num();
    std::string const op = t.str();
    if (op == "new")
    {
        // bit 12 of the mask is not a behaviour flag: it selects the kind of channel
        long const mask = t.num();
        w.terms[id] = std::make_unique<term_obj>(mk_beh(mask), ((mask >> 12) & 1) != 0);
        pr_state(out, *w.terms[id]);
        return;
    }
    auto &to = *w.terms.at(id);
    if (op == "use")
    {
        w.manips.at(t.num())(to.term);
        flush_written(out, to);
        pr_state(out, to);
        return;
    }
    if (op == "forget")
    {
        // a manipulator of the application's own that has written bytes the library
        // knows nothing about and therefore honestly marks a belief as unknown
        long const k = t.num();
        to.term << [k](behaviour const &, terminal_state &st, terminal::write_function const &) {
            if (k == 0) st.last_element_ = {};
            else if (k == 1) st.cursor_position_ = {};
            else if (k == 2) st.saved_cursor_position_ = {};
            else st.cursor_visible_ = {};
        };
        flush_written(out, to);
        pr_state(out, to);
        return;
    }
    if (op == "sleep")
    {
        // time passes between two things the application does
        std::this_thread::sleep_for(std::chrono::milliseconds(t.num()));
        return;
    }
    if (op == "failnext")
    {
        // the channel's next write throws; the operation on the next line is the one
        // it hits, and the application carries on after catching the exception
        to.chan.fail_next = true;
        return;
    }
    if (to.chan.fail_next && (op == "elem" || op == "str" || op == "move" || op == "hide" || op == "show"))
    {
        try
        {
            if (op == "elem") to.term << mk_elem(t);
            else if (op == "str") to.term << mk_string(t);
            else if (op == "hide") to.term << hide_cursor();
            else if (op == "show") to.term << show_cursor();
            else { long a = t.num(), b = t.num(); to.term << move_cursor({coordinate_type(a), coordinate_type(b)}); }
            out << "NOEXC\n";
        }
        catch (std::runtime_error const &) { out << "EXC\n"; }
        to.chan.fail_next = false;
        flush_written(out, to);
        pr_state(out, to);
        return;
    }
    if (op == "size") { long a = t.num(), b = t.num(); to.term.set_size({coordinate_type(a), coordinate_type(b)}); }
    else if (op == "elem") { to.term << mk_elem(t); }
    else if (op == "raw") { to.term << write_element(mk_elem(t)); }
    else if (op == "oda") { to.term << write_optional_default_attribute(); }
    else if (op == "str") { to.term << mk_string(t); }
    else if (op == "cstr")
    {
        // term << "text": a C string streamed directly (whichever overload or
        // conversion the library offers for it)
        auto const b = unhex(t.str());
        std::string const text(b.begin(), b.end());
        to.term << text.c_str();
    }
    else if (op == "stdstr")
    {
        auto const b = unhex(t.str());
        std::string const text(b.begin(), b.end());
        to.term << text;
    }
    else if (op == "move") { long a = t.num(), b = t.num(); to.term << move_cursor({coordinate_type(a), coordinate_type(b)}); }
    else if (op == "save") { to.term << save_cursor_position(); }
    else if (op == "restore") { to.term << restore_cursor_position(); }
    else if (op == "show") { to.term << show_cursor(); }
    else if (op == "hide") { to.term << hide_cursor(); }
    else if (op == "erase")
    {
        switch (t.num())
        {
            case 0: to.term << erase_display(); break;
            case 1: to.term << erase_display_above(); break;
            case 2: to.term << erase_display_below(); break;
            case 3: to.term << erase_line(); break;
            case 4: to.term << erase_line_left(); break;
            default: to.term << erase_line_right(); break;
        }
    }
    else if (op == "mouse") { if (t.num()) to.term << enable_mouse(); else to.term << disable_mouse(); }
    else if (op == "buf") { if (t.num()) to.term << use_alternate_screen_buffer(); else to.term << use_normal_screen_buffer(); }
    else if (op == "title")
    {
        auto const b = unhex(t.str());
        to.term << set_window_title(std::string(b.begin(), b.end()));
    }
    else if (op == "arm")
    {
        // arm the read once; the callback re-arms itself (the client pattern
        // the library documents)
        term_obj *p = &to;
        to.on_read = [p](tokens ts) {
            std::ostringstream o;
            o << "CB " << ts.size();
            for (auto const &tk : ts) o << " | " << pr_token(tk);
            p->pending_cb.push_back(o.str());
            p->term.async_read(p->on_read);
        };
        to.term.async_read(to.on_read);
    }
    else if (op == "arm2")
    {
        // the same, but the client re-arms the read FIRST and looks at its tokens
        // afterwards (legal: the tokens belong to this callback)
        term_obj *p = &to;
        to.on_read = [p](tokens ts) {
            p->term.async_read(p->on_read);
            std::ostringstream o;
            o << "CB " << ts.size();
            for (auto const &tk : ts) o << " | " << pr_token(tk);
            p->pending_cb.push_back(o.str());
        };
        to.term.async_read(to.on_read);
    }
    else if (op == "recv")
    {
        auto const b = unhex(t.str());
        to.chan.receive(bytes(b.data(), b.size()));
        for (auto const &l : to.pending_cb) out << l << "\n";
        to.pending_cb.clear();
    }
    else if (op == "recvq")
    {
        // several deliveries at once: the first completes the armed read, the others
        // are waiting in the channel and complete each re-armed read synchronously
        long n = t.num();
        std::vector<byte_storage> ds;
        for (long i = 0; i < n; ++i) ds.push_back(unhex(t.str()));
        for (size_t i = 1; i < ds.size(); ++i) to.chan.queued.push_back(ds[i]);
        if (!ds.empty()) to.chan.receive(bytes(ds[0].data(), ds[0].size()));
        for (auto const &l : to.pending_cb) out << l << "\n";
        to.pending_cb.clear();
        to.chan.queued.clear();
    }
    else if (op == "alive")
    {
        to.chan.alive = t.num() != 0;
        out << "AL " << to.term.is_alive() << "\n";
    }
    else { out << "ERR unknown terminal op " << op << "\n"; return; }
    flush_written(out, to);
    pr_state(out, to);
}

void do_canvas(std::ostream &out, world &w, toks &t)
{
    long id = t.num();
    std::string const op = t.str();
    if (op == "new")
    {
        long a = t.num(), b = t.num();
        w.canvases[id] = std::make_unique<canvas>(extent{coordinate_type(a), coordinate_type(b)});
        return;
    }
    if (op == "copy")
    {
        w.canvases[id] = std::make_unique<canvas>(*w.canvases.at(t.num()));
        return;
    }
    if (op == "assign")
    {
        // copy assignment to an existing canvas (possibly from itself)
        auto &src = *w.canvases.at(t.num());
        *w.canvases.at(id) = src;     // (a column handle taken earlier still names that column)
        return;
    }
    if (op == "move")
    {
        // move construction; the source is not looked at again
        long const from = t.num();
        w.canvases[id] = std::make_unique<canvas>(std::move(*w.canvases.at(from)));
        w.canvases.erase(from);
        w.held.erase(from);
        return;
    }
    auto &c = *w.canvases.at(id);
    if (op == "hold")
    {
        // an iterator, a column handle and a reference to cell (x,y), kept for later
        long x = t.num(), y = t.num();
        held_cell h;
        h.it = c.begin() + (y * c.size().width_ + x);
        h.col = std::make_unique<canvas::column_proxy>(c[coordinate_type(x)]);
        h.ref = &c[coordinate_type(x)][coordinate_type(y)];
        h.row = coordinate_type(y);
        w.held[id] = std::move(h);
        return;
    }
    if (op == "heldset")
    {
        long k = t.num();
        auto const e = mk_elem(t);
        auto &h = w.held.at(id);
        if (k == 0) *h.it = e;
        else if (k == 1) (*h.col)[h.row] = e;
        else *h.ref = e;
        return;
    }
    if (op == "fill") { auto const e = mk_elem(t); std::fill(c.begin(), c.end(), e); }
    else if (op == "iterset") { long i = t.num(); auto const e = mk_elem(t); *(c.begin() + i) = e; }
    else if (op == "set") { long x = t.num(), y = t.num(); c[coordinate_type(x)][coordinate_type(y)] = mk_elem(t); }
    else if (op == "resize") { long a = t.num(), b = t.num(); c.resize({coordinate_type(a), coordinate_type(b)}); }
    else if (op == "dump")
    {
        out << "KSZ " << c.size().width_ << " " << c.size().height_ << " " << (c.end() - c.begin()) << "\n";
        for (auto const &e : static_cast<canvas const &>(c)) out << "KE " << pr_elem(e) << "\n";
    }
    else if (op == "get")
    {
        long x = t.num(), y = t.num();
        out << "KG " << pr_elem(static_cast<canvas const &>(c)[coordinate_type(x)][coordinate_type(y)]) << "\n";
    }
    else if (op == "region")
    {
        long x = t.num(), y = t.num(), a = t.num(), b = t.num();
        for_each_in_region(
            c,
            {{coordinate_type(x), coordinate_type(y)}, {coordinate_type(a), coordinate_type(b)}},
            [&out](element const &e, coordinate_type cx, coordinate_type cy) {
                out << "KR " << cx << " " << cy << " " << pr_elem(e) << "\n";
            });
        // the same region of the same canvas seen through a const reference
        std::ostringstream oc, om;
        for_each_in_region(
            static_cast<canvas const &>(c),
            {{coordinate_type(x), coordinate_type(y)}, {coordinate_type(a), coordinate_type(b)}},
            [&oc](element const &e, coordinate_type cx, coordinate_type cy) {
                oc << "KR " << cx << " " << cy << " " << pr_elem(e) << "\n";
            });
        for_each_in_region(
            c,
            {{coordinate_type(x), coordinate_type(y)}, {coordinate_type(a), coordinate_type(b)}},
            [&om](element &e, coordinate_type cx, coordinate_type cy) {
                om << "KR " << cx << " " << cy << " " << pr_elem(e) << "\n";
            });
        if (oc.str() != om.str())
            out << "KRX the region visited through a const canvas differs: " << oc.str().size() << " bytes vs " << om.str().size() << "\n"
                << oc.str();
        // a visitor may return something (a flag, a count): it is not the loop's business
        std::ostringstream ob, oi;
        for_each_in_region(
            c,
            {{coordinate_type(x), coordinate_type(y)}, {coordinate_type(a), coordinate_type(b)}},
            [&ob](element const &e, coordinate_type cx, coordinate_type cy) {
                ob << "KR " << cx << " " << cy << " " << pr_elem(e) << "\n";
                return false;
            });
        int visited = 0;
        for_each_in_region(
            c,
            {{coordinate_type(x), coordinate_type(y)}, {coordinate_type(a), coordinate_type(b)}},
            [&oi, &visited](element const &e, coordinate_type cx, coordinate_type cy) {
                oi << "KR " << cx << " " << cy << " " << pr_elem(e) << "\n";
                return visited++;          // 0 for the first cell
            });
        if (ob.str() != om.str() || oi.str() != om.str())
            out << "KRX a visitor that returns a value does not see the whole region\n";
        // the application's own function object, passed as an lvalue and looked at afterwards
        struct counting_visitor
        {
            long cells = 0;
            void operator()(element const &, coordinate_type, coordinate_type) { ++cells; }
        } counter;
        for_each_in_region(
            c, {{coordinate_type(x), coordinate_type(y)}, {coordinate_type(a), coordinate_type(b)}}, counter);
        if (counter.cells != a * b)
            out << "KRX a function object passed to for_each_in_region saw " << counter.cells << " of " << (a * b) << " cells\n";
    }
    else out << "ERR unknown canvas op\n";
}

void do_screen(std::ostream &out, world &w, toks &t)
{
    long id = t.num();
    std::string const op = t.str();
    if (op == "new")
    {
        long tid = t.num();
        w.screens[id] = {tid, std::make_unique<screen>(w.terms.at(tid)->term)};
        return;
    }
    auto &s = w.screens.at(id);
    if (op == "draw")
    {
        s.second->draw(*w.canvases.at(t.num()));
        auto &to = *w.terms.at(s.first);
        flush_written(out, to);
        pr_state(out, to);
    }
}

void pr_string(std::ostream &out, terminalpp::string const &s)
{
    out << "EL " << s.size() << "\n";
    for (auto const &e : s) out << "E " << pr_elem(e) << "\n";
}

void do_markup(std::ostream &out, toks &t)
{
    std::string const op = t.str();
    if (op == "encode")
    {
        auto const b = unhex(t.str());
        std::string const txt(b.begin(), b.end());
        pr_string(out, encode(std::span<char const>(txt.data(), txt.size())));
    }
    else if (op == "encodearr")
    {
        // markup held in a fixed-size character buffer and passed as the array itself
        // (whatever overload or conversion the library offers for it)
        auto const b = unhex(t.str());
        char buf[32] = {};
        std::memcpy(buf, b.data(), std::min<size_t>(b.size(), 31));
        pr_string(out, encode(buf));
    }
    else if (op == "ets")
    {
        auto const b = unhex(t.str());
        std::string const txt(b.begin(), b.end());
        pr_string(out, operator""_ets(txt.data(), txt.size()));
    }
    else if (op == "ete")
    {
        auto const b = unhex(t.str());
        std::string const txt(b.begin(), b.end());
        out << "E " << pr_elem(operator""_ete(txt.data(), txt.size())) << "\n";
    }
    else if (op == "lookup")
    {
        // lookup_character_set on a view of the first <len> bytes of a longer buffer
        auto const b = unhex(t.str());
        long const len = t.num();
        auto const r = lookup_character_set(bytes(b.data(), static_cast<size_t>(len)));
        out << "LK " << (r ? std::to_string(int(r->value_)) : std::string("-")) << "\n";
    }
    else if (op == "tostring")
    {
        auto const s = mk_string(t);
        auto const r = to_string(s);
        out << "TS " << hex(reinterpret_cast<byte const *>(r.data()), r.size()) << "\n";
    }
    else if (op == "ofbytes")
    {
        auto const b = unhex(t.str());
        terminalpp::string const s(reinterpret_cast<char const *>(b.data()), b.size());
        pr_string(out, s);
        auto const r = to_string(s);
        out << "TS " << hex(reinterpret_cast<byte const *>(r.data()), r.size()) << "\n";
    }
    else if (op == "ofstd")
    {
        auto const b = unhex(t.str());
        terminalpp::string const s(std::string(b.begin(), b.end()));
        pr_string(out, s);
        auto const r = to_string(s);
        out << "TS " << hex(reinterpret_cast<byte const *>(r.data()), r.size()) << "\n";
    }
    else if (op == "ofstdattr")
    {
        auto const b = unhex(t.str());
        auto const a = mk_attr(t);
        terminalpp::string const s(std::string(b.begin(), b.end()), a);
        pr_string(out, s);
        auto const r = to_string(s);
        out << "TS " << hex(reinterpret_cast<byte const *>(r.data()), r.size()) << "\n";
    }
    else if (op == "concat")
    {
        auto const a = mk_string(t);
        auto const b = mk_string(t);
        auto const r = to_string(a + b);
        auto const r2 = to_string(a) + to_string(b);
        out << "TS " << hex(reinterpret_cast<byte const *>(r.data()), r.size()) << "\n";
        out << "TS " << hex(reinterpret_cast<byte const *>(r2.data()), r2.size()) << "\n";
    }
    else out << "ERR unknown markup op\n";
}

void do_value(std::ostream &out, toks &t)
{
    std::string const ty = t.str();
    if (ty == "glyph") { auto a = mk_glyph(t); auto b = mk_glyph(t); cmp(out, a, b); }
    else if (ty == "cs") { auto a = mk_cs(t.num()); auto b = mk_cs(t.num()); cmp(out, a, b); }
    else if (ty == "colour") { auto a = mk_colour(t); auto b = mk_colour(t); cmp(out, a, b); }
    else if (ty == "attr") { auto a = mk_attr(t); auto b = mk_attr(t); cmp(out, a, b); }
    else if (ty == "elem") { auto a = mk_elem(t); auto b = mk_elem(t); cmp(out, a, b); }
    else if (ty == "str") { auto a = mk_string(t); auto b = mk_string(t); cmp(out, a, b); }
    else if (ty == "point")
    {
        point a{coordinate_type(t.num()), 0}; a.y_ = coordinate_type(t.num());
        point b{coordinate_type(t.num()), 0}; b.y_ = coordinate_type(t.num());
        cmp_nohash(out, a, b);
    }
    else if (ty == "extent")
    {
        extent a{coordinate_type(t.num()), 0}; a.height_ = coordinate_type(t.num());
        extent b{coordinate_type(t.num()), 0}; b.height_ = coordinate_type(t.num());
        cmp_nohash(out, a, b);
    }
    else if (ty == "rect")
    {
        auto rd = [&t]() {
            long x = t.num(), y = t.num(), w = t.num(), h = t.num();
            return rectangle{{coordinate_type(x), coordinate_type(y)}, {coordinate_type(w), coordinate_type(h)}};
        };
        auto a = rd(); auto b = rd();
        cmp_nohash(out, a, b);
    }
    else if (ty == "cseq") { auto a = mk_cseq(t); auto b = mk_cseq(t); cmp_nohash(out, a, b); }
    else if (ty == "vk") { auto a = mk_vk(t); auto b = mk_vk(t); cmp_nohash(out, a, b); }
    else if (ty == "mouse")
    {
        auto rd = [&t]() {
            mouse::event e;
            e.action_ = static_cast<mouse::event_type>(t.num());
            long x = t.num(), y = t.num();
            e.position_ = {coordinate_type(x), coordinate_type(y)};
            return e;
        };
        auto a = rd(); auto b = rd();
        cmp_nohash(out, a, b);
    }
    else if (ty == "gptr")
    {
        // a glyph constructed from a pointer into a (NUL-terminated) text that may
        // go on after its first character
        auto const b = unhex(t.str());
        std::string const text(b.begin(), b.end());
        glyph const g(text.c_str());
        out << "G " << int(g.charset_.value_) << " " << int(g.ucharacter_[0]) << " " << int(g.ucharacter_[1]) << " "
            << int(g.ucharacter_[2]) << "\n";
    }
    else if (ty == "show")
    {
        // k tagged values inserted into ONE stream, each followed by a newline
        // (SH), and the same values each into a stream of its own (SHS)
        std::ostringstream ss;
        std::string separate;
        // formatting state the HOST program left on its stream (no field width: a width
        // applies to the next insertion by definition)
        long const flags = t.num();
        auto dress = [flags](std::ostream &o) {
            if (flags & 1) o << std::hex;
            if (flags & 2) o << std::oct;
            if (flags & 4) o << std::showpos;
            if (flags & 8) o << std::showbase;
            if (flags & 16) o << std::uppercase;
            if (flags & 32) o << std::left;
            if (flags & 64) o << std::internal;
            if (flags & 128) o << std::boolalpha;
            if (flags & 256) o.fill('*');
            if (flags & 512) o << std::scientific;
        };
        dress(ss);
        long const k = t.num();
        for (long i = 0; i < k; ++i)
        {
            std::ostringstream one;
            dress(one);
            auto put = [&ss, &one](auto const &v) { ss << v; one << v; };
            std::string const tag = t.str();
            if (tag == "colour") put(mk_colour(t));
            else if (tag == "attr") put(mk_attr(t));
            else if (tag == "cs") put(mk_cs(t.num()));
            else if (tag == "glyph") put(mk_glyph(t));
            else if (tag == "elem") put(mk_elem(t));
            else if (tag == "str") put(mk_string(t));
            else if (tag == "point") { long x = t.num(), y = t.num(); put(point{coordinate_type(x), coordinate_type(y)}); }
            else if (tag == "extent") { long x = t.num(), y = t.num(); put(extent{coordinate_type(x), coordinate_type(y)}); }
            else if (tag == "rect")
            {
                long x = t.num(), y = t.num(), w = t.num(), h = t.num();
                put(rectangle{{coordinate_type(x), coordinate_type(y)}, {coordinate_type(w), coordinate_type(h)}});
            }
            else { out << "ERR unknown show tag\n"; return; }
            ss << "\n";
            separate += one.str() + "\n";
        }
        std::string const r = ss.str();
        out << "SH " << hex(byte_storage(r.begin(), r.end())) << "\n";
        out << "SHS " << hex(byte_storage(separate.begin(), separate.end())) << "\n";
    }
    else out << "ERR unknown value type\n";
}

// objects of the attributed string class
void do_string(std::ostream &out, world &w, toks &t)
{
    long id = t.num();
    std::string const op = t.str();
    using tstr = terminalpp::string;
    auto rd_bytes = [&t]() { auto const b = unhex(t.str()); return std::string(b.begin(), b.end()); };
    if (op == "ofbytes") { auto const b = rd_bytes(); w.strings[id] = tstr(b.data(), b.size()); }
    else if (op == "ofstd") { w.strings[id] = tstr(rd_bytes()); }
    else if (op == "ofstdattr") { auto const b = rd_bytes(); w.strings[id] = tstr(b, mk_attr(t)); }
    else if (op == "cstr") { auto const b = rd_bytes(); w.strings[id] = tstr(b.c_str()); }
    else if (op == "fill") { long n = t.num(); w.strings[id] = tstr(static_cast<tstr::size_type>(n), mk_elem(t)); }
    else if (op == "range")
    {
        long n = t.num();
        std::vector<element> v;
        for (long i = 0; i < n; ++i) v.push_back(mk_elem(t));
        w.strings[id] = tstr(v.begin(), v.end());
    }
    else if (op == "ilist")
    {
        long n = t.num();
        std::vector<element> v;
        for (long i = 0; i < n; ++i) v.push_back(mk_elem(t));
        if (n == 0) w.strings[id] = tstr(std::initializer_list<element>{});
        else if (n == 1) w.strings[id] = tstr({v[0]});
        else if (n == 2) w.strings[id] = tstr({v[0], v[1]});
        else w.strings[id] = tstr({v[0], v[1], v[2]});
    }
    else if (op == "copy") { w.strings[id] = w.strings.at(t.num()); }
    else if (op == "assign") { auto &src = w.strings.at(t.num()); w.strings.at(id) = src; }
    else if (op == "move")
    {
        long const from = t.num();
        tstr moved(std::move(w.strings.at(from)));
        w.strings.erase(from);
        w.strings[id] = std::move(moved);
    }
    else if (op == "appendelem") { w.strings.at(id) += mk_elem(t); }
    else if (op == "appendown") { auto &s = w.strings.at(id); s += s[static_cast<tstr::size_type>(t.num())]; }
    else if (op == "append") { long o = t.num(); w.strings.at(id) += w.strings.at(o); }
    else if (op == "plus") { long a = t.num(), b = t.num(); w.strings[id] = w.strings.at(a) + w.strings.at(b); }
    else if (op == "pluselem") { long a = t.num(); w.strings[id] = w.strings.at(a) + mk_elem(t); }
    else if (op == "insert") { long pos = t.num(); auto &s = w.strings.at(id); s.insert(s.begin() + pos, mk_elem(t)); }
    else if (op == "insertrange")
    {
        long pos = t.num(), o = t.num();
        auto &s = w.strings.at(id);
        tstr const src = w.strings.at(o);     // a copy: the source may be the target itself
        s.insert(s.begin() + pos, src.begin(), src.end());
    }
    else if (op == "insertstream")
    {
        // text read from a stream, inserted through single-pass input iterators
        long pos = t.num();
        std::istringstream in(rd_bytes());
        auto &s = w.strings.at(id);
        s.insert(s.begin() + pos, std::istreambuf_iterator<char>(in), std::istreambuf_iterator<char>());
    }
    else if (op == "erase") { w.strings.at(id).erase(); }
    else if (op == "erasefrom") { long pos = t.num(); auto &s = w.strings.at(id); s.erase(s.begin() + pos); }
    else if (op == "eraserange") { long a = t.num(), b = t.num(); auto &s = w.strings.at(id); s.erase(s.begin() + a, s.begin() + b); }
    else if (op == "setat") { long i = t.num(); w.strings.at(id)[static_cast<tstr::size_type>(i)] = mk_elem(t); }
    // string::swap, cbegin() and cend() are declared in string.hpp but defined nowhere
    // in the library (a program calling them does not link), so std::swap is used here
    else if (op == "swap") { long o = t.num(); std::swap(w.strings.at(id), w.strings.at(o)); }
    else if (op == "hold")
    {
        // a reference and an iterator to element i, kept while the string is only observed
        long i = t.num();
        auto &s = w.strings.at(id);
        w.sheld[id] = {&s[static_cast<tstr::size_type>(i)], s.begin() + i};
    }
    else if (op == "heldset")
    {
        long k = t.num();
        auto const e = mk_elem(t);
        auto &h = w.sheld.at(id);
        if (k == 0) *h.first = e; else *h.second = e;
    }
    else if (op == "dump")
    {
        auto &s = w.strings.at(id);
        tstr const &cs = s;
        out << "ZS " << cs.size() << " " << cs.empty() << "\n";
        for (auto const &e : cs) out << "E " << pr_elem(e) << "\n";
        auto const r = to_string(cs);
        out << "TS " << hex(reinterpret_cast<byte const *>(r.data()), r.size()) << "\n";
        // the other ways of looking at the same elements must agree with const iteration
        // (only const observers here: a client that holds a reference or an iterator
        // while it observes the string touches no mutable accessor in between)
        std::vector<element> fwd(cs.begin(), cs.end()), viaidx, viamut(fwd), viarev(cs.rbegin(), cs.rend()),
            viamrev(viarev), viac(fwd);
        for (tstr::size_type i = 0; i < cs.size(); ++i) viaidx.push_back(cs[i]);
        std::reverse(viarev.begin(), viarev.end());
        std::reverse(viamrev.begin(), viamrev.end());
        if (fwd.size() != cs.size() || (cs.size() == 0) != cs.empty()) out << "ZX size()/empty() disagree with the elements iterated\n";
        if (viaidx != fwd) out << "ZX operator[] disagrees with iteration\n";
        if (viamut != fwd || viac != fwd) out << "ZX begin()/cbegin() disagree with const iteration\n";
        if (viarev != fwd || viamrev != fwd) out << "ZX reverse iteration disagrees with forward iteration\n";
        tstr const rebuilt(fwd.begin(), fwd.end());
        if (!(cs == rebuilt)) out << "ZX the string differs from a string built from its own elements\n";
        if (std::hash<tstr>{}(cs) != std::hash<tstr>{}(rebuilt)) out << "ZX the string's hash differs from that of an equal string built from its elements\n";
        if ((cs <=> rebuilt) != 0 || cs < rebuilt || rebuilt < cs) out << "ZX the string is ordered against an equal string\n";
        // comparison with plain text (whatever overloads or conversions serve it)
        bool plain = true;
        std::string text;
        for (auto const &e : fwd)
        {
            if (!(e == element(static_cast<char>(e.glyph_.character_))) || e.glyph_.character_ == 0) plain = false;
            text.push_back(static_cast<char>(e.glyph_.character_));
        }
        if (plain)
        {
            bool const a = (cs == text.c_str()), b = (text.c_str() == cs), c = !(cs != text.c_str()), d = (cs == tstr(text.c_str()));
            if (!(a && b && c && d)) out << "ZX a string of plain text is not equal to that text (" << a << b << c << d << ")\n";
        }
    }
    else if (op == "mdump")
    {
        // the non-const ways of walking the string agree with the const ones
        auto &s = w.strings.at(id);
        tstr const &cs = s;
        std::vector<element> fwd(cs.begin(), cs.end()), viamut(s.begin(), s.end()), viamrev(s.rbegin(), s.rend()), viaidx;
        for (tstr::size_type i = 0; i < s.size(); ++i) viaidx.push_back(s[i]);
        std::reverse(viamrev.begin(), viamrev.end());
        if (viamut != fwd || viamrev != fwd || viaidx != fwd) out << "ZX begin()/rbegin()/operator[] on the string disagree with const iteration\n";
    }
    else out << "ERR unknown string op\n";
}

// raw detail::parser, no terminal around it
void do_parser(std::ostream &out, world &w, toks &t)
{
    long id = t.num();
    std::string const op = t.str();
    if (op == "new") { w.parsers[id] = std::make_unique<detail::parser>(); return; }
    auto &p = *w.parsers.at(id);
    if (op == "feed")
    {
        auto const b = unhex(t.str());
        for (auto c : b)
        {
            auto r = p(c);
            if (r) out << "PT " << pr_token(*r) << "\n";
        }
    }
}

void run_line(std::ostream &out, world &w, std::string const &line)
{
    toks t;
    {
        std::istringstream is(line);
        std::string s;
        while (is >> s) t.v.push_back(s);
    }
    if (t.v.empty()) return;
    out << "> " << line << "\n";
    if (t.v[0][0] == '#') return;  // comment / expectation lines are only echoed
    std::string const k = t.str();
    if (k == "CASE") { w = world{}; }
    else if (k == "END") {}
    else if (k == "T") do_term(out, w, t);
    else if (k == "K") do_canvas(out, w, t);
    else if (k == "S") do_screen(out, w, t);
    else if (k == "M") do_markup(out, t);
    else if (k == "V") do_value(out, t);
    else if (k == "Z") do_string(out, w, t);
    else if (k == "O")
    {
        long const oid = t.num();
        std::string const what = t.str();
        if (what == "title")
        {
            auto const b = unhex(t.str());
            auto m = std::make_shared<set_window_title>(std::string(b.begin(), b.end()));
            w.manips[oid] = [m](terminal &tm) { tm << *m; };
        }
        else if (what == "move")
        {
            long x = t.num(), y = t.num();
            auto m = std::make_shared<move_cursor>(point{coordinate_type(x), coordinate_type(y)});
            w.manips[oid] = [m](terminal &tm) { tm << *m; };
        }
        else if (what == "raw")
        {
            auto m = std::make_shared<write_element>(mk_elem(t));
            w.manips[oid] = [m](terminal &tm) { tm << *m; };
        }
        else if (what == "hide") { auto m = std::make_shared<hide_cursor>(); w.manips[oid] = [m](terminal &tm) { tm << *m; }; }
        else if (what == "show") { auto m = std::make_shared<show_cursor>(); w.manips[oid] = [m](terminal &tm) { tm << *m; }; }
        else if (what == "mouse")
        {
            if (t.num() != 0) { auto m = std::make_shared<enable_mouse>(); w.manips[oid] = [m](terminal &tm) { tm << *m; }; }
            else { auto m = std::make_shared<disable_mouse>(); w.manips[oid] = [m](terminal &tm) { tm << *m; }; }
        }
        else if (what == "erase") { auto m = std::make_shared<erase_display>(); w.manips[oid] = [m](terminal &tm) { tm << *m; }; }
        else out << "ERR unknown manipulator object\n";
    }
    else if (k == "P") do_parser(out, w, t);
    else out << "ERR unknown line kind\n";
}

}  // namespace

namespace {

// A host program whose namespace-scope objects use the library in their
// constructors: the script named by VERIF_EARLY_SCRIPT is run during static
// initialisation - this translation unit is linked first, so before the library's own
// namespace-scope objects are initialised - and its observations are printed by
// `impl_driver early`.
struct early_run
{
    early_run()
    {
        char const *path = std::getenv("VERIF_EARLY_SCRIPT");
        if (path == nullptr) return;
        std::ifstream in(path);
        std::ostringstream o;
        world w;
        std::string line;
        while (std::getline(in, line)) run_line(o, w, line);
        output = o.str();
    }
    std::string output;
};
early_run const the_early_run;

}  // namespace

// a host program that has installed its own global locale: digits grouped in
// threes, a decimal comma - what "de_DE"-like locales do to iostreams
struct grouping_punct : std::numpunct<char>
{
    char do_thousands_sep() const override { return '.'; }
    char do_decimal_point() const override { return ','; }
    std::string do_grouping() const override { return "\1"; }    // every digit, so small numbers show it too
};

int main(int argc, char **argv)
{
    std::string const mode = argc > 1 ? argv[1] : "run";
    if (char const *cl = std::getenv("VERIF_HOST_CLOCALE"); cl != nullptr)
    {
        // a host program that calls setlocale(LC_ALL, "") under a UTF-8 locale
        std::setlocale(LC_ALL, cl);
    }
    if (std::getenv("VERIF_HOST_LOCALE") != nullptr)
    {
        std::locale::global(std::locale(std::locale::classic(), new grouping_punct));
        std::cout.imbue(std::locale::classic());      // the harness's own printing stays plain
    }
    // the stdout modes run like an ordinary program (default stream
    // synchronisation); only the observation modes untie the streams for speed
    if (mode == "run" || mode == "threads") std::ios::sync_with_stdio(false);
    if (mode == "early")
    {
        std::cout << the_early_run.output;
        return 0;
    }
    if (mode == "run")
    {
        world w;
        std::string line;
        while (std::getline(std::cin, line)) run_line(std::cout, w, line);
        return 0;
    }
    if (mode == "stdout")
    {
        // child process for C14: every argument is one write (hex) through the
        // real stdout_channel, issued via terminal::write
        // read the whole script first: std::cin is tied to std::cout, so reading
        // between writes would flush the stream and hide ordering problems
        // Lines starting with '!' are things the HOST program does around the
        // terminal: leave formatting state on std::cout (!width n, !fill c, !hex,
        // !left), write to std::cout itself (!host <hex>), flush it (!flush), or end
        // the process with std::exit while the channel is still alive (!exit).
        std::vector<std::string> script;
        {
            std::string line;
            while (std::getline(std::cin, line)) script.push_back(line);
        }
        stdout_channel ch;
        terminal term{ch};
        for (auto const &line : script)
        {
            if (!line.empty() && line[0] == '!')
            {
                std::istringstream is(line.substr(1));
                std::string cmd;
                is >> cmd;
                if (cmd == "width") { int n = 0; is >> n; std::cout.width(n); }
                else if (cmd == "fill") { int c = 32; is >> c; std::cout.fill(static_cast<char>(c)); }
                else if (cmd == "hex") std::cout << std::hex << std::showbase << std::uppercase;
                else if (cmd == "left") std::cout << std::left;
                else if (cmd == "flush") std::cout.flush();
                else if (cmd == "host")
                {
                    std::string h;
                    is >> h;
                    auto const b = unhex(h);
                    std::cout.write(reinterpret_cast<char const *>(b.data()), static_cast<std::streamsize>(b.size()));
                }
                else if (cmd == "exit") std::exit(0);
                else if (cmd == "sigwinch")
                {
                    // the host program handles window-size signals (no SA_RESTART):
                    // a write blocked on a slow reader is interrupted by them
                    struct sigaction sa {};
                    sa.sa_handler = [](int) {};
                    sigaction(SIGWINCH, &sa, nullptr);
                }
                continue;
            }
            auto const b = unhex(line);
            term.write(bytes(b.data(), b.size()));
        }
        return 0;
    }
    if (mode == "stdout-ops")
    {
        // the same terminal operations through stdout_channel: script lines
        // of kind T only, single terminal id 0; nothing but the channel's
        // output goes to stdout
        std::vector<std::string> all_lines;
        {
            std::string l;
            while (std::getline(std::cin, l)) all_lines.push_back(l);
        }
        stdout_channel ch;
        std::unique_ptr<terminal> term;
        for (auto const &line : all_lines)
        {
            toks t;
            std::istringstream is(line);
            std::string s;
            while (is >> s) t.v.push_back(s);
            if (t.v.size() < 3 || t.v[0] != "T") continue;
            t.i = 2;
            std::string const op = t.str();
            if (op == "new") { term = std::make_unique<terminal>(ch, mk_beh(t.num())); continue; }
            if (!term) continue;
            if (op == "size") { long a = t.num(), b = t.num(); term->set_size({coordinate_type(a), coordinate_type(b)}); }
            else if (op == "elem") *term << mk_elem(t);
            else if (op == "str") *term << mk_string(t);
            else if (op == "move") { long a = t.num(), b = t.num(); *term << move_cursor({coordinate_type(a), coordinate_type(b)}); }
            else if (op == "erase") *term << erase_display();
            else if (op == "hide") *term << hide_cursor();
            else if (op == "show") *term << show_cursor();
        }
        return 0;
    }
    if (mode == "threads")
    {
        // C12: the script on stdin is a sequence of CASE blocks; every block is
        // run on its own thread concurrently with all the others, each with
        // its own world; outputs are printed in block order afterwards.
        std::vector<std::vector<std::string>> blocks;
        std::string line;
        while (std::getline(std::cin, line))
        {
            if (line.rfind("CASE", 0) == 0) blocks.emplace_back();
            if (!blocks.empty()) blocks.back().push_back(line);
        }
        std::vector<std::string> outs(blocks.size());
        std::vector<std::thread> ths;
        for (size_t i = 0; i < blocks.size(); ++i)
            ths.emplace_back([&blocks, &outs, i]() {
                std::ostringstream o;
                world w;
                for (auto const &l : blocks[i]) run_line(o, w, l);
                outs[i] = o.str();
            });
        for (auto &th : ths) th.join();
        for (auto const &o : outs) std::cout << o;
        return 0;
    }
    std::fprintf(stderr, "unknown mode\n");
    return 2;
}
