(* Properties_C04.v — C04: screen.draw sends only the cells that changed; an
   unchanged canvas sends nothing. *)
From TP Require Import Base Elem Term Screen VT Oracle P_Sync P_Step P_Bytes P_Run P_Canvas P_Screen Tie_Output.
From Coq Require Import Lia.
Local Open Scope N_scope.

(* drawing a canvas equal (cell-wise, by element ==) to the one last drawn, of
   the same size, performs no terminal operation and writes no byte *)
Theorem C04_same_canvas_silent :
  forall beh s st c,
    same_size s c = true ->
    (forall x y, x < cw c -> y < ch c ->
       element_eqb (cv_get (last_frame s) x y) (cv_get c x y) = true) ->
    draw_ops s c = [] /\ render_all (snd (draw beh s st c)) = [] /\
    snd (fst (draw beh s st c)) = st.
Proof.
  intros beh s st c Hs Heq.
  assert (Hops : draw_ops s c = []).
  { rewrite draw_ops_changed. fold (same_size s c). rewrite Hs. cbn [app].
    unfold prev_frame. fold (same_size s c). rewrite Hs.
    assert (Hnil : changed_cells (last_frame s) c = []).
    { unfold changed_cells. destruct (filter _ _) as [|pe r] eqn:Ef; [reflexivity|].
      exfalso. assert (Hin : In pe (pe :: r)) by (left; reflexivity). rewrite <- Ef in Hin.
      destruct (in_changed _ _ _ Hin) as (Hx & Hy & He & Hne). rewrite He in Hne.
      rewrite (Heq _ _ Hx Hy) in Hne. discriminate. }
    rewrite Hnil. reflexivity. }
  split; [exact Hops|]. unfold draw. rewrite Hops. cbn. split; reflexivity.
Qed.
Print Assumptions C04_same_canvas_silent.

(* in general the operations of a draw are: an erase if the size changed, then
   move+write for exactly the cells whose element differs from the previous
   frame (blank after a size change), in row-major order, each once - and
   nothing for any other cell *)
Theorem C04_operations :
  forall s c,
    draw_ops s c =
    (if same_size s c then [] else [Erase EDisplay]) ++
    flat_map (fun pe => [Move (fst pe); WElem (snd pe)])
             (filter (fun pe => negb (element_eqb (cv_get (prev_frame s c) (fst (fst pe)) (snd (fst pe))) (snd pe)))
                     (region_visit c 0 0 (cw c) (ch c))).
Proof. exact draw_ops_changed. Qed.
Print Assumptions C04_operations.

(* and on the terminal: the glyphs a draw makes the reference terminal show are
   exactly those cells, at their own positions, in that order *)
Theorem C04_exact_cells :
  forall cfg beh, (b_unicode_all beh = true -> unicode_all cfg = true) ->
  forall s st v c,
    Sync beh st v -> ts_size st = (cw c, ch c) -> canvas_elems_wf c ->
    (same_size s c = true -> Frame (last_frame s) v) ->
    (wrap cfg <> Immediate \/
     element_eqb (cv_get (prev_frame s c) (cw c - 1) (ch c - 1)) (cv_get c (cw c - 1) (ch c - 1)) = true) ->
    let v' := vt_bytes cfg v (render_all (snd (draw beh s st c))) in
    trace v' = rev (map (fun pe => (fst pe, display_of (snd pe))) (changed_cells (prev_frame s c) c)) ++ trace v /\
    last_frame (fst (fst (draw beh s st c))) = c.
Proof.
  intros cfg beh Huni s st v c S Hsz Hwf Hf Hns v'.
  destruct (draw_correct cfg beh Huni s st v c S Hsz Hwf Hf Hns) as (_ & _ & H3 & _ & H5 & _).
  split; [exact H5|exact H3].
Qed.
Print Assumptions C04_exact_cells.

Example C04_nonvacuous :
  let c := cv_set (blank_canvas 2 2) 1 0 (mkElem (mkGlyph CsAscii 65 0 0) default_attr) in
  map fst (changed_cells (blank_canvas 2 2) c) = [(1, 0)] /\
  changed_cells c c = [].
Proof. vm_compute. split; reflexivity. Qed.
