(* P_Order.v — equality, ordering and hashing of the value types agree.
   A small algebra of "ordered types" (eqb, cmp) closed under lexicographic
   product, lists, preimage and sums; every value type's operators are shown
   equal to a composition of these. *)
From TP Require Import Base Elem Parser Order.
From Coq Require Import ZArith Lia ZifyBool ZifyN.
Local Open Scope N_scope.

Record ord_ok {T} (eqb : T -> T -> bool) (cmp : T -> T -> comparison) : Prop := mkOrd {
  ok_eq : forall a b, cmp a b = Eq <-> eqb a b = true;
  ok_sym : forall a b, cmp b a = CompOpp (cmp a b);
  ok_trans : forall a b c, cmp a b = Lt -> cmp b c = Lt -> cmp a c = Lt;
  ok_eq_l : forall a b c, cmp a b = Eq -> cmp a c = cmp b c }.

(* ---- what follows from ord_ok: the laws the property asks for ------------------- *)
Section Laws.
Context {T : Type} (eqb : T -> T -> bool) (cmp : T -> T -> comparison) (O : ord_ok eqb cmp).

Lemma ord_cmp_refl a : cmp a a = Eq.
Proof. pose proof (ok_sym _ _ O a a) as H. destruct (cmp a a); cbn in H; congruence. Qed.

Lemma ord_eq_r a b c : cmp b c = Eq -> cmp a b = cmp a c.
Proof.
  intros H. rewrite (ok_sym _ _ O b a), (ok_sym _ _ O c a). f_equal.
  apply (ok_eq_l _ _ O). exact H.
Qed.

Theorem ord_laws :
  (forall a, eqb a a = true) /\
  (forall a b, eqb a b = true -> eqb b a = true) /\
  (forall a b c, eqb a b = true -> eqb b c = true -> eqb a c = true) /\
  (forall a, cmp a a <> Lt) /\
  (forall a b c, cmp a b = Lt -> cmp b c = Lt -> cmp a c = Lt) /\
  (forall a b, (cmp a b <> Lt /\ cmp b a <> Lt) <-> eqb a b = true) /\
  (forall a b, cmp a b = Gt <-> cmp b a = Lt).
Proof.
  split; [intros a; apply (ok_eq _ _ O), ord_cmp_refl|].
  split.
  { intros a b H. apply (ok_eq _ _ O) in H. apply (ok_eq _ _ O).
    rewrite (ok_sym _ _ O), H. reflexivity. }
  split.
  { intros a b c H1 H2. apply (ok_eq _ _ O) in H1, H2. apply (ok_eq _ _ O).
    rewrite (ok_eq_l _ _ O a b c H1). exact H2. }
  split; [intros a; rewrite ord_cmp_refl; discriminate|].
  split; [exact (ok_trans _ _ O)|].
  split.
  { intros a b. rewrite <- (ok_eq _ _ O). rewrite (ok_sym _ _ O a b).
    destruct (cmp a b); cbn.
    - split; [reflexivity|]. intros _. split; discriminate.
    - split; [intros [H _]; congruence|discriminate].
    - split; [intros [_ H]; congruence|discriminate]. }
  intros a b. rewrite (ok_sym _ _ O a b). destruct (cmp a b); cbn; split; congruence.
Qed.
End Laws.

(* ---- base instances -------------------------------------------------------------------- *)
Lemma ord_N : ord_ok N.eqb N.compare.
Proof.
  constructor.
  - intros a b. rewrite N.compare_eq_iff, N.eqb_eq. tauto.
  - intros a b. apply N.compare_antisym.
  - intros a b c. rewrite !N.compare_lt_iff. lia.
  - intros a b c H. apply N.compare_eq in H. subst. reflexivity.
Qed.

Lemma ord_Z : ord_ok Z.eqb Z.compare.
Proof.
  constructor.
  - intros a b. rewrite Z.compare_eq_iff, Z.eqb_eq. tauto.
  - intros a b. apply Z.compare_antisym.
  - intros a b c. rewrite !Z.compare_lt_iff. lia.
  - intros a b c H. apply Z.compare_eq in H. subst. reflexivity.
Qed.

Lemma ord_bool : ord_ok Bool.eqb bool_cmp.
Proof. constructor; intros [] []; try intros []; cbn; try tauto; try congruence; split; congruence. Qed.

(* ---- combinators --------------------------------------------------------------------------- *)
Section Combinators.
Context {A B : Type}
        (ea : A -> A -> bool) (ca : A -> A -> comparison) (OA : ord_ok ea ca)
        (eb : B -> B -> bool) (cb : B -> B -> comparison) (OB : ord_ok eb cb).

Definition pair_eqb (x y : A * B) : bool := ea (fst x) (fst y) && eb (snd x) (snd y).
Definition pair_cmp (x y : A * B) : comparison := lex (ca (fst x) (fst y)) (cb (snd x) (snd y)).

Lemma ord_pair : ord_ok pair_eqb pair_cmp.
Proof.
  constructor; unfold pair_eqb, pair_cmp, lex.
  - intros [a1 b1] [a2 b2]. cbn [fst snd]. rewrite andb_true_iff, <- (ok_eq _ _ OA), <- (ok_eq _ _ OB).
    destruct (ca a1 a2); split; try tauto; try (intros [? ?]; congruence); congruence.
  - intros [a1 b1] [a2 b2]. cbn [fst snd]. rewrite (ok_sym _ _ OA a1 a2), (ok_sym _ _ OB b1 b2).
    destruct (ca a1 a2); reflexivity.
  - intros [a1 b1] [a2 b2] [a3 b3]. cbn [fst snd].
    destruct (ca a1 a2) eqn:E12.
    + rewrite (ok_eq_l _ _ OA a1 a2 a3 E12). destruct (ca a2 a3); try congruence.
      apply (ok_trans _ _ OB).
    + intros _. destruct (ca a2 a3) eqn:E23.
      * rewrite <- (ord_eq_r _ _ OA a1 a2 a3 E23), E12. reflexivity.
      * rewrite (ok_trans _ _ OA _ _ _ E12 E23). reflexivity.
      * congruence.
    + congruence.
  - intros [a1 b1] [a2 b2] [a3 b3]. cbn [fst snd].
    destruct (ca a1 a2) eqn:E12; try congruence. intros Hb.
    rewrite (ok_eq_l _ _ OA a1 a2 a3 E12). rewrite (ok_eq_l _ _ OB b1 b2 b3 Hb). reflexivity.
Qed.

Lemma ord_list : ord_ok (list_eqb ea) (list_cmp ca).
Proof.
  constructor.
  - induction a as [|x a IH]; intros [|y b]; cbn;
      [split; reflexivity | split; congruence | split; congruence |].
    unfold lex. rewrite andb_true_iff, <- (ok_eq _ _ OA), <- IH.
    destruct (ca x y); split; try tauto; try (intros [? ?]; congruence); congruence.
  - induction a as [|x a IH]; intros [|y b]; cbn; try reflexivity.
    unfold lex. rewrite (ok_sym _ _ OA x y), IH. destruct (ca x y); reflexivity.
  - induction a as [|x a IH]; intros [|y b] [|z c]; cbn; try congruence.
    unfold lex. destruct (ca x y) eqn:E12.
    + rewrite (ok_eq_l _ _ OA x y z E12). destruct (ca y z); try congruence. apply IH.
    + intros _. destruct (ca y z) eqn:E23.
      * rewrite <- (ord_eq_r _ _ OA x y z E23), E12. reflexivity.
      * rewrite (ok_trans _ _ OA _ _ _ E12 E23). reflexivity.
      * congruence.
    + congruence.
  - induction a as [|x a IH]; intros [|y b] [|z c]; cbn; try congruence.
    unfold lex. destruct (ca x y) eqn:E12; try congruence. intros Hb.
    rewrite (ok_eq_l _ _ OA x y z E12). rewrite (IH b c Hb). reflexivity.
Qed.
End Combinators.

Lemma ord_map {T U} (f : T -> U) (eu : U -> U -> bool) (cu : U -> U -> comparison) :
  ord_ok eu cu -> ord_ok (fun a b => eu (f a) (f b)) (fun a b => cu (f a) (f b)).
Proof.
  intros O. constructor; intros.
  - apply (ok_eq _ _ O).
  - apply (ok_sym _ _ O).
  - eapply (ok_trans _ _ O); eassumption.
  - apply (ok_eq_l _ _ O). assumption.
Qed.

Lemma ord_ext {T} (e e' : T -> T -> bool) (c c' : T -> T -> comparison) :
  (forall a b, e a b = e' a b) -> (forall a b, c a b = c' a b) -> ord_ok e' c' -> ord_ok e c.
Proof.
  intros He Hc O. constructor; intros.
  - rewrite Hc, He. apply (ok_eq _ _ O).
  - rewrite !Hc. apply (ok_sym _ _ O).
  - rewrite Hc in *. eapply (ok_trans _ _ O); eassumption.
  - rewrite !Hc in *. apply (ok_eq_l _ _ O). assumption.
Qed.

(* ---- the value types ------------------------------------------------------------------------ *)
Definition ordN2 := ord_pair _ _ ord_N _ _ ord_N.

Lemma ord_cs : ord_ok cs_eqb cs_cmp.
Proof. exact (ord_map cs_index _ _ ord_N). Qed.

(* glyph: charset, first byte, and the two trailing bytes only for UTF-8 *)
Definition gkey (g : glyph) : N * (N * (N * N)) :=
  let u := cs_index (gcs g) =? 18 in
  (cs_index (gcs g), (g0 g, ((if u then g1 g else 0), (if u then g2 g else 0)))).

Definition k4_eqb := pair_eqb N.eqb (pair_eqb N.eqb (pair_eqb N.eqb N.eqb)).
Definition k4_cmp := pair_cmp N.compare (pair_cmp N.compare (pair_cmp N.compare N.compare)).
Lemma ord_k4 : ord_ok k4_eqb k4_cmp.
Proof. exact (ord_pair _ _ ord_N _ _ (ord_pair _ _ ord_N _ _ ordN2)). Qed.

Ltac split_cmps :=
  repeat match goal with
         | |- context[N.compare ?x ?y] => destruct (N.compare_spec x y)
         end;
  repeat match goal with
         | |- context[if ?c then _ else _] => destruct c eqn:?
         end;
  cbn; try reflexivity; try lia.

Lemma glyph_eqb_key a b : glyph_eqb a b = k4_eqb (gkey a) (gkey b).
Proof.
  destruct a as [ca a0 a1 a2], b as [cb b0 b1 b2].
  unfold glyph_eqb, k4_eqb, pair_eqb, gkey, cs_eqb. cbn [gcs g0 g1 g2 fst snd cs_index].
  change (cs_index CsUtf8) with 18.
  generalize (cs_index ca) (cs_index cb). intros ia ib.
  destruct (ia =? ib) eqn:E1; destruct (ia =? 18) eqn:E2; destruct (ib =? 18) eqn:E3;
    cbn [andb]; try reflexivity; try lia;
    rewrite ?N.eqb_refl, ?andb_true_r, ?andb_false_r; try reflexivity; lia.
Qed.

Lemma glyph_cmp_key a b : glyph_cmp a b = k4_cmp (gkey a) (gkey b).
Proof.
  destruct a as [ca a0 a1 a2], b as [cb b0 b1 b2].
  unfold glyph_cmp, glyph_ltb, k4_cmp, pair_cmp, lex, gkey, cs_eqb. cbn [gcs g0 g1 g2 fst snd].
  change (cs_index CsUtf8) with 18.
  generalize (cs_index ca) (cs_index cb). intros ia ib.
  destruct (N.compare_spec ia ib) as [E|E|E].
  - subst ib. rewrite N.ltb_irrefl, N.eqb_refl.
    destruct (ia =? 18) eqn:Eu.
    + destruct (N.compare_spec a0 b0) as [F|F|F].
      * subst b0. rewrite N.ltb_irrefl.
        destruct (N.compare_spec a1 b1) as [G|G|G].
        -- subst b1. rewrite N.ltb_irrefl.
           destruct (N.compare_spec a2 b2) as [K|K|K].
           ++ subst b2. rewrite N.ltb_irrefl. reflexivity.
           ++ assert ((a2 <? b2) = true) as -> by lia. reflexivity.
           ++ assert ((a2 <? b2) = false) as -> by lia. assert ((b2 <? a2) = true) as -> by lia. reflexivity.
        -- assert ((a1 <? b1) = true) as -> by lia. reflexivity.
        -- assert ((a1 <? b1) = false) as -> by lia. assert ((b1 <? a1) = true) as -> by lia. reflexivity.
      * assert ((a0 <? b0) = true) as -> by lia. reflexivity.
      * assert ((a0 <? b0) = false) as -> by lia. assert ((b0 <? a0) = true) as -> by lia. reflexivity.
    + destruct (N.compare_spec a0 b0) as [F|F|F].
      * subst b0. rewrite N.ltb_irrefl. reflexivity.
      * assert ((a0 <? b0) = true) as -> by lia. reflexivity.
      * assert ((a0 <? b0) = false) as -> by lia. assert ((b0 <? a0) = true) as -> by lia. reflexivity.
  - assert ((ia <? ib) = true) as -> by lia. reflexivity.
  - assert ((ia <? ib) = false) as -> by lia. assert ((ia =? ib) = false) as -> by lia.
    assert ((ib <? ia) = true) as -> by lia. reflexivity.
Qed.

Lemma ord_glyph : ord_ok glyph_eqb glyph_cmp.
Proof. exact (ord_ext _ _ _ _ glyph_eqb_key glyph_cmp_key (ord_map gkey _ _ ord_k4)). Qed.

(* colour: the variant index, then the members *)
Definition ckey (c : colour) : N * (N * (N * N)) :=
  match c with
  | CLow v => (0, (v, (0, 0))) | CHigh v => (1, (v, (0, 0))) | CGrey v => (2, (v, (0, 0)))
  | CTrue r g b => (3, (r, (g, b)))
  end.

Lemma colour_eqb_key a b : colour_eqb a b = k4_eqb (ckey a) (ckey b).
Proof.
  destruct a, b; unfold k4_eqb, pair_eqb; cbn; rewrite ?andb_true_r; try reflexivity.
  rewrite andb_assoc. reflexivity.
Qed.

Lemma colour_cmp_key a b : colour_cmp a b = k4_cmp (ckey a) (ckey b).
Proof.
  destruct a, b; unfold k4_cmp, pair_cmp, lex; cbn; try reflexivity;
    repeat match goal with |- context[N.compare ?x ?y] => destruct (N.compare x y) end; reflexivity.
Qed.

Lemma ord_colour : ord_ok colour_eqb colour_cmp.
Proof. exact (ord_ext _ _ _ _ colour_eqb_key colour_cmp_key (ord_map ckey _ _ ord_k4)). Qed.

(* attribute: members in declaration order *)
Definition akey (a : attr) :=
  (fg a, (bg a, (inten_code (inten a), (ul_code (ul a), (neg_code (neg a), blink_code (blink a)))))).

Definition ord_akey :=
  ord_pair _ _ ord_colour _ _ (ord_pair _ _ ord_colour _ _
    (ord_pair _ _ ord_N _ _ (ord_pair _ _ ord_N _ _ ordN2))).

Lemma attr_eqb_key a b :
  attr_eqb a b =
  pair_eqb colour_eqb (pair_eqb colour_eqb (pair_eqb N.eqb (pair_eqb N.eqb (pair_eqb N.eqb N.eqb))))
           (akey a) (akey b).
Proof.
  destruct a as [af ab ai au an abl], b as [bf bb bi bu bn bbl].
  unfold attr_eqb, pair_eqb, akey, inten_eqb. cbn [fg bg inten ul neg blink fst snd].
  destruct au, bu, an, bn, abl, bbl; cbn; rewrite ?andb_true_r, ?andb_false_r; try reflexivity;
    rewrite <- ?andb_assoc; reflexivity.
Qed.

Lemma ord_attr : ord_ok attr_eqb attr_cmp.
Proof.
  refine (ord_ext _ _ _ _ attr_eqb_key _ (ord_map akey _ _ ord_akey)).
  intros a b. reflexivity.
Qed.

Lemma ord_element : ord_ok element_eqb element_cmp.
Proof.
  refine (ord_ext _ _ _ _ _ _ (ord_map (fun e => (eg e, ea e)) _ _ (ord_pair _ _ ord_glyph _ _ ord_attr)));
    intros a b; reflexivity.
Qed.

Lemma ord_string : ord_ok string_eqb string_cmp.
Proof. exact (ord_list _ _ ord_element). Qed.

(* point (y then x), extent (width then height), rectangle *)
Lemma ord_point : ord_ok point_eqb point_cmp.
Proof.
  refine (ord_ext _ _ _ _ _ _ (ord_map (fun p : zpt => (snd p, fst p)) _ _ (ord_pair _ _ ord_Z _ _ ord_Z))).
  - intros a b. unfold point_eqb, pair_eqb. cbn [fst snd]. apply andb_comm.
  - intros a b. reflexivity.
Qed.

Lemma ord_extent : ord_ok point_eqb extent_cmp.
Proof.
  refine (ord_ext _ _ _ _ _ _ (ord_map (fun p : zpt => p) _ _ (ord_pair _ _ ord_Z _ _ ord_Z)));
    intros a b; reflexivity.
Qed.

Lemma ord_rect : ord_ok rect_eqb rect_cmp.
Proof.
  refine (ord_ext _ _ _ _ _ _ (ord_map (fun r : zpt * zpt => r) _ _ (ord_pair _ _ ord_point _ _ ord_extent)));
    intros a b; reflexivity.
Qed.

(* control_sequence, virtual_key, mouse::event *)
Definition ord_args := ord_list _ _ (ord_list _ _ ord_N).

Definition cskey (c : cseq) := (cs_init c, (cs_cmd c, (cs_meta c, (cs_args c, cs_ext c)))).

Lemma ord_cseq : ord_ok cseq_eqb cseq_cmp.
Proof.
  refine (ord_ext _ _ _ _ _ _ (ord_map cskey _ _
            (ord_pair _ _ ord_N _ _ (ord_pair _ _ ord_N _ _ (ord_pair _ _ ord_bool _ _
               (ord_pair _ _ ord_args _ _ ord_N)))))).
  - intros a b. unfold cseq_eqb, pair_eqb, cskey. cbn [fst snd]. rewrite <- !andb_assoc. reflexivity.
  - intros a b. reflexivity.
Qed.

Lemma ord_kseq : ord_ok kseq_eqb kseq_cmp.
Proof.
  constructor.
  - intros [x|x] [y|y]; cbn; try (split; congruence).
    + apply (ok_eq _ _ ord_N).
    + apply (ok_eq _ _ ord_cseq).
  - intros [x|x] [y|y]; cbn; try reflexivity.
    + apply (ok_sym _ _ ord_N).
    + apply (ok_sym _ _ ord_cseq).
  - intros [x|x] [y|y] [z|z]; cbn; try congruence.
    + apply (ok_trans _ _ ord_N).
    + apply (ok_trans _ _ ord_cseq).
  - intros [x|x] [y|y] [z|z]; cbn; try congruence.
    + apply (ok_eq_l _ _ ord_N).
    + apply (ok_eq_l _ _ ord_cseq).
Qed.

Definition vkkey (k : vkey) := (k_key k, (k_mods k, (k_rep k, k_seq k))).

Lemma ord_vkey : ord_ok vkey_eqb vkey_cmp.
Proof.
  refine (ord_ext _ _ _ _ _ _ (ord_map vkkey _ _
            (ord_pair _ _ ord_N _ _ (ord_pair _ _ ord_N _ _ (ord_pair _ _ ord_Z _ _ ord_kseq))))).
  - intros a b. unfold vkey_eqb, pair_eqb, vkkey. cbn [fst snd]. rewrite <- !andb_assoc. reflexivity.
  - intros a b. reflexivity.
Qed.

Lemma ord_mouse : ord_ok mouse_eqb mouse_cmp.
Proof.
  refine (ord_ext _ _ _ _ _ _ (ord_map (fun m : N * zpt => m) _ _ (ord_pair _ _ ord_N _ _ ord_point)));
    intros a b; reflexivity.
Qed.

(* ---- hashing: equal values have equal hash keys -------------------------------------------- *)
Lemma glyph_hash_eq a b : glyph_eqb a b = true -> glyph_hash_key a = glyph_hash_key b.
Proof.
  unfold glyph_eqb, glyph_hash_key. intros H. apply andb_prop in H as [Hc H].
  assert (E : gcs a = gcs b) by (destruct (gcs a), (gcs b); cbn in Hc; congruence).
  rewrite <- E in *. destruct (cs_eqb (gcs a) CsUtf8).
  - apply andb_prop in H as [H H2]. apply andb_prop in H as [H0 H1].
    apply N.eqb_eq in H0, H1, H2. congruence.
  - apply N.eqb_eq in H. congruence.
Qed.

Lemma colour_hash_eq a b : colour_eqb a b = true -> colour_key a = colour_key b.
Proof.
  destruct a, b; cbn; intros H; try discriminate;
    repeat (apply andb_prop in H; destruct H as [H ?]);
    repeat match goal with H : (_ =? _) = true |- _ => apply N.eqb_eq in H; subst end; reflexivity.
Qed.

Lemma attr_hash_eq a b : attr_eqb a b = true -> attr_hash_key a = attr_hash_key b.
Proof.
  destruct a as [af ab ai au an abl], b as [bf bb bi bu bn bbl].
  unfold attr_eqb, attr_hash_key, attr_key. cbn [fg bg inten ul neg blink]. intros H.
  repeat (apply andb_prop in H; destruct H as [H ?]).
  rewrite (colour_hash_eq _ _ H).
  repeat match goal with
         | H : colour_eqb _ _ = true |- _ => apply colour_hash_eq in H; rewrite H
         | H : inten_eqb _ _ = true |- _ => unfold inten_eqb in H; apply N.eqb_eq in H; rewrite H
         | H : Bool.eqb _ _ = true |- _ => apply Bool.eqb_prop in H; subst
         end.
  reflexivity.
Qed.

Lemma element_hash_eq a b : element_eqb a b = true -> element_hash_key a = element_hash_key b.
Proof.
  unfold element_eqb, element_hash_key. intros H. apply andb_prop in H as [H1 H2].
  rewrite (glyph_hash_eq _ _ H1), (attr_hash_eq _ _ H2). reflexivity.
Qed.

Lemma string_hash_eq : forall a b, string_eqb a b = true -> string_hash_key a = string_hash_key b.
Proof.
  unfold string_eqb, string_hash_key.
  induction a as [|x a IH]; intros [|y b] H; cbn in H; try discriminate; [reflexivity|].
  apply andb_prop in H as [H1 H2]. cbn [map]. rewrite (element_hash_eq _ _ H1), (IH _ H2). reflexivity.
Qed.
