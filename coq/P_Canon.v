(* P_Canon.v — decoding the canonical markup of a string of expressible
   elements yields exactly that string (C10). *)
From TP Require Import Base Elem Term Markup Canon P_Markup P_Diff.
From Coq Require Import ZArith Lia ZifyBool ZifyN ZifyNat.
Local Open Scope N_scope.
Ltac Zify.zify_post_hook ::= Z.div_mod_to_equations.

Definition idle (i : minfo) : Prop := mi_st i = MIdle.

(* a directive d has effect f: from any idle decoder state it leaves the
   decoder idle again and transforms the element by f *)
Definition directive (d : list byte) (f : element -> element) : Prop :=
  forall i e rest, idle i ->
    exists i', idle i' /\ parse_loop (d ++ rest) i e = parse_loop rest i' (f e).

Lemma directive_nil : directive [] (fun e => e).
Proof. intros i e rest H. exists i. split; [exact H|reflexivity]. Qed.

Lemma directive_app d1 f1 d2 f2 :
  directive d1 f1 -> directive d2 f2 -> directive (d1 ++ d2) (fun e => f2 (f1 e)).
Proof.
  intros H1 H2 i e rest Hi. rewrite <- app_assoc.
  destruct (H1 i e (d2 ++ rest) Hi) as (i1 & Hi1 & E1).
  destruct (H2 i1 (f1 e) rest Hi1) as (i2 & Hi2 & E2).
  exists i2. split; [exact Hi2|]. rewrite E1. exact E2.
Qed.

Ltac start_dir :=
  let i := fresh "i" in let e := fresh "e" in let rest := fresh "rest" in let H := fresh "H" in
  intros i e rest H; destruct i as [st cc rr gg bb gy uu]; unfold idle in H; cbn [mi_st] in H; subst st.

Lemma lt10_cases d : d <= 9 -> d = 0 \/ d = 1 \/ d = 2 \/ d = 3 \/ d = 4 \/ d = 5 \/ d = 6 \/ d = 7 \/ d = 8 \/ d = 9.
Proof. lia. Qed.
Lemma lt6_cases d : d <= 5 -> d = 0 \/ d = 1 \/ d = 2 \/ d = 3 \/ d = 4 \/ d = 5.
Proof. lia. Qed.
Lemma lt16_cases d : d < 16 ->
  d = 0 \/ d = 1 \/ d = 2 \/ d = 3 \/ d = 4 \/ d = 5 \/ d = 6 \/ d = 7 \/ d = 8 \/ d = 9 \/
  d = 10 \/ d = 11 \/ d = 12 \/ d = 13 \/ d = 14 \/ d = 15.
Proof. lia. Qed.

Ltac cases_of H lem :=
  apply lem in H; repeat (destruct H as [H|H]; [subst|]); [..|subst].

(* ---- effects ----------------------------------------------------------------------------- *)
Lemma dir_intensity x : directive [92; 105; inten_char x] (fun e => set_inten e x).
Proof. start_dir. destruct x; eexists (mkMi MIdle _ _ _ _ _ _); split; reflexivity. Qed.

Lemma dir_polarity (b : bool) : directive [92; 112; if b then 45 else 43] (fun e => set_neg e b).
Proof. start_dir. destruct b; eexists (mkMi MIdle _ _ _ _ _ _); split; reflexivity. Qed.

Lemma dir_underline (b : bool) : directive [92; 117; if b then 43 else 45] (fun e => set_ul e b).
Proof. start_dir. destruct b; eexists (mkMi MIdle _ _ _ _ _ _); split; reflexivity. Qed.

Lemma dir_charset cs : cs_eqb cs CsUtf8 = false ->
  directive (92 :: 99 :: encode_cs cs) (fun e => set_cs e cs).
Proof.
  intros Hc. start_dir. destruct cs; try discriminate;
    eexists (mkMi MIdle _ _ _ _ _ _); split; reflexivity.
Qed.

(* ---- colours ------------------------------------------------------------------------------- *)
Lemma dir_low (fgp : bool) d : d <= 9 ->
  directive [92; if fgp then 91 else 93; 48 + d]
            (fun e => if fgp then set_fg e (CLow d) else set_bg e (CLow d)).
Proof.
  intros Hd. start_dir. cases_of Hd lt10_cases;
    destruct fgp; eexists (mkMi MIdle _ _ _ _ _ _); split; reflexivity.
Qed.

Lemma dir_high (fgp : bool) r g b : r <= 5 -> g <= 5 -> b <= 5 ->
  directive [92; if fgp then 60 else 62; 48 + r; 48 + g; 48 + b]
            (fun e => if fgp then set_fg e (CHigh (16 + 36 * r + 6 * g + b))
                      else set_bg e (CHigh (16 + 36 * r + 6 * g + b))).
Proof.
  intros Hr Hg Hb. start_dir.
  cases_of Hr lt6_cases; cases_of Hg lt6_cases; cases_of Hb lt6_cases;
    destruct fgp; eexists (mkMi MIdle _ _ _ _ _ _); split; reflexivity.
Qed.

Lemma grey_digits s : s <= 23 -> s / 10 <= 2 /\ s mod 10 <= 9 /\ s = 10 * (s / 10) + s mod 10.
Proof. lia. Qed.

Lemma dir_grey (fgp : bool) s : s <= 23 ->
  directive [92; if fgp then 123 else 125; 48 + s / 10; 48 + s mod 10]
            (fun e => if fgp then set_fg e (CGrey (232 + s)) else set_bg e (CGrey (232 + s))).
Proof.
  intros Hs. start_dir.
  assert (Hc : s = 0 \/ s = 1 \/ s = 2 \/ s = 3 \/ s = 4 \/ s = 5 \/ s = 6 \/ s = 7 \/ s = 8 \/ s = 9 \/
               s = 10 \/ s = 11 \/ s = 12 \/ s = 13 \/ s = 14 \/ s = 15 \/ s = 16 \/ s = 17 \/ s = 18 \/
               s = 19 \/ s = 20 \/ s = 21 \/ s = 22 \/ s = 23) by lia.
  repeat (destruct Hc as [Hc|Hc]; [subst s; destruct fgp; eexists (mkMi MIdle _ _ _ _ _ _); split; reflexivity|]).
  subst s; destruct fgp; eexists (mkMi MIdle _ _ _ _ _ _); split; reflexivity.
Qed.

(* two hex digits into a byte *)
Lemma digit16_hexd n : n < 16 -> digit16 (hexd n) = n.
Proof.
  intros H. apply lt16_cases in H.
  repeat (destruct H as [H|H]; [subst; reflexivity|]). subst. reflexivity.
Qed.

Lemma nibbles h l : h < 16 -> l < 16 -> N.lor (h * 16) l = h * 16 + l.
Proof.
  intros Hh Hl. apply lt16_cases in Hh.
  repeat (destruct Hh as [Hh|Hh]; [subst h; apply lt16_cases in Hl;
    repeat (destruct Hl as [Hl|Hl]; [subst l; reflexivity|]); subst l; reflexivity|]).
  subst h. apply lt16_cases in Hl.
  repeat (destruct Hl as [Hl|Hl]; [subst l; reflexivity|]). subst l. reflexivity.
Qed.

Lemma byte_nibbles v : v < 256 -> v / 16 < 16 /\ v mod 16 < 16 /\ (v / 16) * 16 + v mod 16 = v.
Proof. lia. Qed.

(* one step of the decoder on a hex digit, per state, kept symbolic *)
Section HexSteps.
Variables (c : byte) (cc rr gg bb gy uu : N) (e : element) (rest : list byte).
Lemma hs_f0 : parse_loop (c :: rest) (mkMi MFgTrue0 cc rr gg bb gy uu) e = parse_loop rest (mkMi MFgTrue1 cc (digit16 c * 16) gg bb gy uu) e.
Proof. reflexivity. Qed.
Lemma hs_f1 : parse_loop (c :: rest) (mkMi MFgTrue1 cc rr gg bb gy uu) e = parse_loop rest (mkMi MFgTrue2 cc (N.lor rr (digit16 c)) gg bb gy uu) e.
Proof. reflexivity. Qed.
Lemma hs_f2 : parse_loop (c :: rest) (mkMi MFgTrue2 cc rr gg bb gy uu) e = parse_loop rest (mkMi MFgTrue3 cc rr (digit16 c * 16) bb gy uu) e.
Proof. reflexivity. Qed.
Lemma hs_f3 : parse_loop (c :: rest) (mkMi MFgTrue3 cc rr gg bb gy uu) e = parse_loop rest (mkMi MFgTrue4 cc rr (N.lor gg (digit16 c)) bb gy uu) e.
Proof. reflexivity. Qed.
Lemma hs_f4 : parse_loop (c :: rest) (mkMi MFgTrue4 cc rr gg bb gy uu) e = parse_loop rest (mkMi MFgTrue5 cc rr gg (digit16 c * 16) gy uu) e.
Proof. reflexivity. Qed.
Lemma hs_f5 : parse_loop (c :: rest) (mkMi MFgTrue5 cc rr gg bb gy uu) e =
  parse_loop rest (mkMi MIdle cc rr gg (N.lor bb (digit16 c)) gy uu) (set_fg e (CTrue rr gg (N.lor bb (digit16 c)))).
Proof. reflexivity. Qed.
Lemma hs_b0 : parse_loop (c :: rest) (mkMi MBgTrue0 cc rr gg bb gy uu) e = parse_loop rest (mkMi MBgTrue1 cc (digit16 c * 16) gg bb gy uu) e.
Proof. reflexivity. Qed.
Lemma hs_b1 : parse_loop (c :: rest) (mkMi MBgTrue1 cc rr gg bb gy uu) e = parse_loop rest (mkMi MBgTrue2 cc (N.lor rr (digit16 c)) gg bb gy uu) e.
Proof. reflexivity. Qed.
Lemma hs_b2 : parse_loop (c :: rest) (mkMi MBgTrue2 cc rr gg bb gy uu) e = parse_loop rest (mkMi MBgTrue3 cc rr (digit16 c * 16) bb gy uu) e.
Proof. reflexivity. Qed.
Lemma hs_b3 : parse_loop (c :: rest) (mkMi MBgTrue3 cc rr gg bb gy uu) e = parse_loop rest (mkMi MBgTrue4 cc rr (N.lor gg (digit16 c)) bb gy uu) e.
Proof. reflexivity. Qed.
Lemma hs_b4 : parse_loop (c :: rest) (mkMi MBgTrue4 cc rr gg bb gy uu) e = parse_loop rest (mkMi MBgTrue5 cc rr gg (digit16 c * 16) gy uu) e.
Proof. reflexivity. Qed.
Lemma hs_b5 : parse_loop (c :: rest) (mkMi MBgTrue5 cc rr gg bb gy uu) e =
  parse_loop rest (mkMi MIdle cc rr gg (N.lor bb (digit16 c)) gy uu) (set_bg e (CTrue rr gg (N.lor bb (digit16 c)))).
Proof. reflexivity. Qed.
Lemma hs_u0 : parse_loop (c :: rest) (mkMi MUtf80 cc rr gg bb gy uu) e = parse_loop rest (mkMi MUtf81 cc rr gg bb gy (digit16 c)) e.
Proof. reflexivity. Qed.
Lemma hs_u1 : parse_loop (c :: rest) (mkMi MUtf81 cc rr gg bb gy uu) e = parse_loop rest (mkMi MUtf82 cc rr gg bb gy ((uu * 16 + digit16 c) mod 65536)) e.
Proof. reflexivity. Qed.
Lemma hs_u2 : parse_loop (c :: rest) (mkMi MUtf82 cc rr gg bb gy uu) e = parse_loop rest (mkMi MUtf83 cc rr gg bb gy ((uu * 16 + digit16 c) mod 65536)) e.
Proof. reflexivity. Qed.
Lemma hs_u3 : parse_loop (c :: rest) (mkMi MUtf83 cc rr gg bb gy uu) e =
  parse_loop rest (mkMi MDone cc rr gg bb gy uu) (set_glyph e (utf8_encode ((uu * 16 + digit16 c) mod 65536))).
Proof. reflexivity. Qed.
Lemma hs_intro (k : byte) st :
  (k = 40 /\ st = MFgTrue0) \/ (k = 41 /\ st = MBgTrue0) \/ (k = 85 /\ st = MUtf80) ->
  parse_loop (92 :: k :: rest) (mkMi MIdle cc rr gg bb gy uu) e = parse_loop rest (mkMi st cc rr gg bb gy uu) e.
Proof. intros [[-> ->]|[[-> ->]|[-> ->]]]; reflexivity. Qed.
End HexSteps.

Lemma dir_true (fgp : bool) r g b : r < 256 -> g < 256 -> b < 256 ->
  directive [92; if fgp then 40 else 41; hexd (r / 16); hexd (r mod 16);
             hexd (g / 16); hexd (g mod 16); hexd (b / 16); hexd (b mod 16)]
            (fun e => if fgp then set_fg e (CTrue r g b) else set_bg e (CTrue r g b)).
Proof.
  intros Hr Hg Hb. start_dir.
  destruct (byte_nibbles r Hr) as (R1 & R2 & R3).
  destruct (byte_nibbles g Hg) as (G1 & G2 & G3).
  destruct (byte_nibbles b Hb) as (B1 & B2 & B3).
  destruct fgp; eexists (mkMi MIdle cc r g b gy uu); (split; [reflexivity|]); cbn [app].
  - rewrite (hs_intro _ _ _ _ _ _ _ _ 40 MFgTrue0) by (left; split; reflexivity).
    rewrite hs_f0, hs_f1, hs_f2, hs_f3, hs_f4, hs_f5.
    rewrite !digit16_hexd by assumption. rewrite !nibbles by assumption. rewrite R3, G3, B3. reflexivity.
  - rewrite (hs_intro _ _ _ _ _ _ _ _ 41 MBgTrue0) by (right; left; split; reflexivity).
    rewrite hs_b0, hs_b1, hs_b2, hs_b3, hs_b4, hs_b5.
    rewrite !digit16_hexd by assumption. rewrite !nibbles by assumption. rewrite R3, G3, B3. reflexivity.
Qed.

Lemma dir_colour (fgp : bool) c : wf_xcolour c = true ->
  directive (colour_markup fgp c)
            (fun e => if fgp then set_fg e (colour_of c) else set_bg e (colour_of c)).
Proof.
  intros H. destruct c as [d|r g b|s|r g b]; cbn [wf_xcolour colour_markup colour_of] in *.
  - apply dir_low. lia.
  - apply dir_high; lia.
  - apply dir_grey. lia.
  - apply dir_true; lia.
Qed.

(* ---- glyphs ---------------------------------------------------------------------------------- *)
Lemma done_stop rest i e : is_done (mi_st i) = true -> parse_loop rest i e = (rest, e).
Proof. intros H. destruct rest; cbn [parse_loop]; [reflexivity|]. rewrite H. reflexivity. Qed.

Lemma glyph_byte b i e rest : idle i -> b <> 92 ->
  parse_loop (b :: rest) i e = (rest, set_g0 e b).
Proof.
  intros Hi Hb. destruct i as [st cc rr gg bb gy uu]. unfold idle in Hi. cbn [mi_st] in Hi. subst st.
  cbn [parse_loop is_done mi_st mstate_index N.eqb]. unfold mstep. cbn [mi_st].
  assert ((b =? 92) = false) as -> by lia.
  apply done_stop. reflexivity.
Qed.

Lemma glyph_backslash i e rest : idle i ->
  parse_loop (92 :: 92 :: rest) i e = (rest, set_g0 e 92).
Proof.
  intros Hi. destruct i as [st cc rr gg bb gy uu]. unfold idle in Hi. cbn [mi_st] in Hi. subst st.
  transitivity (parse_loop rest (mkMi MDone cc rr gg bb gy uu) (set_g0 e 92)); [reflexivity|].
  apply done_stop. reflexivity.
Qed.

Lemma hex4 v : v <= 65535 ->
  v / 4096 < 16 /\ (v / 256) mod 16 < 16 /\ (v / 16) mod 16 < 16 /\ v mod 16 < 16 /\
  ((((v / 4096) * 16 + (v / 256) mod 16) mod 65536 * 16 + (v / 16) mod 16) mod 65536 * 16 + v mod 16) mod 65536 = v.
Proof.
  intros H.
  set (a := v / 4096). set (b := (v / 256) mod 16). set (c := (v / 16) mod 16). set (d := v mod 16).
  assert (Hv : v = a * 4096 + b * 256 + c * 16 + d /\ a < 16 /\ b < 16 /\ c < 16 /\ d < 16).
  { unfold a, b, c, d. clear a b c d.
    assert (v / 256 = (v / 4096) * 16 + (v / 256) mod 16).
    { replace (v / 4096) with (v / 256 / 16) by (rewrite N.div_div by lia; reflexivity).
      pose proof (N.div_mod (v / 256) 16). lia. }
    assert (v / 16 = (v / 256) * 16 + (v / 16) mod 16).
    { replace (v / 256) with (v / 16 / 16) by (rewrite N.div_div by lia; reflexivity).
      pose proof (N.div_mod (v / 16) 16). lia. }
    pose proof (N.div_mod v 16). pose proof (N.mod_lt v 16). pose proof (N.mod_lt (v / 16) 16).
    pose proof (N.mod_lt (v / 256) 16).
    assert (v / 4096 < 16) by (apply N.div_lt_upper_bound; lia). lia. }
  clearbody a b c d. destruct Hv as (Hv & Ha & Hb & Hc & Hd).
  repeat split; try assumption.
  rewrite (N.mod_small (a * 16 + b)) by lia. rewrite (N.mod_small ((a * 16 + b) * 16 + c)) by lia.
  rewrite N.mod_small by lia. lia.
Qed.

Lemma glyph_unicode v i e rest : idle i -> v <= 65535 ->
  parse_loop (glyph_markup (XUni v) ++ rest) i e = (rest, set_glyph e (utf8_encode v)).
Proof.
  intros Hi Hv. destruct i as [st cc rr gg bb gy uu]. unfold idle in Hi. cbn [mi_st] in Hi. subst st.
  destruct (hex4 v Hv) as (H3 & H2 & H1 & H0 & E).
  cbn [glyph_markup app].
  rewrite (hs_intro _ _ _ _ _ _ _ _ 85 MUtf80) by (right; right; split; reflexivity).
  rewrite hs_u0, hs_u1, hs_u2, hs_u3. rewrite !digit16_hexd by assumption. rewrite E.
  apply done_stop. reflexivity.
Qed.

(* ---- one element ---------------------------------------------------------------------------------- *)
Lemma directive_cond (c : bool) d f :
  directive d f -> directive (if c then [] else d) (fun e => if c then e else f e).
Proof. intros H. destruct c; [apply directive_nil|exact H]. Qed.

Lemma eqb_bool_prop a b : Bool.eqb a b = true -> a = b.
Proof. apply Bool.eqb_prop. Qed.

Theorem parse_canon_elem base x rest :
  wf_x x = true ->
  parse_loop (canon_elem base x ++ rest) init_minfo base = (rest, decoded base x).
Proof.
  intros Hwf. unfold wf_x in Hwf.
  apply andb_prop in Hwf as [Hwf Hbg]. apply andb_prop in Hwf as [Hg Hfg].
  unfold canon_elem.
  (* the six optional directives *)
  set (dcs := match xg x with
              | XByte cs _ => if cs_eqb cs (gcs (eg base)) then [] else 92 :: 99 :: encode_cs cs
              | XUni _ => []
              end).
  set (fcs := fun e : element => match xg x with
              | XByte cs _ => if cs_eqb cs (gcs (eg base)) then e else set_cs e cs
              | XUni _ => e
              end).
  assert (Dcs : directive dcs fcs).
  { unfold dcs, fcs. destruct (xg x) as [cs b|v]; [|apply directive_nil].
    apply andb_prop in Hg as [Hcs _]. apply negb_true_iff in Hcs.
    apply directive_cond. apply dir_charset. exact Hcs. }
  pose proof (directive_cond (inten_eqb (xint x) (inten (ea base))) _ _ (dir_intensity (xint x))) as Di.
  pose proof (directive_cond (Bool.eqb (xneg x) (neg (ea base))) _ _ (dir_polarity (xneg x))) as Dn.
  pose proof (directive_cond (Bool.eqb (xul x) (ul (ea base))) _ _ (dir_underline (xul x))) as Du.
  pose proof (directive_cond (colour_eqb (colour_of (xfg x)) (fg (ea base))) _ _ (dir_colour true (xfg x) Hfg)) as Df.
  pose proof (directive_cond (colour_eqb (colour_of (xbg x)) (bg (ea base))) _ _ (dir_colour false (xbg x) Hbg)) as Db.
  pose proof (directive_app _ _ _ _ Dcs (directive_app _ _ _ _ Di (directive_app _ _ _ _ Dn
               (directive_app _ _ _ _ Du (directive_app _ _ _ _ Df Db))))) as D.
  match goal with
  | |- parse_loop ((dcs ++ ?a ++ ?b ++ ?c ++ ?d ++ ?f ++ ?g) ++ rest) _ _ = _ =>
      replace ((dcs ++ a ++ b ++ c ++ d ++ f ++ g) ++ rest)
        with ((dcs ++ a ++ b ++ c ++ d ++ f) ++ (g ++ rest))
        by (repeat rewrite <- app_assoc; reflexivity)
  end.
  specialize (D init_minfo base (glyph_markup (xg x) ++ rest) eq_refl).
  destruct D as (i' & Hi' & E). rewrite E. clear E.
  (* the glyph *)
  set (e5 := (if colour_eqb (colour_of (xbg x)) (bg (ea base)) then _ else _)).
  assert (He5 : e5 = mkElem (match xg x with
                             | XByte cs _ => mkGlyph cs (g0 (eg base)) (g1 (eg base)) (g2 (eg base))
                             | XUni _ => eg base end)
                            (mkAttr (colour_of (xfg x)) (colour_of (xbg x)) (xint x) (xul x) (xneg x) (blink (ea base)))).
  { unfold e5, fcs. destruct base as [[bc b0 b1 b2] [bf bbg bi bu bn bl]].
    cbn [eg ea gcs g0 g1 g2 fg bg inten ul neg blink].
    destruct (xg x) as [cs b|v];
      repeat match goal with |- context[if ?c then _ else _] => destruct c eqn:? end;
      repeat match goal with
             | H : cs_eqb _ _ = true |- _ => apply cs_eqb_eq in H
             | H : inten_eqb _ _ = true |- _ => apply inten_eqb_eq in H
             | H : Bool.eqb _ _ = true |- _ => apply eqb_bool_prop in H
             | H : colour_eqb _ _ = true |- _ => apply colour_eqb_eq in H
             end; subst; reflexivity. }
  rewrite He5. clear He5 e5. unfold decoded.
  destruct (xg x) as [cs b|v] eqn:Eg.
  - cbn [glyph_markup]. destruct (b =? 92) eqn:Eb.
    + apply N.eqb_eq in Eb. subst b. cbn [app]. rewrite glyph_backslash by exact Hi'. reflexivity.
    + cbn [app]. rewrite glyph_byte by (first [exact Hi' | lia]). reflexivity.
  - rewrite glyph_unicode by (first [exact Hi' | lia]). reflexivity.
Qed.

(* ---- strings ----------------------------------------------------------------------------------------- *)
Lemma parse_canon_element prev x rest : wf_x x = true ->
  parse_element (canon_elem (element_with_base prev) x ++ rest) prev =
  (rest, decoded (element_with_base prev) x).
Proof. intros H. unfold parse_element. apply parse_canon_elem. exact H. Qed.

Lemma glyph_markup_nonempty g : glyph_markup g <> [].
Proof. destruct g as [cs b|v]; cbn; [destruct (b =? 92)|]; discriminate. Qed.

Lemma canon_elem_nonempty base x : canon_elem base x <> [].
Proof.
  unfold canon_elem. intros H.
  repeat (apply app_eq_nil in H; destruct H as [_ H]). exact (glyph_markup_nonempty _ H).
Qed.

Theorem encode_canon : forall xs prev fuel,
  forallb wf_x xs = true -> (length (canon_from prev xs) <= fuel)%nat ->
  encode_loop fuel (canon_from prev xs) prev = decode_list prev xs.
Proof.
  induction xs as [|x r IH]; intros prev fuel Hwf Hf.
  - cbn. destruct fuel; reflexivity.
  - cbn [forallb] in Hwf. apply andb_prop in Hwf as [Hx Hr].
    cbn [canon_from decode_list] in *.
    set (base := element_with_base prev) in *.
    destruct fuel as [|f].
    { exfalso. rewrite app_length in Hf. pose proof (canon_elem_nonempty base x) as Hn.
      destruct (canon_elem base x); [congruence|cbn in Hf; lia]. }
    cbn [encode_loop].
    destruct (canon_elem base x ++ canon_from (decoded base x) r) as [|c0 t0] eqn:Et.
    { exfalso. apply app_eq_nil in Et as [Et _]. exact (canon_elem_nonempty base x Et). }
    rewrite <- Et. unfold base. rewrite parse_canon_element by exact Hx. f_equal.
    apply IH; [exact Hr|].
    fold base in Et.
    assert (length (canon_from (decoded base x) r) < length (c0 :: t0))%nat.
    { rewrite <- Et, app_length. pose proof (canon_elem_nonempty base x) as Hn.
      destruct (canon_elem base x); [congruence|cbn; lia]. }
    subst base. cbn [length] in *. lia.
Qed.

Lemma decoded_matches base x : wf_x x = true -> blink (ea base) = false ->
  element_eqb (decoded base x) (target x) = true /\ blink (ea (decoded base x)) = false.
Proof.
  intros Hwf Hb. unfold wf_x in Hwf. apply andb_prop in Hwf as [Hwf _]. apply andb_prop in Hwf as [Hg _].
  split; [|exact Hb].
  unfold decoded, target, element_eqb. cbn [eg ea]. rewrite Hb, attr_eqb_refl, andb_true_r.
  destruct (xg x) as [cs b|v]; cbn [glyph_of].
  - apply andb_prop in Hg as [Hcs _]. apply negb_true_iff in Hcs.
    unfold glyph_eqb. cbn [gcs g0]. rewrite Hcs, cs_eqb_refl, N.eqb_refl. reflexivity.
  - unfold glyph_eqb. rewrite cs_eqb_refl, !N.eqb_refl. destruct (cs_eqb _ _); reflexivity.
Qed.

Lemma ewb_blink prev : blink (ea (element_with_base prev)) = blink (ea prev).
Proof. reflexivity. Qed.

Theorem decode_list_matches : forall xs prev,
  forallb wf_x xs = true -> blink (ea prev) = false ->
  Forall2 (fun e x => element_eqb e (target x) = true) (decode_list prev xs) xs.
Proof.
  induction xs as [|x r IH]; intros prev Hwf Hb; [constructor|].
  cbn [forallb] in Hwf. apply andb_prop in Hwf as [Hx Hr]. cbn [decode_list].
  destruct (decoded_matches (element_with_base prev) x Hx) as [H1 H2]; [rewrite ewb_blink; exact Hb|].
  constructor; [exact H1|]. apply IH; [exact Hr|exact H2].
Qed.

(* the reset directive restores every attribute *)
Lemma dir_reset : directive [92; 120] (fun e => set_attr e default_attr).
Proof. start_dir. eexists (mkMi MIdle _ _ _ _ _ _). split; reflexivity. Qed.

(* text without backslashes decodes to itself with default attributes *)
Lemma plain_loop : forall bs prev fuel,
  forallb (fun b => negb (b =? 92)) bs = true -> (length bs <= fuel)%nat ->
  ea prev = default_attr -> gcs (eg prev) = CsAscii ->
  Forall2 (fun e b => element_eqb e (mkElem (mkGlyph CsAscii b 0 0) default_attr) = true)
          (encode_loop fuel bs prev) bs.
Proof.
  induction bs as [|b r IH]; intros prev fuel Hbs Hf Ha Hc.
  - destruct fuel; constructor.
  - cbn [forallb] in Hbs. apply andb_prop in Hbs as [Hb Hr]. apply negb_true_iff in Hb.
    destruct fuel as [|f]; [cbn in Hf; lia|]. cbn [encode_loop].
    unfold parse_element. rewrite glyph_byte by (first [reflexivity | lia]).
    set (e := set_g0 (element_with_base prev) b).
    assert (He : ea e = default_attr /\ gcs (eg e) = CsAscii /\ g0 (eg e) = b).
    { unfold e, element_with_base, set_g0, set_glyph. cbn [ea eg gcs g0]. rewrite Hc. cbn. repeat split. exact Ha. }
    destruct He as (He1 & He2 & He3).
    constructor.
    + unfold element_eqb, glyph_eqb. rewrite He1, He2, He3. cbn [gcs g0 eg ea cs_eqb cs_index].
      rewrite !N.eqb_refl, attr_eqb_refl. reflexivity.
    + apply IH; [exact Hr|cbn in Hf; lia|exact He1|exact He2].
Qed.
