(* P_Canvas.v — canvas cells, row-major addressing, region iteration, resize. *)
From TP Require Import Base Elem Term Screen.
From Coq Require Import ZArith Lia ZifyBool ZifyN ZifyNat.
Local Open Scope N_scope.

Definition wf_canvas (c : canvas) : Prop := length (grid c) = N.to_nat (cw c * ch c).

(* ---- list_set ---------------------------------------------------------------- *)
Lemma list_set_length {A} (l : list A) : forall i v, length (list_set l i v) = length l.
Proof. induction l as [|a r IH]; intros [|i] v; cbn; try reflexivity. rewrite IH. reflexivity. Qed.

Lemma nth_list_set_same {A} (l : list A) : forall i v d, (i < length l)%nat -> nth i (list_set l i v) d = v.
Proof. induction l as [|a r IH]; intros [|i] v d H; cbn in *; try lia; [reflexivity|]. apply IH. lia. Qed.

Lemma nth_list_set_other {A} (l : list A) : forall i j v d, i <> j -> nth i (list_set l j v) d = nth i l d.
Proof.
  induction l as [|a r IH]; intros [|i] [|j] v d H; cbn; try reflexivity; try congruence.
  apply IH. congruence.
Qed.

(* ---- index arithmetic ------------------------------------------------------------ *)
Lemma index_inj w x y x' y' : x < w -> x' < w -> y * w + x = y' * w + x' -> x = x' /\ y = y'.
Proof.
  intros Hx Hx' E.
  assert (Hw : w <> 0) by lia.
  assert (Hy : y = y').
  { assert (H1 : (y * w + x) / w = y) by (rewrite N.div_add_l by exact Hw; rewrite N.div_small by exact Hx; lia).
    assert (H2 : (y' * w + x') / w = y') by (rewrite N.div_add_l by exact Hw; rewrite N.div_small by exact Hx'; lia).
    rewrite E in H1. congruence. }
  subst y'. split; [lia|reflexivity].
Qed.

Lemma index_bound w h x y : x < w -> y < h -> y * w + x < w * h.
Proof. intros Hx Hy. nia. Qed.

(* ---- Nseq and region_points --------------------------------------------------------- *)
Lemma In_Nseq n s l : In n (Nseq s l) <-> s <= n < s + l.
Proof.
  unfold Nseq. rewrite in_map_iff. split.
  - intros [k [Hk Hin]]. apply in_seq in Hin. lia.
  - intros H. exists (N.to_nat n). split; [lia|]. apply in_seq. lia.
Qed.

Lemma Nseq_length s l : length (Nseq s l) = N.to_nat l.
Proof. unfold Nseq. rewrite map_length, seq_length. reflexivity. Qed.

Lemma nth_Nseq s l i d : (i < N.to_nat l)%nat -> nth i (Nseq s l) d = s + N.of_nat i.
Proof.
  intros H. unfold Nseq. rewrite (nth_indep _ d (N.of_nat 0)) by (rewrite map_length, seq_length; exact H).
  rewrite map_nth, seq_nth by exact H. lia.
Qed.

Lemma In_region_points x y ox oy w h :
  In (x, y) (region_points ox oy w h) <-> (ox <= x < ox + w) /\ (oy <= y < oy + h).
Proof.
  unfold region_points. rewrite in_flat_map. split.
  - intros [y' [Hy Hin]]. apply in_map_iff in Hin as [x' [E Hx]]. inversion E; subst.
    apply In_Nseq in Hy, Hx. split; assumption.
  - intros [Hx Hy]. exists y. split; [apply In_Nseq; exact Hy|].
    apply in_map_iff. exists x. split; [reflexivity|apply In_Nseq; exact Hx].
Qed.

Lemma nth_flat_map_rows {A B} (f : A -> list B) (w : nat) (a0 : A) (d : B) :
  forall l, (forall a, length (f a) = w) ->
  forall i j, (i < w)%nat -> (j < length l)%nat ->
  nth (j * w + i) (flat_map f l) d = nth i (f (nth j l a0)) d.
Proof.
  induction l as [|a r IH]; intros Hlen i j Hi Hj; [cbn in Hj; lia|].
  cbn [flat_map]. destruct j as [|j].
  - cbn [Nat.mul Nat.add nth]. rewrite app_nth1 by (rewrite Hlen; exact Hi). reflexivity.
  - rewrite app_nth2 by (rewrite Hlen; nia). rewrite Hlen.
    replace (S j * w + i - w)%nat with (j * w + i)%nat by nia.
    cbn [nth]. apply IH; [exact Hlen|exact Hi|cbn in Hj; lia].
Qed.

Lemma region_points_length ox oy w h :
  length (region_points ox oy w h) = N.to_nat (w * h).
Proof.
  unfold region_points.
  assert (H : forall l : list N, length (flat_map (fun y : N => map (fun x : N => (x, y)) (Nseq ox w)) l)
                        = (length l * N.to_nat w)%nat).
  { induction l as [|a r IH]; [reflexivity|]. cbn [flat_map]. rewrite app_length, map_length, Nseq_length, IH. cbn. lia. }
  rewrite H, Nseq_length. nia.
Qed.

(* the k-th cell visited, k = j*w + i, is (ox + i, oy + j): row-major order,
   each cell of the region exactly once *)
Lemma region_points_nth ox oy w h i j d :
  i < w -> j < h ->
  nth (N.to_nat (j * w + i)) (region_points ox oy w h) d = (ox + i, oy + j).
Proof.
  intros Hi Hj. unfold region_points.
  replace (N.to_nat (j * w + i)) with (N.to_nat j * N.to_nat w + N.to_nat i)%nat by nia.
  rewrite (nth_flat_map_rows _ (N.to_nat w) 0 d) by
    (first [intros a; rewrite map_length, Nseq_length; reflexivity | rewrite Nseq_length; lia | lia]).
  rewrite nth_Nseq by lia.
  rewrite (nth_indep _ d ((fun x => (x, oy + N.of_nat (N.to_nat j))) 0)) by (rewrite map_length, Nseq_length; lia).
  set (jj := oy + N.of_nat (N.to_nat j)).
  change (0, jj) with ((fun x : N => (x, jj)) 0).
  rewrite map_nth, nth_Nseq by lia. unfold jj. f_equal; lia.
Qed.

(* ---- cells ---------------------------------------------------------------------------- *)
Lemma blank_wf w h : wf_canvas (blank_canvas w h).
Proof. unfold wf_canvas, blank_canvas. cbn. apply repeat_length. Qed.

Lemma blank_get w h x y : cv_get (blank_canvas w h) x y = default_element.
Proof. unfold cv_get, blank_canvas. cbn [grid]. apply nth_repeat. Qed.

Lemma set_wf c x y e : wf_canvas c -> wf_canvas (cv_set c x y e).
Proof. unfold wf_canvas, cv_set. cbn. rewrite list_set_length. auto. Qed.

Lemma get_set c x y e x' y' :
  wf_canvas c -> x < cw c -> y < ch c -> x' < cw c -> y' < ch c ->
  cv_get (cv_set c x y e) x' y' =
  if (x' =? x) && (y' =? y) then e else cv_get c x' y'.
Proof.
  intros Hwf Hx Hy Hx' Hy'. unfold cv_get, cv_set, cv_index. cbn [grid cw].
  destruct ((x' =? x) && (y' =? y)) eqn:E.
  - assert (x' = x /\ y' = y) as [-> ->] by lia.
    apply nth_list_set_same. rewrite Hwf. pose proof (index_bound _ _ _ _ Hx Hy). lia.
  - apply nth_list_set_other. intros Heq.
    assert (y' * cw c + x' = y * cw c + x) by lia.
    destruct (index_inj _ _ _ _ _ Hx' Hx H). lia.
Qed.

(* ---- resize ------------------------------------------------------------------------------ *)
Definition rstep (w' : N) (g : list element) (pe : pt * element) : list element :=
  list_set g (N.to_nat (snd (fst pe) * w' + fst (fst pe))) (snd pe).

Lemma fold_rstep_length w' : forall vs g, length (fold_left (rstep w') vs g) = length g.
Proof.
  induction vs as [|pe r IH]; intros g; [reflexivity|].
  cbn [fold_left]. rewrite IH. unfold rstep. apply list_set_length.
Qed.

Lemma fold_rstep_nth w' (i : nat) (v : element) : forall vs g,
  (forall pe, In pe vs -> N.to_nat (snd (fst pe) * w' + fst (fst pe)) = i -> snd pe = v) ->
  (nth i g default_element = v \/
   exists pe, In pe vs /\ N.to_nat (snd (fst pe) * w' + fst (fst pe)) = i) ->
  (i < length g)%nat ->
  nth i (fold_left (rstep w') vs g) default_element = v.
Proof.
  induction vs as [|pe r IH]; intros g Hall Hex Hlen.
  - cbn. destruct Hex as [H|[pe [[] _]]]. exact H.
  - cbn [fold_left]. apply IH.
    + intros q Hq. apply Hall. right. exact Hq.
    + unfold rstep at 1.
      destruct (Nat.eq_dec (N.to_nat (snd (fst pe) * w' + fst (fst pe))) i) as [E|E].
      * left. pose proof (Hall pe (or_introl eq_refl) E) as Hv. subst i.
        rewrite nth_list_set_same by exact Hlen. exact Hv.
      * destruct Hex as [H|[q [[Hq|Hq] Hi]]].
        -- left. rewrite nth_list_set_other by (intros Hc; apply E; symmetry; exact Hc). exact H.
        -- subst q. exfalso. apply E. exact Hi.
        -- right. exists q. split; assumption.
    + unfold rstep. rewrite list_set_length. exact Hlen.
Qed.

Lemma resize_size c w' h' : cw (cv_resize c w' h') = w' /\ ch (cv_resize c w' h') = h'.
Proof. split; reflexivity. Qed.

Lemma resize_wf c w' h' : wf_canvas (cv_resize c w' h').
Proof.
  unfold wf_canvas, cv_resize. cbn [grid cw ch].
  change (fun g pe => list_set g (N.to_nat (snd (fst pe) * w' + fst (fst pe))) (snd pe)) with (rstep w').
  rewrite fold_rstep_length. apply repeat_length.
Qed.

Lemma resize_get c w' h' x y : x < w' -> y < h' ->
  cv_get (cv_resize c w' h') x y =
  if (x <? cw c) && (y <? ch c) then cv_get c x y else default_element.
Proof.
  intros Hx Hy. unfold cv_get at 1, cv_resize, cv_index. cbn [grid cw].
  change (fun g pe => list_set g (N.to_nat (snd (fst pe) * w' + fst (fst pe))) (snd pe)) with (rstep w').
  set (mw := N.min w' (cw c)). set (mh := N.min h' (ch c)).
  assert (Hvis : forall pe, In pe (region_visit c 0 0 mw mh) ->
                 fst (fst pe) < mw /\ snd (fst pe) < mh /\ snd pe = cv_get c (fst (fst pe)) (snd (fst pe))).
  { intros pe Hin. unfold region_visit in Hin. apply in_map_iff in Hin as [[px py] [E Hp]].
    subst pe. apply In_region_points in Hp. cbn [fst snd]. split; [lia|split; [lia|reflexivity]]. }
  apply fold_rstep_nth.
  - intros pe Hin Hidx. destruct (Hvis pe Hin) as (H1 & H2 & H3).
    destruct pe as [[px py] e]. cbn [fst snd] in *.
    assert (E : py * w' + px = y * w' + x) by (apply N2Nat.inj; exact Hidx).
    unfold mw in H1. unfold mh in H2.
    apply N.min_glb_lt_iff in H1 as [H1a H1b]. apply N.min_glb_lt_iff in H2 as [H2a H2b].
    destruct (index_inj w' _ _ _ _ H1a Hx E) as [Ex Ey]. subst px py e.
    apply N.ltb_lt in H1b, H2b. rewrite H1b, H2b. reflexivity.
  - destruct ((x <? cw c) && (y <? ch c)) eqn:E.
    + right. exists ((x, y), cv_get c x y). split; [|reflexivity].
      unfold region_visit. apply in_map_iff. exists (x, y). split; [reflexivity|].
      apply andb_prop in E as [E1 E2]. apply N.ltb_lt in E1, E2.
      apply In_region_points. unfold mw, mh. split; (split; [apply N.le_0_l|]);
        rewrite N.add_0_l; apply N.min_glb_lt; assumption.
    + left. apply nth_repeat.
  - rewrite repeat_length. pose proof (index_bound _ _ _ _ Hx Hy). lia.
Qed.
