(* Properties_C10.v — C10: attribute markup decodes to exactly the elements it
   describes. *)
From TP Require Import Base Elem Term Markup Canon P_Markup P_Canon Tie_Markup Tie_Charset Tie_Colour.
Local Open Scope N_scope.

(* For every string of expressible elements (any glyph byte in any designatable
   character set, UTF-8 code points up to U+FFFF, every intensity / polarity /
   underlining, low / high / greyscale / true colours for foreground and
   background): decoding its canonical markup - which states a property only
   when it differs from the previous element, so this also says that
   directives persist until changed - yields exactly that string.  "Exactly"
   is element equality (==): the two unused storage bytes of a non-UTF-8 glyph
   are not part of its value. *)
Theorem C10_roundtrip :
  forall xs, forallb wf_x xs = true ->
    Forall2 (fun e x => element_eqb e (target x) = true) (encode (canon xs)) xs.
Proof.
  intros xs Hwf. unfold encode, canon.
  rewrite encode_canon by (first [exact Hwf | apply le_n]).
  apply decode_list_matches; [exact Hwf|reflexivity].
Qed.
Print Assumptions C10_roundtrip.

(* the decoded list itself, not only up to ==: it is the fold of "previous
   element with the stated properties replaced" *)
Theorem C10_decodes_to :
  forall xs, forallb wf_x xs = true -> encode (canon xs) = decode_list default_element xs.
Proof. intros xs Hwf. unfold encode, canon. apply encode_canon; [exact Hwf|apply le_n]. Qed.
Print Assumptions C10_decodes_to.

(* one element, from any previous element, with anything following *)
Theorem C10_one_element :
  forall prev x rest, wf_x x = true ->
    parse_element (canon_elem (element_with_base prev) x ++ rest) prev =
    (rest, decoded (element_with_base prev) x).
Proof. exact parse_canon_element. Qed.
Print Assumptions C10_one_element.

(* text without backslashes decodes to itself with default attributes *)
Theorem C10_plain :
  forall bs, forallb (fun b => negb (b =? 92)) bs = true ->
    Forall2 (fun e b => element_eqb e (mkElem (mkGlyph CsAscii b 0 0) default_attr) = true)
            (encode bs) bs.
Proof. intros bs H. unfold encode. apply plain_loop; [exact H|apply le_n|reflexivity|reflexivity]. Qed.
Print Assumptions C10_plain.

(* the reset directive restores every attribute, whatever they were *)
Theorem C10_reset :
  forall i e rest, idle i ->
    exists i', idle i' /\ parse_loop (92 :: 120 :: rest) i e = parse_loop rest i' (set_attr e default_attr).
Proof. intros i e rest H. exact (dir_reset i e rest H). Qed.
Print Assumptions C10_reset.

Example C10_nonvacuous :
  let xs := [mkX (XByte CsDec 113) (XLow 1) (XHigh 2 3 4) IBold true false;
             mkX (XUni 9786) (XLow 1) (XGrey 5) IBold true true;
             mkX (XByte CsAscii 92) (XTrue 1 171 255) (XGrey 5) INormal false true] in
  forallb wf_x xs = true /\
  canon xs = [92; 99; 48; 92; 105; 62; 92; 117; 43; 92; 91; 49; 92; 62; 50; 51; 52; 113;
              92; 112; 45; 92; 125; 48; 53; 92; 85; 50; 54; 51; 65;
              92; 105; 61; 92; 117; 45; 92; 40; 48; 49; 65; 66; 70; 70; 92; 92].
Proof. vm_compute. split; reflexivity. Qed.
