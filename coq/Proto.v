(* Proto.v — the input protocol: what "well-formed input items" are, how each is
   spelled on the wire (enc) and which token it must be reported as (tok).
   SPECIFICATION (trusted base), not a model of /repo.  Definitions only. *)
From TP Require Export Parser.
Local Open Scope N_scope.

Inductive intro := I7 (meta : bool) | I8.         (* ESC-introduced (optionally meta-prefixed) or 8-bit *)
Inductive enter_form := CrLf | CrNul | LfCr | BareCr | BareLf.

Inductive item :=
| IChar (b : byte)
| IEnter (f : enter_form)
| ICsiKey (i : intro) (final : byte) (rep : option N) (modc : option N)
| IKeypad (i : intro) (num : N) (modc : option N)
| ISs3 (i : intro) (final : byte)
| ICsiOther (i : intro) (marker : option byte) (params : list N) (final : byte)
| IMouse (i : intro) (button : N) (x y : N).

(* ---- spelling ----------------------------------------------------------------- *)
Definition csi_intro (i : intro) : list byte :=
  match i with
  | I7 false => [27; 91]
  | I7 true => [27; 27; 91]
  | I8 => [155]
  end.
Definition ss3_intro (i : intro) : list byte :=
  match i with
  | I7 false => [27; 79]
  | I7 true => [27; 27; 79]
  | I8 => [143]
  end.
Definition intro_meta (i : intro) : bool :=
  match i with I7 m => m | I8 => false end.

Definition key_params (rep modc : option N) : list N :=
  match rep, modc with
  | None, None => []
  | Some r, None => [r]
  | None, Some m => [1; m]
  | Some r, Some m => [r; m]
  end.

Definition params_bytes (ps : list N) : list byte := intercalate [59] (map show_N ps).

Definition enc (it : item) : list byte :=
  match it with
  | IChar b => [b]
  | IEnter CrLf => [13; 10]
  | IEnter CrNul => [13; 0]
  | IEnter LfCr => [10; 13]
  | IEnter BareCr => [13]
  | IEnter BareLf => [10]
  | ICsiKey i f rep modc => csi_intro i ++ params_bytes (key_params rep modc) ++ [f]
  | IKeypad i n modc =>
      csi_intro i ++ params_bytes (n :: match modc with Some m => [m] | None => [] end) ++ [126]
  | ISs3 i f => ss3_intro i ++ [f]
  | ICsiOther i mk ps f =>
      csi_intro i ++ (match mk with Some m => [m] | None => [] end) ++ params_bytes ps ++ [f]
  | IMouse i b x y => csi_intro i ++ [77; 32 + b; 32 + x; 32 + y]
  end.

(* ---- meaning -------------------------------------------------------------------- *)
(* xterm: modifier code - 1 is the bit mask shift=1, alt=2, ctrl=4, meta=8;
   the library's vk_modifier bits are shift=1, ctrl=2, alt=4, meta=8 *)
Definition xterm_mods (code : N) : N :=
  let m := code - 1 in
  (if N.testbit m 0 then 1 else 0) + (if N.testbit m 2 then 2 else 0) +
  (if N.testbit m 1 then 4 else 0) + (if N.testbit m 3 then 8 else 0).

Definition mods_of (modc : option N) (meta : bool) : N :=
  N.lor (match modc with Some c => xterm_mods c | None => 0 end) (if meta then 8 else 0).

Definition lookup_tbl (t : list (N * N)) (k : N) : option N :=
  option_map snd (find (fun p => fst p =? k) t).

(* final byte of CSI cursor-key sequences: A B C D H F I Z *)
Definition csi_key_table : list (N * N) :=
  [(65, vk_cursor_up); (66, vk_cursor_down); (67, vk_cursor_right); (68, vk_cursor_left);
   (72, vk_home); (70, vk_end); (73, vk_ht); (90, vk_bt)].
(* final byte of SS3 sequences: A B C D H F I M P Q R S *)
Definition ss3_key_table : list (N * N) :=
  [(65, vk_cursor_up); (66, vk_cursor_down); (67, vk_cursor_right); (68, vk_cursor_left);
   (72, vk_home); (70, vk_end); (73, vk_ht); (77, vk_enter);
   (80, vk_f1); (81, vk_f2); (82, vk_f3); (83, vk_f4)].
(* parameter of CSI n ~ *)
Definition keypad_key_table : list (N * N) :=
  [(1, vk_home); (2, vk_ins); (3, vk_del); (4, vk_end); (5, vk_pgup); (6, vk_pgdn);
   (11, vk_f1); (12, vk_f2); (13, vk_f3); (14, vk_f4); (15, vk_f5); (17, vk_f6);
   (18, vk_f7); (19, vk_f8); (20, vk_f9); (21, vk_f10); (23, vk_f11); (24, vk_f12)].
(* X10 button code -> mouse::event_type *)
Definition mouse_table : list (N * N) :=
  [(0, 0); (1, 1); (2, 2); (3, 3); (32, 4); (64, 5); (65, 6)].

Definition csi_key_of (f : byte) : option N := lookup_tbl csi_key_table f.
Definition ss3_key_of (f : byte) : option N := lookup_tbl ss3_key_table f.
Definition keypad_key_of (n : N) : option N := lookup_tbl keypad_key_table n.
Definition mouse_event_code (button : N) : option N := lookup_tbl mouse_table button.

Definition args_of (ps : list N) : list (list byte) :=
  match ps with [] => [[]] | _ => map show_N ps end.

Definition seq_of (i : intro) (cmd : byte) (ps : list N) (ext : byte) : cseq :=
  mkCseq 91 cmd (intro_meta i) (args_of ps) ext.

Definition key_or_nul (o : option N) : N := match o with Some k => k | None => 0 end.

Definition tok (it : item) : token :=
  match it with
  | IChar b => TKey b 0 1%Z (KByte b)
  | IEnter _ => TKey vk_enter 0 1%Z (KByte 10)
  | ICsiKey i f rep modc =>
      TKey (key_or_nul (csi_key_of f)) (mods_of modc (intro_meta i))
           (match rep with Some r => Z.max (Z.of_N r) 1 | None => 1%Z end)
           (KSeq (seq_of i f (key_params rep modc) 0))
  | IKeypad i n modc =>
      TKey (key_or_nul (keypad_key_of n)) (mods_of modc (intro_meta i)) 1%Z
           (KSeq (seq_of i 126 (n :: match modc with Some m => [m] | None => [] end) 0))
  | ISs3 i f =>
      TKey (key_or_nul (ss3_key_of f)) (if intro_meta i then 8 else 0) 1%Z
           (KSeq (mkCseq 79 f (intro_meta i) [[]] 0))
  | ICsiOther i mk ps f =>
      TCtl (seq_of i f ps (match mk with Some m => m | None => 0 end))
  | IMouse i b x y =>
      TMouse (key_or_nul (mouse_event_code b)) (Z.of_N x - 1) (Z.of_N y - 1)
  end.

(* ---- well-formedness of an item ---------------------------------------------------- *)
Definition is_some {A} (o : option A) : bool := match o with Some _ => true | None => false end.
Definition modc_ok (m : option N) : bool :=
  match m with Some c => (1 <=? c) && (c <=? 16) | None => true end.
Definition int_ok (n : N) : bool := n <? 2147483648.

Definition wf_item (it : item) : bool :=
  match it with
  | IChar b => (b <? 256) && negb ((b =? 27) || (b =? 13) || (b =? 10) || (b =? 155) || (b =? 143))
  | IEnter _ => true
  | ICsiKey _ f rep modc =>
      is_some (csi_key_of f) && modc_ok modc &&
      match rep with Some r => int_ok r | None => true end
  | IKeypad _ n modc => is_some (keypad_key_of n) && modc_ok modc
  | ISs3 _ f => is_some (ss3_key_of f)
  | ICsiOther _ mk ps f =>
      (64 <=? f) && (f <=? 126) && negb (f =? 77) && negb (f =? 126) &&
      negb (is_some (csi_key_of f)) &&
      match mk with Some m => (m =? 63) || (m =? 62) || (m =? 33) | None => true end &&
      forallb int_ok ps
  | IMouse _ b x y =>
      is_some (mouse_event_code b) && (1 <=? x) && (x <=? 223) && (1 <=? y) && (y <=? 223)
  end.

(* the protocol's own ambiguity (Telnet NVT line endings): a bare CR followed by
   LF or NUL, and a bare LF followed by CR, ARE the two-byte forms of Enter *)
Definition first_byte (it : item) : byte := hd 0 (enc it).
Fixpoint adjacency_ok (its : list item) : bool :=
  match its with
  | [] => true
  | it :: rest =>
      match it, rest with
      | IEnter BareCr, nxt :: _ => negb ((first_byte nxt =? 10) || (first_byte nxt =? 0))
      | IEnter BareLf, nxt :: _ => negb (first_byte nxt =? 13)
      | _, _ => true
      end && adjacency_ok rest
  end.

Definition enc_all (its : list item) : list byte := flat_map enc its.
