(* P_Step.v — every operation of the library preserves the invariant Sync, and
   what each operation does to the reference terminal (trace, cells, modes). *)
From TP Require Import Base Elem Term VT Oracle P_Dec P_VT P_Diff P_Sync.
From Coq Require Import ZArith Lia ZifyBool ZifyN.
Local Open Scope N_scope.

Arguments N.add : simpl never.
Arguments N.sub : simpl never.
Arguments N.mul : simpl never.
Arguments N.ltb : simpl never.
Arguments N.leb : simpl never.
Arguments N.eqb : simpl never.
Arguments N.min : simpl never.

(* ---- small arithmetic facts, proved in a clean context ---------------------- *)
Lemma param_succ y : (if y + 1 =? 0 then 1 else y + 1) - 1 = y.
Proof. destruct (y + 1 =? 0) eqn:E; lia. Qed.
Lemma param_pos d : d <> 0 -> (if d =? 0 then 1 else d) = d.
Proof. intros H. destruct (d =? 0) eqn:E; lia. Qed.
Lemma clamp_inside p sz : inside p sz = true -> clamp_pt p sz = p.
Proof.
  destruct p as [x y], sz as [w h]. unfold inside, clamp_pt, clampN. cbn [fst snd]. intros H.
  assert ((w =? 0) = false) as -> by lia. assert ((h =? 0) = false) as -> by lia.
  f_equal; lia.
Qed.
Lemma sub_sub a b : b < a -> a - (a - b) = b.
Proof. lia. Qed.
Lemma add_sub' a b : a <= b -> a + (b - a) = b.
Proof. lia. Qed.
Lemma ltb_cases a b : (a <? b) = false -> (a =? b) = false -> b < a.
Proof. lia. Qed.
Lemma sub_ne0 a b : b < a -> a - b <> 0.
Proof. lia. Qed.
Lemma pt_eqb_eq a b : pt_eqb a b = true -> a = b.
Proof. destruct a, b. unfold pt_eqb. cbn [fst snd]. intros H. f_equal; lia. Qed.
Lemma eqb_to_eq a b : (a =? b) = true -> a = b.
Proof. lia. Qed.
Lemma ltb_to_lt a b : (a <? b) = true -> a < b.
Proof. lia. Qed.
Lemma ltb_false_le a b : (a <? b) = false -> b <= a.
Proof. lia. Qed.

Section Step.
Variable cfg : vtcfg.
Variable beh : behaviour.
Hypothesis Huni : b_unicode_all beh = true -> unicode_all cfg = true.

Notation Sync := (Sync beh).
Notation cs_ok := (cs_ok beh).

(* ---- cursor commands ------------------------------------------------------------- *)
Lemma exec_cup v p : vt_exec cfg v (cup p) = move_to v p.
Proof.
  destruct p as [x y]. unfold cup.
  destruct (x =? 0) eqn:Ex; destruct (y =? 0) eqn:Ey; cbn [andb].
  - apply eqb_to_eq in Ex, Ey. subst. reflexivity.
  - apply eqb_to_eq in Ex. subst. cbn [vt_exec]. unfold vt_csi. cbn [length Nat.leb].
    unfold param1. cbn [nth]. rewrite param_succ. reflexivity.
  - cbn [vt_exec]. unfold vt_csi. cbn [length Nat.leb].
    unfold param1. cbn [nth]. rewrite !param_succ. reflexivity.
  - cbn [vt_exec]. unfold vt_csi. cbn [length Nat.leb].
    unfold param1. cbn [nth]. rewrite !param_succ. reflexivity.
Qed.

Lemma exec_cha v x : vt_exec cfg v (cha x) = move_to v (x, snd (vcur v)).
Proof.
  unfold cha. destruct (x =? 0) eqn:Ex.
  - apply eqb_to_eq in Ex. subst. reflexivity.
  - cbn [vt_exec]. unfold vt_csi. cbn [length Nat.leb]. unfold param1. cbn [nth].
    rewrite param_succ. reflexivity.
Qed.

Lemma exec_cuu v d : d <> 0 ->
  vt_exec cfg v (cuu d) = move_to v (fst (vcur v), snd (vcur v) - d).
Proof.
  intros Hd. unfold cuu. destruct (d =? 1) eqn:E.
  - apply eqb_to_eq in E. subst. reflexivity.
  - cbn [vt_exec]. unfold vt_csi. cbn [length Nat.leb]. unfold param1. cbn [nth].
    rewrite param_pos by exact Hd. reflexivity.
Qed.

Lemma exec_cud v d : d <> 0 ->
  vt_exec cfg v (cud d) = move_to v (fst (vcur v), snd (vcur v) + d).
Proof.
  intros Hd. unfold cud. destruct (d =? 1) eqn:E.
  - apply eqb_to_eq in E. subst. reflexivity.
  - cbn [vt_exec]. unfold vt_csi. cbn [length Nat.leb]. unfold param1. cbn [nth].
    rewrite param_pos by exact Hd. reflexivity.
Qed.

(* move_cursor puts the terminal's cursor on p and leaves everything else *)
Lemma exec_move_cursor st v p :
  Sync st v -> inside p (ts_size st) = true ->
  vt_execs cfg v (snd (move_cursor st p)) = move_to v p \/
  (vt_execs cfg v (snd (move_cursor st p)) = v /\ vcur v = p /\ pending v = false).
Proof.
  intros S Hin. destruct S as [Slex Smal Sunk Ssize Scs Srend Scur Ssaved Svis].
  unfold move_cursor. cbn [snd].
  destruct (ts_cur st) as [c|] eqn:Ec.
  - destruct (Scur c eq_refl) as (Hc & Hpend & Hcin).
    destruct (pt_eqb c p) eqn:Epp.
    + right. apply pt_eqb_eq in Epp. subst c. repeat split; assumption.
    + left. destruct c as [cx cy], p as [px py]. cbn [fst snd].
      destruct (cy =? py) eqn:Ey.
      * apply eqb_to_eq in Ey. subst py. cbn [vt_execs fold_left]. rewrite exec_cha, Hc. reflexivity.
      * destruct (cx =? px) eqn:Ex.
        -- apply eqb_to_eq in Ex. subst px.
           destruct (py <? cy) eqn:El.
           ++ apply ltb_to_lt in El. cbn [vt_execs fold_left].
              rewrite exec_cuu by (apply sub_ne0; exact El).
              rewrite Hc. cbn [fst snd]. rewrite sub_sub by exact El. reflexivity.
           ++ assert (Hlt : cy < py).
              { apply ltb_cases; [exact El|]. rewrite N.eqb_sym. exact Ey. }
              cbn [vt_execs fold_left].
              rewrite exec_cud by (apply sub_ne0; exact Hlt).
              rewrite Hc. cbn [fst snd]. rewrite add_sub' by (apply N.lt_le_incl; exact Hlt).
              reflexivity.
        -- cbn [vt_execs fold_left]. rewrite exec_cup. reflexivity.
  - left. cbn [vt_execs fold_left]. rewrite exec_cup. reflexivity.
Qed.

(* ---- facts about each operation ---------------------------------------------------- *)
Definition wf_op (st : tstate) (o : op) : Prop :=
  match o with
  | WElem e => wf_elem_c e = true
  | WRaw e => wf_elem_c e = true /\ ts_last st <> None
  | WStr s => forallb wf_elem_c s = true
  | Move p => inside p (ts_size st) = true
  | Title t => wf_title t = true
  | SetSize _ => False
  | _ => True
  end.

Definition adv (w : N) (c : option pt) : option pt :=
  match c with
  | Some (x, y) => if x + 1 =? w then None else Some (x + 1, y)
  | None => None
  end.

(* the glyphs a sequence of element writes places: one trace entry per
   element that is not a control character, in order, each showing exactly the
   requested element; when the cursor position is known the entry is at that
   position.  A control character (newline, tab, ...) places nothing and
   leaves the position unknown to the library. *)
Inductive placed (w : N) : option pt -> list element -> list (pt * cell) -> Prop :=
| placed_nil c : placed w c [] []
| placed_cons c e es q tr :
    is_control_glyph (eg e) = false ->
    (forall p, c = Some p -> q = p) ->
    placed w (adv w c) es tr ->
    placed w c (e :: es) ((q, display_of e) :: tr)
| placed_ctl c e es tr :
    is_control_glyph (eg e) = true ->
    placed w None es tr ->
    placed w c (e :: es) tr.

Lemma wf_elem_c_cases e : wf_elem_c e = true ->
  wf_elem e = true \/
  (format_effector (eg e) = true /\ wf_colour (fg (ea e)) = true /\ wf_colour (bg (ea e)) = true).
Proof.
  unfold wf_elem_c, wf_elem. intros H. apply andb_prop in H as [H Hb]. apply andb_prop in H as [H Hf].
  apply orb_prop in H as [H|H]; [left; rewrite H, Hf, Hb; reflexivity|right; repeat split; assumption].
Qed.

Lemma wf_elem_wf_elem_c e : wf_elem e = true -> wf_elem_c e = true.
Proof.
  unfold wf_elem_c, wf_elem. intros H. apply andb_prop in H as [H Hb]. apply andb_prop in H as [H Hf].
  rewrite H, Hf, Hb. reflexivity.
Qed.

Lemma wf_elem_not_control e : wf_elem e = true -> is_control_glyph (eg e) = false.
Proof.
  unfold wf_elem. intros H. apply andb_prop in H as [H _]. apply andb_prop in H as [H _].
  exact (displayable_not_control _ H).
Qed.

Lemma sync_write_element_c st v e l :
  Sync st v -> ts_last st = Some l -> wf_elem_c e = true ->
  let st' := fst (write_element beh st e) in
  let v' := vt_execs cfg v (snd (write_element beh st e)) in
  Sync st' v' /\ modes_of v' = modes_of v /\
  exists tr, placed (fst (ts_size st)) (ts_cur st) [e] tr /\ trace v' = rev tr ++ trace v.
Proof.
  intros S El He. apply wf_elem_c_cases in He. destruct He as [He|(Hfe & Hfg & Hbg)].
  - pose proof (sync_write_element cfg beh Huni st v e l S El He) as H. cbv zeta in H.
    destruct H as [S1 [[q [Htr Hq]] [Hm _]]].
    split; [exact S1|]. split; [exact Hm|].
    exists [(q, display_of e)]. split; [|exact Htr].
    constructor; [exact (wf_elem_not_control _ He)|exact Hq|constructor].
  - pose proof (sync_write_control cfg beh Huni st v e l S El Hfe Hfg Hbg) as H. cbv zeta in H.
    destruct H as (S1 & Htr & Hm & _).
    split; [exact S1|]. split; [exact Hm|].
    exists []. split; [|exact Htr].
    apply placed_ctl; [eapply format_effector_control; eassumption|constructor].
Qed.

Lemma sync_write_elements : forall es st v,
  Sync st v -> ts_last st <> None -> forallb wf_elem_c es = true ->
  let st' := fst (write_elements beh st es) in
  let v' := vt_execs cfg v (snd (write_elements beh st es)) in
  Sync st' v' /\ modes_of v' = modes_of v /\
  (es <> [] -> ts_last st' <> None) /\ ts_last st' <> None /\
  exists tr, placed (fst (ts_size st)) (ts_cur st) es tr /\ trace v' = rev tr ++ trace v.
Proof.
  induction es as [|e es IH]; intros st v S Hl Hwf.
  - cbn [write_elements fst snd vt_execs fold_left].
    split; [exact S|]. split; [reflexivity|]. split; [intros H; congruence|].
    split; [exact Hl|]. exists []. split; [constructor|reflexivity].
  - cbn [forallb] in Hwf. apply andb_prop in Hwf as [He Hes].
    destruct (ts_last st) as [l|] eqn:El; [|congruence].
    apply wf_elem_c_cases in He. destruct He as [He|(Hfe & Hfg & Hbg)].
    2:{ (* a format effector: nothing placed, position forgotten *)
      pose proof (sync_write_control cfg beh Huni st v e l S El Hfe Hfg Hbg) as H. cbv zeta in H.
      destruct H as (S1 & Htr & Hm & Hcur1).
      cbn [write_elements].
      destruct (write_element beh st e) as [st1 c1] eqn:E1. cbn [fst snd] in S1, Htr, Hm, Hcur1.
      assert (Hl1 : ts_last st1 <> None /\ ts_size st1 = ts_size st).
      { assert (st1 = fst (write_element beh st e)) by (rewrite E1; reflexivity).
        subst st1. unfold write_element. cbn [fst].
        destruct (advance_other (set_last st (Some e)) (eg e)) as (Asz & Ala & _). rewrite Ala, Asz. cbn.
        split; [discriminate|reflexivity]. }
      destruct Hl1 as [Hl1 Hsz1].
      specialize (IH st1 (vt_execs cfg v c1) S1 Hl1 Hes). cbv zeta in IH.
      destruct (write_elements beh st1 es) as [st2 c2] eqn:E2. cbn [fst snd] in IH |- *.
      destruct IH as (S2 & Hm2 & _ & Hl2 & tr & Hpl & Htr2).
      rewrite vt_execs_app.
      split; [exact S2|]. split; [rewrite Hm2; exact Hm|]. split; [intros _; exact Hl2|].
      split; [exact Hl2|].
      exists tr. split.
      + apply placed_ctl; [eapply format_effector_control; eassumption|]. rewrite <- Hcur1, <- Hsz1. exact Hpl.
      + rewrite Htr2, Htr. reflexivity. }
    pose proof (sync_write_element cfg beh Huni st v e l S El He) as H. cbv zeta in H.
    destruct H as [S1 [[q [Htr Hq]] [Hm Hcells]]].
    cbn [write_elements].
    destruct (write_element beh st e) as [st1 c1] eqn:E1. cbn [fst snd] in S1, Htr, Hm.
    assert (Hl1 : ts_last st1 <> None).
    { assert (st1 = fst (write_element beh st e)) by (rewrite E1; reflexivity).
      subst st1. unfold write_element. cbn [fst].
      destruct (advance_other (set_last st (Some e)) (eg e)) as (_ & Ala & _). rewrite Ala. cbn. discriminate. }
    assert (Hsz1 : ts_size st1 = ts_size st /\ ts_cur st1 = adv (fst (ts_size st)) (ts_cur st)).
    { assert (st1 = fst (write_element beh st e)) by (rewrite E1; reflexivity).
      subst st1. unfold write_element. cbn [fst].
      destruct (advance_other (set_last st (Some e)) (eg e)) as (Asz & _). split; [exact Asz|].
      rewrite advance_cur by (apply displayable_not_control; unfold wf_elem in He; apply andb_prop in He as [He _]; apply andb_prop in He as [He _]; exact He). reflexivity. }
    destruct Hsz1 as [Hsz1 Hcur1].
    specialize (IH st1 (vt_execs cfg v c1) S1 Hl1 Hes). cbv zeta in IH.
    destruct (write_elements beh st1 es) as [st2 c2] eqn:E2. cbn [fst snd] in IH |- *.
    destruct IH as (S2 & Hm2 & _ & Hl2 & tr & Hpl & Htr2).
    rewrite vt_execs_app.
    split; [exact S2|]. split; [rewrite Hm2; exact Hm|]. split; [intros _; exact Hl2|].
    split; [exact Hl2|].
    exists ((q, display_of e) :: tr). split.
    + constructor; [exact (wf_elem_not_control _ He)|exact Hq|]. rewrite <- Hcur1, <- Hsz1. exact Hpl.
    + rewrite Htr2, Htr. cbn [rev]. rewrite <- app_assoc. reflexivity.
Qed.

(* ODA establishes a known rendition without touching anything else *)
Lemma sync_oda st v :
  Sync st v ->
  let st' := fst (optional_default_attribute st) in
  let v' := vt_execs cfg v (snd (optional_default_attribute st)) in
  Sync st' v' /\ ts_last st' <> None /\ trace v' = trace v /\ modes_of v' = modes_of v /\
  cells v' = cells v /\ vcur v' = vcur v /\ pending v' = pending v /\
  ts_cur st' = ts_cur st /\ ts_size st' = ts_size st.
Proof.
  intros S. unfold optional_default_attribute.
  destruct (ts_last st) as [l|] eqn:El; cbn [fst snd vt_execs fold_left].
  - split; [exact S|]. split; [rewrite El; discriminate|]. repeat split; reflexivity.
  - destruct S as [Slex Smal Sunk Ssize Scs Srend Scur Ssaved Svis].
    unfold last_cs in Scs. rewrite El in Scs.
    split.
    { constructor; try assumption.
      intros l Hl. cbn in Hl. inversion Hl. reflexivity. }
    split; [cbn; discriminate|]. repeat split; reflexivity.
Qed.

(* ---- erase ------------------------------------------------------------------------------ *)
Definition region_blank (reg : pt -> bool) (old : pt -> cell) : pt -> cell :=
  fun p => if reg p then blank_cell default_rend else old p.

Lemma exec_erase v k : rend v = default_rend ->
  vt_exec cfg v (erase_cmd k) =
  set_cells v (region_blank (erase_region_of k (fst (vcur v), snd (vcur v))) (cells v)).
Proof.
  intros Hr.
  assert (He : erase_rend cfg v = default_rend).
  { unfold erase_rend. rewrite Hr. destruct (bce cfg); reflexivity. }
  destruct k; cbn [erase_cmd vt_exec]; unfold vt_csi, erase_region;
    cbn [N.leb]; rewrite ?He; reflexivity.
Qed.

Lemma to_default_exec st v :
  Sync st v ->
  vt_execs cfg v (snd (to_default_attribute st)) = set_rend v default_rend.
Proof.
  intros S. destruct S as [Slex Smal Sunk Ssize Scs Srend Scur Ssaved Svis].
  unfold to_default_attribute. destruct (ts_last st) as [l|] eqn:El; cbn [snd].
  - rewrite (exec_change_attribute' cfg v (ea l) default_attr (Srend l eq_refl)) by reflexivity.
    reflexivity.
  - reflexivity.
Qed.

Lemma sync_erase st v k :
  Sync st v ->
  let st' := fst (step beh st (Erase k)) in
  let v' := vt_execs cfg v (snd (step beh st (Erase k))) in
  Sync st' v' /\ trace v' = trace v /\ modes_of v' = modes_of v /\
  cells v' = region_blank (erase_region_of k (vcur v)) (cells v) /\
  vcur v' = vcur v /\ pending v' = pending v /\ rend v' = default_rend /\
  ts_last st' <> None.
Proof.
  intros S. cbn [step].
  pose proof (to_default_exec st v S) as Hx.
  destruct S as [Slex Smal Sunk Ssize Scs Srend Scur Ssaved Svis].
  destruct (to_default_attribute st) as [st1 c1] eqn:E1. cbn [fst snd] in Hx |- *.
  rewrite vt_execs_app, Hx. cbn [vt_execs fold_left].
  rewrite exec_erase by reflexivity.
  assert (Hst1 : ts_size st1 = ts_size st /\ ts_cur st1 = ts_cur st /\ ts_saved st1 = ts_saved st /\
                 ts_vis st1 = ts_vis st /\
                 (exists l1, ts_last st1 = Some l1 /\ ea l1 = default_attr /\ gcs (eg l1) = last_cs st)).
  { unfold to_default_attribute in E1. unfold last_cs.
    destruct (ts_last st) as [l|]; inversion E1; subst; cbn; repeat split; eexists; repeat split. }
  destruct Hst1 as (Hsz & Hcu & Hsa & Hvi & l1 & Hl1 & Hea & Hcs).
  split.
  { constructor; cbn; try assumption.
    - rewrite Hsz. exact Ssize.
    - unfold last_cs. rewrite Hl1, Hcs. exact Scs.
    - intros l Hl. rewrite Hl1 in Hl. inversion Hl; subst l. rewrite Hea. reflexivity.
    - intros p Hp. rewrite Hcu in Hp. exact (Scur p Hp).
    - intros p Hp. rewrite Hsa in Hp. exact (Ssaved p Hp).
    - intros b Hb. rewrite Hvi in Hb. exact (Svis b Hb). }
  cbn. rewrite <- surjective_pairing. repeat split. rewrite Hl1. discriminate.
Qed.

(* ---- cursor movement, save, restore -------------------------------------------------------- *)
Lemma sync_move st v p :
  Sync st v -> inside p (ts_size st) = true ->
  let st' := fst (step beh st (Move p)) in
  let v' := vt_execs cfg v (snd (step beh st (Move p))) in
  Sync st' v' /\ trace v' = trace v /\ modes_of v' = modes_of v /\
  cells v' = cells v /\ vcur v' = p /\ pending v' = false /\
  ts_cur st' = Some p /\ ts_last st' = ts_last st /\ ts_size st' = ts_size st /\
  rend v' = rend v.
Proof.
  intros S Hin. cbn [step].
  pose proof (exec_move_cursor st v p S Hin) as Hx.
  destruct S as [Slex Smal Sunk Ssize Scs Srend Scur Ssaved Svis].
  assert (Hc : clamp_pt p (vsize v) = p) by (apply clamp_inside; rewrite <- Ssize; exact Hin).
  unfold move_cursor in *. cbn [fst snd] in *.
  destruct Hx as [Hx|(Hx & Hvc & Hpe)]; rewrite Hx.
  - split.
    { constructor; cbn; try assumption.
      intros q Hq. inversion Hq; subst q. rewrite Hc. repeat split. rewrite <- Ssize. exact Hin. }
    cbn. rewrite Hc. repeat split.
  - split.
    { constructor; cbn; try assumption.
      intros q Hq. inversion Hq; subst q. repeat split; try assumption. rewrite <- Ssize. exact Hin. }
    cbn. repeat split; assumption.
Qed.

Lemma sync_save st v :
  Sync st v ->
  let st' := fst (step beh st Save) in
  let v' := vt_execs cfg v (snd (step beh st Save)) in
  Sync st' v' /\ trace v' = trace v /\ modes_of v' = modes_of v.
Proof.
  intros S. destruct S as [Slex Smal Sunk Ssize Scs Srend Scur Ssaved Svis].
  cbn [step fst snd vt_execs fold_left vt_exec]. unfold vt_csi. cbn.
  split; [|split; reflexivity].
  constructor; cbn; try assumption.
  intros p Hp. destruct (Scur p Hp) as (H1 & H2 & H3). rewrite <- surjective_pairing, H1.
  split; [reflexivity|exact H3].
Qed.

Lemma sync_restore st v :
  Sync st v ->
  let st' := fst (step beh st Restore) in
  let v' := vt_execs cfg v (snd (step beh st Restore)) in
  Sync st' v' /\ trace v' = trace v /\ modes_of v' = modes_of v.
Proof.
  intros S. destruct S as [Slex Smal Sunk Ssize Scs Srend Scur Ssaved Svis].
  cbn [step fst snd vt_execs fold_left vt_exec]. unfold vt_csi. cbn.
  split; [|split; reflexivity].
  constructor; cbn; try assumption.
  intros p Hp. destruct (Ssaved p Hp) as (H1 & H2). rewrite H1.
  rewrite clamp_inside by exact H2. repeat split. exact H2.
Qed.

(* ---- modes ----------------------------------------------------------------------------------- *)
Definition set_vis_modes (v : vt) (b : bool) := (b, m1000 v, m1003 v, altbuf v, title v).

Lemma sync_show_hide st v want :
  Sync st v ->
  let st' := fst (show_hide st want) in
  let v' := vt_execs cfg v (snd (show_hide st want)) in
  Sync st' v' /\ trace v' = trace v /\ modes_of v' = set_vis_modes v want /\
  cells v' = cells v /\ vcur v' = vcur v /\ pending v' = pending v.
Proof.
  intros S. destruct S as [Slex Smal Sunk Ssize Scs Srend Scur Ssaved Svis].
  unfold show_hide, set_vis_modes, modes_of. cbn [fst snd].
  destruct (ts_vis st) as [b|] eqn:Ev.
  - specialize (Svis b eq_refl).
    destruct (Bool.eqb b want) eqn:Eb; cbn [negb].
    + apply Bool.eqb_prop in Eb. subst want. cbn [vt_execs fold_left].
      split; [constructor; cbn; try assumption; intros b' Hb'; inversion Hb'; subst; reflexivity|].
      rewrite Svis. repeat split.
    + destruct want; cbn [vt_execs fold_left vt_exec dectcem]; unfold vt_csi; cbn;
        (split; [constructor; cbn; try assumption; intros b' Hb'; inversion Hb'; reflexivity|repeat split]).
  - destruct want; cbn [vt_execs fold_left vt_exec dectcem]; unfold vt_csi; cbn;
      (split; [constructor; cbn; try assumption; intros b' Hb'; inversion Hb'; reflexivity|repeat split]).
Qed.

Definition mouse_modes (v : vt) (on : bool) :=
  match mouse_mode beh with
  | Some 1000 => (vis v, on, m1003 v, altbuf v, title v)
  | Some _ => (vis v, m1000 v, on, altbuf v, title v)
  | None => modes_of v
  end.

Lemma sync_mouse st v on :
  Sync st v ->
  let v' := vt_execs cfg v (mouse_cmd beh on) in
  Sync st v' /\ trace v' = trace v /\ modes_of v' = mouse_modes v on /\
  (mouse_mode beh = None -> mouse_cmd beh on = []).
Proof.
  intros S. destruct S as [Slex Smal Sunk Ssize Scs Srend Scur Ssaved Svis].
  unfold mouse_cmd, mouse_modes, mouse_mode, modes_of.
  destruct (b_basic_mouse beh); [|destruct (b_all_mouse beh)];
    destruct on; cbn [vt_execs fold_left vt_exec]; unfold vt_csi; cbn;
    (split; [constructor; cbn; assumption|repeat split; congruence]).
Qed.

Lemma sync_buf st v (on : bool) :
  Sync st v ->
  let v' := vt_execs cfg v [Csi true [47] (if on then 104 else 108)] in
  Sync st v' /\ trace v' = trace v /\
  modes_of v' = (vis v, m1000 v, m1003 v, on, title v).
Proof.
  intros S. destruct S as [Slex Smal Sunk Ssize Scs Srend Scur Ssaved Svis].
  destruct on; cbn [vt_execs fold_left vt_exec]; unfold vt_csi; cbn;
    (split; [constructor; cbn; assumption|repeat split]).
Qed.

Definition title_modes (v : vt) (t : list byte) :=
  if b_title_bel beh || b_title_st beh then (vis v, m1000 v, m1003 v, altbuf v, t)
  else modes_of v.

Lemma sync_title st v t :
  Sync st v ->
  let v' := vt_execs cfg v (title_cmd beh t) in
  Sync st v' /\ trace v' = trace v /\ modes_of v' = title_modes v t /\
  (b_title_bel beh || b_title_st beh = false -> title_cmd beh t = []).
Proof.
  intros S. destruct S as [Slex Smal Sunk Ssize Scs Srend Scur Ssaved Svis].
  unfold title_cmd, title_modes, modes_of.
  destruct (b_title_bel beh); [|destruct (b_title_st beh)];
    cbn [orb vt_execs fold_left vt_exec vt_osc];
    (split; [constructor; cbn; assumption|repeat split; congruence]).
Qed.

End Step.
