(* Properties_C01.v — C01: attributed text is rendered with exactly the
   requested attributes and character set.  Statements only; proofs are in
   P_*.v.  Tie lemmas (Tie_Output, Tie_Charset) are required so that the model's
   constants are re-checked against the headers whenever this file is built. *)
From TP Require Import Base Elem Term VT Oracle P_Sync P_Step P_Bytes P_Run P_Link P_OracleSound Tie_Output Tie_Charset.
Local Open Scope N_scope.

(* For every behaviour, every reference terminal configuration compatible with
   it (three wrap modes, bce on/off), every initial terminal at rest (any
   rendition, cursor, modes, cell contents) and every well-formed history of
   writes, moves, save/restore, erases, mode switches, titles and size changes:
   the glyphs the terminal has shown are, in order, exactly the elements
   streamed - glyph bytes, character set in effect and full rendition - and
   every byte was glyph payload or part of a complete, known control function.
   Elements may be format effectors (a newline, carriage return, tab or
   backspace inside a string): they show no glyph (`visible` drops them) and
   the glyphs before and after them are still exactly as requested. *)
Theorem C01_rendered :
  forall (cfg : vtcfg) (beh : behaviour),
    (b_unicode_all beh = true -> unicode_all cfg = true) ->
  forall (v0 : vt) (h : list hop),
    vt0_ok v0 -> wf_hist beh init_tstate h ->
    let v := snd (hrun cfg beh init_tstate v0 h) in
    map snd (trace v) = rev (map display_of (visible (hist_elems h))) ++ map snd (trace v0) /\
    malformed v = false /\ unknown v = false /\ lex v = Ground.
Proof.
  intros cfg beh Huni v0 h H0 Hwf v.
  destruct (sync_hrun cfg beh Huni h init_tstate v0 (sync_init beh v0 H0) Hwf) as [S T].
  split; [exact T|]. split; [exact (sy_mal _ _ _ S)|]. split; [exact (sy_unk _ _ _ S)|exact (sy_lex _ _ _ S)].
Qed.
Print Assumptions C01_rendered.

(* one operation from any state in which belief and terminal agree *)
Theorem C01_step :
  forall cfg beh, (b_unicode_all beh = true -> unicode_all cfg = true) ->
  forall st v o, Sync beh st v -> wf_op st o ->
    let v' := vt_bytes cfg v (obytes beh st o) in
    Sync beh (fst (step beh st o)) v' /\
    (exists tr, placed (fst (ts_size st)) (ts_cur st) (op_elems o) tr /\
                trace v' = rev tr ++ trace v) /\
    modes_of v' = op_modes beh v o.
Proof. exact sync_step. Qed.
Print Assumptions C01_step.

(* the oracle's clause 101 (a byte outside a complete, known control function, or
   the stream ending inside one) never fires on the model's bytes *)
Theorem C01_oracle_clause_101 :
  forall cfg beh, (b_unicode_all beh = true -> unicode_all cfg = true) ->
  forall v0 h, vt0_ok v0 -> wf_hist beh init_tstate h ->
    let v := snd (hrun cfg beh init_tstate v0 h) in
    (malformed v || unknown v || negb (match lex v with Ground => true | _ => false end)) = false.
Proof.
  intros cfg beh Huni v0 h H0 Hwf v. apply (sync_clause_101 beh (fst (hrun cfg beh init_tstate v0 h))).
  exact (proj1 (sync_hrun cfg beh Huni h init_tstate v0 (sync_init beh v0 H0) Hwf)).
Qed.
Print Assumptions C01_oracle_clause_101.

(* no false alarm from the extracted oracle: on the observations (bytes and
   reported state) the MODEL produces for any well-formed history of operations
   and size changes, from any initial terminal at rest, under any policy by
   which the terminal adopts a cursor position at a size change, the oracle run
   by the checks reports nothing - none of the clauses 101, 102, 103, 201, 801,
   901, 1101, 1301, 1701.  With the byte-exact correspondence between model
   and implementation this is why the oracle is silent on code that behaves
   like the model. *)
Theorem C01_oracle_silent_on_model :
  forall cfg beh adopt, (b_unicode_all beh = true -> unicode_all cfg = true) ->
  forall v0 ops, vt0_ok v0 -> wf_ops beh init_tstate ops ->
    oracle_run cfg beh adopt true v0 (model_hist beh init_tstate ops) = [].
Proof. exact oracle_run_sound. Qed.
Print Assumptions C01_oracle_silent_on_model.

(* non-vacuity: a concrete history that satisfies the hypotheses and exercises
   charset, UTF-8, colours, blink, erase and a size change *)
Definition ex_beh := mkBeh true false true false false.
Definition ex_hist : list hop :=
  [HResize (4, 2) (0, 0);
   HOp (WElem (mkElem (mkGlyph CsDec 113 0 0) (mkAttr (CLow 1) (CHigh 100) IBold true false true)));
   HOp (Move (3, 1));
   HOp (WStr [mkElem (mkGlyph CsUtf8 226 152 186) default_attr;
              mkElem (mkGlyph CsAscii 10 0 0) default_attr;     (* a newline inside the string *)
              mkElem (mkGlyph CsAscii 65 0 0) (mkAttr (CTrue 1 2 3) (CGrey 240) IFaint false true false)]);
   HOp (Erase ELineLeft); HOp Hide; HOp (Title [104; 105]);
   HOp (WRaw (mkElem (mkGlyph CsUk 35 0 0) default_attr))].
Example C01_nonvacuous :
  vt0_ok vt0_junk /\ wf_hist ex_beh init_tstate ex_hist /\
  length (hist_elems ex_hist) = 5%nat /\ length (visible (hist_elems ex_hist)) = 4%nat.
Proof.
  split; [repeat split|]. split; [|split; reflexivity].
  cbn. repeat split; try reflexivity; discriminate.
Qed.
