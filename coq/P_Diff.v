(* P_Diff.v — soundness of the attribute / character-set diffing against the
   reference terminal's SGR and designation semantics. *)
From TP Require Import Base Elem Term VT Oracle P_Dec P_VT.
From Coq Require Import ZArith Lia ZifyBool ZifyN.
Local Open Scope N_scope.

(* ---- boolean equalities are Leibniz equalities --------------------------- *)
Lemma cs_eqb_eq a b : cs_eqb a b = true -> a = b.
Proof. destruct a, b; cbn; intros H; try reflexivity; discriminate. Qed.
Lemma cs_eqb_refl a : cs_eqb a a = true.
Proof. destruct a; reflexivity. Qed.
Lemma cs_eqb_neq a b : cs_eqb a b = false -> a <> b.
Proof. intros H E; subst. rewrite cs_eqb_refl in H. discriminate. Qed.

Lemma colour_eqb_eq a b : colour_eqb a b = true -> a = b.
Proof.
  destruct a, b; cbn; intros H; try discriminate;
    repeat (apply andb_prop in H; destruct H as [H ?]);
    repeat match goal with H : (_ =? _) = true |- _ => apply N.eqb_eq in H; subst end;
    reflexivity.
Qed.
Lemma colour_eqb_refl a : colour_eqb a a = true.
Proof. destruct a; cbn; rewrite ?N.eqb_refl; reflexivity. Qed.

Lemma inten_eqb_eq a b : inten_eqb a b = true -> a = b.
Proof. destruct a, b; cbn; intros H; try reflexivity; discriminate. Qed.
Lemma inten_eqb_refl a : inten_eqb a a = true.
Proof. destruct a; reflexivity. Qed.

Lemma attr_eqb_eq a b : attr_eqb a b = true -> a = b.
Proof.
  destruct a as [af ab ai au an abl], b as [bf bb bi bu bn bbl];
    unfold attr_eqb; cbn [fg bg inten ul neg blink]. intros H.
  repeat (apply andb_prop in H; destruct H as [H ?]).
  apply colour_eqb_eq in H.
  repeat match goal with
         | H : colour_eqb _ _ = true |- _ => apply colour_eqb_eq in H
         | H : inten_eqb _ _ = true |- _ => apply inten_eqb_eq in H
         | H : Bool.eqb _ _ = true |- _ => apply Bool.eqb_prop in H
         end.
  subst. reflexivity.
Qed.
Lemma attr_eqb_refl a : attr_eqb a a = true.
Proof.
  destruct a as [af ab ai au an abl]; unfold attr_eqb; cbn [fg bg inten ul neg blink].
  rewrite !colour_eqb_refl, inten_eqb_refl, !Bool.eqb_reflx. reflexivity.
Qed.

(* ---- SGR -------------------------------------------------------------------- *)
Lemma sgr_int r s d t :
  apply_sgr r (change_intensity s d ++ t) =
  apply_sgr (if inten_eqb s d then r else set_r_int r d) t.
Proof. destruct s, d; reflexivity. Qed.

Lemma sgr_neg r s d t :
  apply_sgr r (change_flag neg_code s d ++ t) =
  apply_sgr (if Bool.eqb s d then r else set_r_neg r d) t.
Proof. destruct s, d; reflexivity. Qed.
Lemma sgr_ul r s d t :
  apply_sgr r (change_flag ul_code s d ++ t) =
  apply_sgr (if Bool.eqb s d then r else set_r_ul r d) t.
Proof. destruct s, d; reflexivity. Qed.
Lemma sgr_blink r s d t :
  apply_sgr r (change_flag blink_code s d ++ t) =
  apply_sgr (if Bool.eqb s d then r else set_r_blink r d) t.
Proof. destruct s, d; reflexivity. Qed.

Lemma low_cases v : (v <=? 7) || (v =? 9) = true ->
  v = 0 \/ v = 1 \/ v = 2 \/ v = 3 \/ v = 4 \/ v = 5 \/ v = 6 \/ v = 7 \/ v = 9.
Proof. lia. Qed.

Lemma sgr_fg r s d t : wf_colour d = true ->
  apply_sgr r (change_colour 30 s d ++ t) =
  apply_sgr (if colour_eqb s d then r else set_r_fg r (vcolour_of d)) t.
Proof.
  intros Hwf. unfold change_colour. destruct (colour_eqb s d); [reflexivity|].
  destruct d as [v|v|v|cr cg cb]; cbn [colour_params app]; try reflexivity.
  cbn [wf_colour] in Hwf. apply low_cases in Hwf.
  repeat (destruct Hwf as [->|Hwf]; [reflexivity|]). subst. reflexivity.
Qed.

Lemma sgr_bg r s d t : wf_colour d = true ->
  apply_sgr r (change_colour 40 s d ++ t) =
  apply_sgr (if colour_eqb s d then r else set_r_bg r (vcolour_of d)) t.
Proof.
  intros Hwf. unfold change_colour. destruct (colour_eqb s d); [reflexivity|].
  destruct d as [v|v|v|cr cg cb]; cbn [colour_params app]; try reflexivity.
  cbn [wf_colour] in Hwf. apply low_cases in Hwf.
  repeat (destruct Hwf as [->|Hwf]; [reflexivity|]). subst. reflexivity.
Qed.

Lemma apply_sgr_nil r : apply_sgr r [] = (r, true).
Proof. reflexivity. Qed.

Lemma sgr_sound a b :
  wf_colour (fg b) = true -> wf_colour (bg b) = true ->
  apply_sgr (rend_of a) (sgr_params a b) = (rend_of b, true).
Proof.
  intros Hf Hb. unfold sgr_params.
  rewrite sgr_int, sgr_neg, sgr_ul, sgr_blink, sgr_fg by exact Hf.
  rewrite <- (app_nil_r (change_colour 40 (bg a) (bg b))), sgr_bg by exact Hb.
  rewrite apply_sgr_nil. f_equal.
  destruct a as [af ab ai au an abl], b as [bf bb bi bu bn bbl].
  cbn [fg bg inten ul neg blink rend_of].
  destruct (inten_eqb ai bi) eqn:E1; [apply inten_eqb_eq in E1; subst|].
  all: (destruct (Bool.eqb an bn) eqn:E2; [apply Bool.eqb_prop in E2; subst|]).
  all: (destruct (Bool.eqb au bu) eqn:E3; [apply Bool.eqb_prop in E3; subst|]).
  all: (destruct (Bool.eqb abl bbl) eqn:E4; [apply Bool.eqb_prop in E4; subst|]).
  all: (destruct (colour_eqb af bf) eqn:E5; [apply colour_eqb_eq in E5; subst|]).
  all: (destruct (colour_eqb ab bb) eqn:E6; [apply colour_eqb_eq in E6; subst|]).
  all: reflexivity.
Qed.

Lemma change_intensity_nil s d : change_intensity s d = [] -> inten_eqb s d = true.
Proof. destruct s, d; cbn; intros H; try reflexivity; discriminate. Qed.
Lemma change_flag_nil code s d : change_flag code s d = [] -> Bool.eqb s d = true.
Proof. unfold change_flag. destruct (Bool.eqb s d); [reflexivity|discriminate]. Qed.
Lemma change_colour_nil base s d : change_colour base s d = [] -> colour_eqb s d = true.
Proof.
  unfold change_colour. destruct (colour_eqb s d); [reflexivity|].
  destruct d; cbn; discriminate.
Qed.

Lemma sgr_nonempty a b : attr_eqb a b = false -> sgr_params a b <> [].
Proof.
  intros Hne Hnil. unfold sgr_params in Hnil.
  repeat (apply app_eq_nil in Hnil; destruct Hnil as [? Hnil]).
  unfold attr_eqb in Hne.
  rewrite (change_intensity_nil _ _ H), (change_flag_nil _ _ _ H0),
          (change_flag_nil _ _ _ H1), (change_flag_nil _ _ _ H2),
          (change_colour_nil _ _ _ H3), (change_colour_nil _ _ _ Hnil) in Hne.
  discriminate.
Qed.

Lemma rend_of_default : rend_of default_attr = default_rend.
Proof. reflexivity. Qed.

(* what one change_attribute does to the terminal *)
Lemma exec_change_attribute cfg v a b :
  rend v = rend_of a -> wf_colour (fg b) = true -> wf_colour (bg b) = true ->
  vt_execs cfg v (change_attribute a b) = set_rend v (rend_of b)
  \/ (vt_execs cfg v (change_attribute a b) = v /\ rend_of b = rend v).
Proof.
  intros Hr Hf Hb. unfold change_attribute.
  destruct (attr_eqb a b) eqn:E.
  - right. apply attr_eqb_eq in E. subst. split; [reflexivity|symmetry; exact Hr].
  - destruct (attr_eqb b default_attr) eqn:E2.
    + left. apply attr_eqb_eq in E2. subst. reflexivity.
    + left. cbn [vt_execs fold_left vt_exec sgr]. unfold vt_csi.
      cbn [N.eqb Pos.eqb].
      pose proof (sgr_nonempty _ _ E) as Hne.
      destruct (sgr_params a b) eqn:Ep; [congruence|]. rewrite <- Ep.
      rewrite Hr, sgr_sound by assumption. reflexivity.
Qed.
