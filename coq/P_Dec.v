(* P_Dec.v — decimal printing and reading round-trip. *)
From TP Require Import Base.
From Coq Require Import ZArith Lia ZifyBool ZifyN.
Local Open Scope N_scope.
Ltac Zify.zify_post_hook ::= Z.div_mod_to_equations.

Lemma read_digits_app c l1 l2 :
  read_digits c (l1 ++ l2) = read_digits (read_digits c l1) l2.
Proof. revert c; induction l1 as [|d l1 IH]; intro c; cbn [app read_digits]; [reflexivity|apply IH]. Qed.

Lemma show_aux_acc fuel : forall n acc, show_aux fuel n acc = show_aux fuel n [] ++ acc.
Proof.
  induction fuel as [|f IH]; intros n acc; cbn [show_aux]; [reflexivity|].
  destruct (n / 10 =? 0); [reflexivity|].
  rewrite (IH _ (_ :: acc)), (IH _ [_]).
  rewrite <- app_assoc. reflexivity.
Qed.

Lemma pow2_succ f : 2 ^ N.of_nat (S f) = 2 * 2 ^ N.of_nat f.
Proof. rewrite Nat2N.inj_succ, N.pow_succ_r'. reflexivity. Qed.

Lemma show_aux_read fuel : forall n, n < 2 ^ N.of_nat fuel ->
  read_digits 0 (show_aux fuel n []) = n.
Proof.
  induction fuel as [|f IH]; intros n Hn.
  - cbn in Hn. cbn [show_aux read_digits]. lia.
  - cbn [show_aux]. rewrite pow2_succ in Hn.
    destruct (n / 10 =? 0) eqn:E.
    + cbn [read_digits]. lia.
    + rewrite show_aux_acc, read_digits_app. cbn [read_digits].
      rewrite IH; [lia|]. assert (n / 10 <= n / 2) by (clear; lia). lia.
Qed.

Lemma log2_fuel n : n < 2 ^ N.of_nat (S (N.to_nat (N.log2 n))).
Proof.
  rewrite Nat2N.inj_succ, N2Nat.id.
  destruct n as [|p]; [cbn; lia|]. apply N.log2_spec. lia.
Qed.

Lemma read_show n : read_digits 0 (show_N n) = n.
Proof. unfold show_N. apply show_aux_read, log2_fuel. Qed.

Lemma show_aux_digits fuel : forall n acc,
  forallb is_digit acc = true -> forallb is_digit (show_aux fuel n acc) = true.
Proof.
  induction fuel as [|f IH]; intros n acc H; cbn [show_aux]; [exact H|].
  assert (Hd : forallb is_digit ((48 + n mod 10) :: acc) = true).
  { cbn [forallb]. rewrite H. unfold is_digit. lia. }
  destruct (n / 10 =? 0); [exact Hd|]. apply IH, Hd.
Qed.

Lemma show_digits n : forallb is_digit (show_N n) = true.
Proof. apply show_aux_digits. reflexivity. Qed.

Lemma show_aux_nonempty fuel n acc : show_aux (S fuel) n acc <> [].
Proof.
  cbn [show_aux]. destruct (n / 10 =? 0); [discriminate|].
  rewrite show_aux_acc. destruct (show_aux fuel (n / 10) []); discriminate.
Qed.

Lemma show_nonempty n : show_N n <> [].
Proof. apply show_aux_nonempty. Qed.
