(* P_Items.v — every well-formed input item (Proto.v) is decoded to exactly the
   token the protocol says, from any state at rest (C05), and an abstract key is
   never produced for anything else (C20). *)
From TP Require Import Base Parser Proto P_Dec P_Parser.
From Coq Require Import ZArith Lia ZifyBool ZifyN.
Local Open Scope N_scope.
Local Arguments N.eqb : simpl never.
Local Arguments N.leb : simpl never.
Local Arguments N.ltb : simpl never.
Local Arguments N.add : simpl never.
Local Arguments N.sub : simpl never.

Definition st_args (i e : byte) (m : bool) (s0 : pstate) (arg : list byte) (args : list (list byte)) : pstate :=
  mkP PArguments i e m (p_mev s0) (p_mx s0) (p_my s0) arg args.

Lemma args_digit i e m s0 arg args d : is_digit d = true ->
  pstep (st_args i e m s0 arg args) d = (st_args i e m s0 (arg ++ [d]) args, None).
Proof. intros Hd. unfold pstep. cbn [p_st st_args]. rewrite Hd. reflexivity. Qed.

Lemma args_digits i e m s0 args : forall ds arg, forallb is_digit ds = true ->
  feed (st_args i e m s0 arg args) ds = (st_args i e m s0 (arg ++ ds) args, []).
Proof.
  induction ds as [|d r IH]; intros arg H.
  - cbn [feed]. rewrite app_nil_r. reflexivity.
  - cbn [forallb] in H. apply andb_prop in H as [Hd Hr].
    cbn [feed]. rewrite (args_digit _ _ _ _ _ _ _ Hd). rewrite (IH _ Hr).
    rewrite <- app_assoc. reflexivity.
Qed.

Lemma args_semicolon i e m s0 arg args :
  pstep (st_args i e m s0 arg args) 59 = (st_args i e m s0 [] (args ++ [arg]), None).
Proof. reflexivity. Qed.

Lemma args_params i e m s0 : forall ps args, ps <> [] ->
  feed (st_args i e m s0 [] args) (params_bytes ps) =
  (st_args i e m s0 (show_N (last ps 0)) (args ++ map show_N (removelast ps)), []).
Proof.
  unfold params_bytes.
  induction ps as [|n r IH]; intros args Hne; [congruence|].
  destruct r as [|k r'].
  - cbn [map intercalate removelast last]. rewrite args_digits by apply show_digits.
    rewrite app_nil_r. reflexivity.
  - change (intercalate [59] (map show_N (n :: k :: r')))
      with (show_N n ++ [59] ++ intercalate [59] (map show_N (k :: r'))).
    rewrite feed_app, args_digits by apply show_digits. cbn [fst snd app].
    cbn [feed]. rewrite args_semicolon. rewrite IH by discriminate.
    change (removelast (n :: k :: r')) with (n :: removelast (k :: r')).
    change (last (n :: k :: r') 0) with (last (k :: r') 0).
    cbn [map]. rewrite <- app_assoc. reflexivity.
Qed.

Definition final_ok (i f : byte) : bool :=
  negb (is_digit f) && negb (f =? 59) && negb ((f =? 77) && (i =? 91)) && negb (is_ext f).

Lemma args_final i e m s0 arg args f : final_ok i f = true ->
  pstep (st_args i e m s0 arg args) f =
  (mkP PIdle i e m (p_mev s0) (p_mx s0) (p_my s0) arg (args ++ [arg]),
   Some (TCtl (mkCseq i f m (args ++ [arg]) e))).
Proof.
  unfold final_ok. intros H.
  apply andb_prop in H as [H H4]. apply andb_prop in H as [H H3]. apply andb_prop in H as [H1 H2].
  unfold pstep. cbn [p_st st_args p_init].
  destruct (is_digit f); [discriminate|]. destruct (f =? 59); [discriminate|].
  destruct ((f =? 77) && (i =? 91)); [discriminate|]. destruct (is_ext f); [discriminate|].
  reflexivity.
Qed.

Lemma args_of_app ps : ps <> [] -> map show_N (removelast ps) ++ [show_N (last ps 0)] = args_of ps.
Proof.
  intros H. unfold args_of. destruct ps as [|p r]; [congruence|].
  rewrite (app_removelast_last 0 H) at 3. rewrite map_app. reflexivity.
Qed.

Lemma csi_body i e m s0 ps f : final_ok i f = true ->
  exists s', feed (st_args i e m s0 [] []) (params_bytes ps ++ [f]) =
             (s', [TCtl (mkCseq i f m (args_of ps) e)]) /\ p_st s' = PIdle.
Proof.
  intros Hf. destruct ps as [|p r].
  - cbn [params_bytes map intercalate app feed]. rewrite args_final by exact Hf.
    eexists. split; reflexivity.
  - rewrite feed_app, args_params by discriminate. cbn [fst snd app feed].
    rewrite args_final by exact Hf. cbn [app].
    rewrite args_of_app by discriminate. eexists. split; reflexivity.
Qed.

Lemma csi_intro_feed i :
  feed init_pstate (csi_intro i) = (st_args 91 0 (intro_meta i) init_pstate [] [], []).
Proof. destruct i as [[|]|]; reflexivity. Qed.

Lemma ss3_intro_feed i :
  feed init_pstate (ss3_intro i) = (st_args 79 0 (intro_meta i) init_pstate [] [], []).
Proof. destruct i as [[|]|]; reflexivity. Qed.

(* the raw (parser-level) decoding of a CSI-shaped item *)
Lemma csi_shape i mk ps f :
  match mk with Some m => (m =? 63) || (m =? 62) || (m =? 33) | None => true end = true ->
  final_ok 91 f = true ->
  exists s', feed init_pstate (csi_intro i ++ (match mk with Some m => [m] | None => [] end) ++
                               params_bytes ps ++ [f]) =
             (s', [TCtl (seq_of i f ps (match mk with Some m => m | None => 0 end))]) /\
             p_st s' = PIdle.
Proof.
  intros Hmk Hf. rewrite feed_app, csi_intro_feed. cbn [fst snd app].
  destruct mk as [m|].
  - cbn [app feed].
    assert (Hm : pstep (st_args 91 0 (intro_meta i) init_pstate [] []) m =
                 (st_args 91 m (intro_meta i) init_pstate [] [], None)).
    { assert (Hc : m = 63 \/ m = 62 \/ m = 33) by lia.
      destruct Hc as [Hc|[Hc|Hc]]; subst m; reflexivity. }
    rewrite Hm.
    destruct (csi_body 91 m (intro_meta i) init_pstate ps f Hf) as (s' & Hs & Hi).
    rewrite Hs. exists s'. split; [reflexivity|exact Hi].
  - cbn [app].
    destruct (csi_body 91 0 (intro_meta i) init_pstate ps f Hf) as (s' & Hs & Hi).
    rewrite Hs. exists s'. split; [reflexivity|exact Hi].
Qed.

(* ---- key translation -------------------------------------------------------------- *)
Lemma atoi_show n : n < 2147483648 -> atoi (show_N n) = Z.of_N n.
Proof. intros H. unfold atoi. rewrite read_show. rewrite N.min_l by lia. reflexivity. Qed.

Lemma modifier_sweep :
  forallb (fun c => convert_modifier (show_N c) =? xterm_mods c)
          (map N.of_nat (seq 1 16)) = true.
Proof. vm_compute. reflexivity. Qed.

Lemma convert_modifier_ok c : (1 <=? c) && (c <=? 16) = true ->
  convert_modifier (show_N c) = xterm_mods c.
Proof.
  intros H. pose proof modifier_sweep as S. rewrite forallb_forall in S.
  apply N.eqb_eq. apply S. apply in_map_iff. exists (N.to_nat c). split; [lia|].
  apply in_seq. lia.
Qed.

Lemma lookup_in t k : is_some (lookup_tbl t k) = true -> In k (map fst t).
Proof.
  unfold lookup_tbl. induction t as [|[a b] r IH]; cbn [find map fst]; [discriminate|].
  destruct (a =? k) eqn:E; [left; lia|]. intros H. right. exact (IH H).
Qed.

Lemma cursor_key_agree f : cursor_key f = csi_key_of f.
Proof.
  destruct f as [|p]; [reflexivity|]. unfold cursor_key, csi_key_of.
  do 7 (try destruct p as [p|p|]); reflexivity.
Qed.

Lemma keypad_agree n : keypad_key (Z.of_N n) = keypad_key_of n.
Proof.
  destruct n as [|p]; [reflexivity|]. cbn [Z.of_N]. unfold keypad_key, keypad_key_of.
  do 6 (try destruct p as [p|p|]); reflexivity.
Qed.

Lemma mouse_feed e m s0 bb xx yy :
  feed (st_args 91 e m s0 [] []) [77; bb; xx; yy] =
  (mkP PIdle 91 e m (mouse_event_of bb) (Z.of_N xx - 32 - 1)%Z (Z.of_N yy - 32 - 1)%Z [] [],
   [TMouse (mouse_event_of bb) (Z.of_N xx - 32 - 1)%Z (Z.of_N yy - 32 - 1)%Z]).
Proof. reflexivity. Qed.

Lemma mouse_coord x : (Z.of_N (32 + x) - 32 - 1 = Z.of_N x - 1)%Z.
Proof. lia. Qed.

Lemma mouse_code_agree b : is_some (mouse_event_code b) = true ->
  mouse_event_of (32 + b) = key_or_nul (mouse_event_code b).
Proof.
  intros H. pose proof (lookup_in _ _ H) as Hin. cbn in Hin.
  repeat (destruct Hin as [Hin|Hin]; [subst b; reflexivity|]). contradiction.
Qed.

(* ---- each well-formed item, from the fresh state ------------------------------------ *)
Definition end_st (it : item) : pst :=
  match it with
  | IEnter BareCr => PCr
  | IEnter BareLf => PLf
  | _ => PIdle
  end.

Lemma in_cases8 (x a b c d e f g h : N) : In x [a; b; c; d; e; f; g; h] ->
  x = a \/ x = b \/ x = c \/ x = d \/ x = e \/ x = f \/ x = g \/ x = h.
Proof. cbn. intuition. Qed.

Lemma wk_modifiers i (a0 : list byte) modc : modc_ok modc = true ->
  seq_modifiers (mkCseq 91 0 (intro_meta i)
     (a0 :: match modc with Some m => [show_N m] | None => [] end) 0)
  = mods_of modc (intro_meta i).
Proof.
  intros H. unfold seq_modifiers, mods_of, meta_bit. cbn [cs_args cs_meta].
  destruct modc as [m|]; [|reflexivity]. cbn [modc_ok] in H.
  rewrite convert_modifier_ok by exact H. reflexivity.
Qed.

Lemma seq_modifiers_indep c c' :
  cs_args c = cs_args c' -> cs_meta c = cs_meta c' -> seq_modifiers c = seq_modifiers c'.
Proof. unfold seq_modifiers. intros -> ->. reflexivity. Qed.

Lemma item_feed it : wf_item it = true ->
  exists s' r, feed init_pstate (enc it) = (s', [r]) /\ well_known r = tok it /\ p_st s' = end_st it.
Proof.
  intros Hwf. destruct it as [b|f|i f rep modc|i n modc|i f|i mk ps f|i b x y]; cbn [wf_item] in Hwf.
  - (* plain byte *)
    apply andb_prop in Hwf as [_ Hwf]. apply negb_true_iff in Hwf.
    apply orb_false_elim in Hwf as [Hwf H5]. apply orb_false_elim in Hwf as [Hwf H4].
    apply orb_false_elim in Hwf as [Hwf H3]. apply orb_false_elim in Hwf as [H1 H2].
    cbn [enc feed]. unfold pstep, parse_idle. cbn [p_st init_pstate].
    rewrite H1, H2, H3, H4, H5. do 2 eexists. split; [reflexivity|]. split; reflexivity.
  - destruct f; do 2 eexists; (split; [reflexivity|]); split; reflexivity.
  - (* CSI cursor key *)
    apply andb_prop in Hwf as [Hwf Hrep]. apply andb_prop in Hwf as [Hkey Hmod].
    pose proof (lookup_in _ _ Hkey) as Hin. cbn [map fst csi_key_table] in Hin.
    assert (Hf : final_ok 91 f = true /\ (f =? 126) = false).
    { apply in_cases8 in Hin. repeat (destruct Hin as [Hin|Hin]; [subst f; split; reflexivity|]).
      subst f; split; reflexivity. }
    destruct Hf as [Hf H126].
    destruct (csi_shape i None (key_params rep modc) f eq_refl Hf) as (s' & Hs & Hi).
    cbn [enc]. cbn [app] in Hs. exists s'. eexists. split; [exact Hs|]. split; [|exact Hi].
    cbn [well_known tok]. unfold convert_cseq, seq_of. cbn [cs_init cs_cmd].
    rewrite N.eqb_refl, H126, cursor_key_agree.
    unfold csi_key_of in *. destruct (lookup_tbl csi_key_table f) as [k|]; [|discriminate].
    cbn [key_or_nul]. f_equal.
    + (* modifiers *)
      destruct rep as [r|], modc as [m|]; cbn [key_params args_of map];
        unfold seq_modifiers, mods_of, meta_bit; cbn [cs_args cs_meta]; try reflexivity;
        cbn [modc_ok] in Hmod; rewrite convert_modifier_ok by exact Hmod; reflexivity.
    + (* repeat count *)
      destruct rep as [r|], modc as [m|]; cbn [key_params args_of map cs_args];
        try (rewrite atoi_show by (unfold int_ok in Hrep; lia)); reflexivity.
  - (* keypad *)
    apply andb_prop in Hwf as [Hkey Hmod].
    pose proof (lookup_in _ _ Hkey) as Hin.
    destruct (csi_shape i None (n :: match modc with Some m => [m] | None => [] end) 126 eq_refl eq_refl)
      as (s' & Hs & Hi).
    cbn [enc]. cbn [app] in Hs. exists s'. eexists. split; [exact Hs|]. split; [|exact Hi].
    cbn [well_known tok]. unfold convert_cseq, seq_of. cbn [cs_init cs_cmd cs_args args_of map].
    rewrite !N.eqb_refl.
    assert (Hn : n < 2147483648).
    { cbn [map fst keypad_key_table] in Hin. cbn in Hin.
      repeat (destruct Hin as [Hin|Hin]; [subst n; reflexivity|]). contradiction. }
    pose proof (show_nonempty n) as Hne. pose proof (show_digits n) as Hdig.
    destruct (show_N n) as [|d ds] eqn:Esn; [congruence|].
    cbn [forallb] in Hdig. apply andb_prop in Hdig as [Hd _]. rewrite Hd.
    rewrite <- Esn. rewrite atoi_show by exact Hn. rewrite keypad_agree.
    unfold keypad_key_of in *. destruct (lookup_tbl keypad_key_table n) as [k|]; [|discriminate].
    cbn [key_or_nul]. f_equal.
    destruct modc as [m|]; cbn [map]; unfold seq_modifiers, mods_of, meta_bit; cbn [cs_args cs_meta];
      try reflexivity.
    cbn [modc_ok] in Hmod. rewrite convert_modifier_ok by exact Hmod. reflexivity.
  - (* SS3 *)
    pose proof (lookup_in _ _ Hwf) as Hin. cbn [map fst ss3_key_table] in Hin.
    cbn [enc]. rewrite feed_app, ss3_intro_feed. cbn [fst snd app feed].
    cbn in Hin.
    repeat (destruct Hin as [Hin|Hin];
            [subst f; rewrite args_final by reflexivity; do 2 eexists;
             split; [reflexivity|]; split; [destruct i as [[|]|]; reflexivity|reflexivity]|]).
    contradiction.
  - (* other CSI *)
    repeat (apply andb_prop in Hwf; destruct Hwf as [Hwf ?]).
    assert (Hf : final_ok 91 f = true).
    { unfold final_ok, is_digit, is_ext. rewrite N.eqb_refl. lia. }
    destruct (csi_shape i mk ps f H0 Hf) as (s' & Hs & Hi).
    cbn [enc]. exists s'. eexists. split; [exact Hs|]. split; [|exact Hi].
    cbn [well_known tok]. unfold convert_cseq, seq_of. cbn [cs_init cs_cmd].
    rewrite N.eqb_refl.
    assert ((f =? 126) = false) as -> by lia.
    rewrite cursor_key_agree. destruct (csi_key_of f); [discriminate|]. reflexivity.
  - (* mouse *)
    repeat (apply andb_prop in Hwf; destruct Hwf as [Hwf ?]).
    cbn [enc]. rewrite feed_app, csi_intro_feed. cbn [fst snd app]. rewrite mouse_feed.
    do 2 eexists. split; [reflexivity|]. split; [|reflexivity].
    cbn [well_known tok]. rewrite !mouse_coord, (mouse_code_agree b Hwf). reflexivity.
Qed.

(* ---- sequences of items (C05) ------------------------------------------------------------ *)
Definition rest_ok (s : pstate) (b : byte) : Prop :=
  match p_st s with
  | PIdle => True
  | PCr => (b =? 10) || (b =? 0) = false
  | PLf => (b =? 13) = false
  | _ => False
  end.

Lemma pstep_rest s b : rest_ok s b -> pstep s b = pstep (set_st s PIdle) b.
Proof.
  unfold rest_ok, pstep. destruct s as [st i e m mv mx my a as']. cbn [p_st set_st].
  destruct st; intros H; try contradiction.
  - reflexivity.
  - rewrite H. reflexivity.
  - rewrite H. reflexivity.
Qed.

Lemma enc_first it : exists tl, enc it = first_byte it :: tl.
Proof.
  unfold first_byte.
  destruct it as [b|f|i f rep modc|i n modc|i f|i mk ps f|i b x y]; cbn [enc].
  - eexists; reflexivity.
  - destruct f; eexists; reflexivity.
  - destruct i as [[|]|]; eexists; reflexivity.
  - destruct i as [[|]|]; eexists; reflexivity.
  - destruct i as [[|]|]; eexists; reflexivity.
  - destruct i as [[|]|]; eexists; reflexivity.
  - destruct i as [[|]|]; eexists; reflexivity.
Qed.

Lemma item_from_rest it s : wf_item it = true -> rest_ok s (first_byte it) ->
  map well_known (snd (feed s (enc it))) = [tok it] /\ p_st (fst (feed s (enc it))) = end_st it.
Proof.
  intros Hwf Hr. destruct (enc_first it) as [tl Htl].
  assert (Hf : feed s (enc it) = feed (set_st s PIdle) (enc it)).
  { rewrite Htl. cbn [feed]. rewrite (pstep_rest s _ Hr). reflexivity. }
  rewrite Hf.
  assert (S : sim (set_st s PIdle) init_pstate) by (unfold sim; cbn; split; reflexivity).
  destruct (sim_feed (enc it) _ _ S) as [H1 [H2 _]].
  destruct (item_feed it Hwf) as (s' & r & Hs & Hw & He).
  rewrite Hs in H1, H2. cbn [fst snd] in H1, H2. rewrite H1, H2. cbn [map]. rewrite Hw. split; [reflexivity|exact He].
Qed.

Theorem items_decode : forall its s,
  forallb wf_item its = true -> adjacency_ok its = true ->
  match its with [] => True | it :: _ => rest_ok s (first_byte it) end ->
  snd (deliver s (enc_all its)) = map tok its.
Proof.
  induction its as [|it r IH]; intros s Hwf Hadj Hr; [reflexivity|].
  cbn [forallb] in Hwf. apply andb_prop in Hwf as [Hit Hrest].
  change (enc_all (it :: r)) with (enc it ++ enc_all r).
  rewrite deliver_app. cbn [snd]. unfold deliver at 1.
  destruct (item_from_rest it s Hit Hr) as [H1 H2].
  destruct (feed s (enc it)) as [s1 t1] eqn:E1. cbn [fst snd] in *. rewrite H1.
  cbn [map app]. f_equal.
  assert (Hs1 : fst (deliver s (enc it)) = s1) by (unfold deliver; rewrite E1; reflexivity).
  rewrite Hs1. apply IH; [exact Hrest| |].
  - cbn [adjacency_ok] in Hadj. apply andb_prop in Hadj as [_ Hadj]. exact Hadj.
  - destruct r as [|nxt r']; [exact I|].
    unfold rest_ok. rewrite H2. cbn [adjacency_ok] in Hadj. apply andb_prop in Hadj as [Hadj _].
    destruct it as [b|f|i f rep modc|i n modc|i f|i mk ps f|i b x y]; try exact I.
    destruct f; cbn [end_st]; try exact I.
    + apply negb_true_iff in Hadj. exact Hadj.
    + apply negb_true_iff in Hadj. exact Hadj.
Qed.

(* ---- shapes of delivered tokens (C20) -------------------------------------------------------- *)
Definition arg0_number (c : cseq) : option N :=
  match cs_args c with
  | (d :: ds) :: _ => if is_digit d then Some (read_digits 0 (d :: ds)) else None
  | _ => None
  end.

(* the key a control sequence encodes, if any (specification) *)
Definition key_encoded (c : cseq) : option N :=
  if cs_init c =? 91 then
    if cs_cmd c =? 126 then
      match arg0_number c with Some n => keypad_key_of n | None => None end
    else csi_key_of (cs_cmd c)
  else if cs_init c =? 79 then ss3_key_of (cs_cmd c)
  else None.

Definition token_ok (t : token) : Prop :=
  match t with
  | TKey k m r (KByte b) => (k = vk_enter /\ b = 10) \/ (k = b /\ m = 0 /\ r = 1%Z)
  | TKey k _ _ (KSeq c) => key_encoded c = Some k
  | _ => True
  end.

Lemma pstep_token s b t : pstep s b = (fst (pstep s b), Some t) ->
  match t with
  | TKey k m r (KByte x) => (k = vk_enter /\ x = 10) \/ (k = x /\ m = 0 /\ r = 1%Z)
  | TKey _ _ _ (KSeq _) => False
  | _ => True
  end.
Proof.
  unfold pstep, parse_idle.
  destruct (p_st s);
    repeat match goal with |- context[if ?c then _ else _] => destruct c end;
    cbn [fst]; intros H; inversion H; subst; try exact I;
    first [left; split; reflexivity | right; repeat split; reflexivity].
Qed.

Lemma keypad_big n : 40 <= n -> keypad_key_of n = None.
Proof.
  intros H. unfold keypad_key_of, lookup_tbl, keypad_key_table. cbn [find fst].
  repeat match goal with |- context[if ?c then _ else _] => destruct c eqn:?; [exfalso; lia|] end.
  reflexivity.
Qed.

Lemma keypad_atoi a0 : keypad_key (atoi a0) = keypad_key_of (read_digits 0 a0).
Proof.
  unfold atoi. destruct (N.leb_spec (read_digits 0 a0) 2147483647) as [H|H].
  - rewrite N.min_l by exact H. apply keypad_agree.
  - rewrite N.min_r by lia. rewrite keypad_agree. rewrite !keypad_big by lia. reflexivity.
Qed.

Lemma ss3_key_agree f : ss3_key f = ss3_key_of f.
Proof.
  destruct f as [|p]; [reflexivity|]. unfold ss3_key, ss3_key_of.
  do 7 (try destruct p as [p|p|]); reflexivity.
Qed.

Lemma convert_ok c : token_ok (convert_cseq c).
Proof.
  unfold convert_cseq.
  destruct (cs_init c =? 91) eqn:E91.
  - destruct (cs_cmd c =? 126) eqn:E126.
    + destruct (cs_args c) as [|a0 r] eqn:Ea; [exact I|].
      destruct a0 as [|d ds]; [exact I|].
      destruct (is_digit d) eqn:Ed; [|exact I].
      destruct (keypad_key (atoi (d :: ds))) eqn:Ek; [|exact I].
      cbn [token_ok]. unfold key_encoded, arg0_number. rewrite E91, E126, Ea, Ed.
      rewrite <- keypad_atoi. exact Ek.
    + destruct (cursor_key (cs_cmd c)) eqn:Ek; [|exact I].
      cbn [token_ok]. unfold key_encoded. rewrite E91, E126, <- cursor_key_agree. exact Ek.
  - destruct (cs_init c =? 79) eqn:E79; [|exact I].
    destruct (ss3_key (cs_cmd c)) eqn:Ek; [|exact I].
    cbn [token_ok]. unfold key_encoded. rewrite E91, E79, <- ss3_key_agree. exact Ek.
Qed.

Theorem delivered_tokens_ok : forall bs s t,
  In t (snd (deliver s bs)) -> token_ok t.
Proof.
  unfold deliver.
  induction bs as [|b r IH]; intros s t Hin.
  - cbn in Hin. contradiction.
  - cbn [feed] in Hin. destruct (pstep s b) as [s1 o] eqn:E1.
    specialize (IH s1 t). destruct (feed s1 r) as [s2 ts] eqn:E2. cbn [snd] in *.
    destruct o as [x|]; [|exact (IH Hin)].
    cbn [map] in Hin. destruct Hin as [Hx|Hin]; [|exact (IH Hin)].
    subst t.
    assert (Hp : pstep s b = (fst (pstep s b), Some x)) by (rewrite E1; reflexivity).
    pose proof (pstep_token s b x Hp) as Hs.
    destruct x as [k m rr [y|c]|a xx yy|c]; cbn [well_known token_ok].
    + exact Hs.
    + contradiction.
    + exact I.
    + apply convert_ok.
Qed.
