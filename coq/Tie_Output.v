(* Tie_Output.v — every ANSI constant the output model spells as a literal
   equals the value the headers define now. *)
From TP Require Import Elem Term Generated.
Local Open Scope N_scope.

Lemma tie_output_constants :
  g_control7_csi = [27; 91] /\ g_control7_osc = [27; 93] /\ g_control7_st = [27; 92] /\
  g_ps = 59 /\ g_esc = 27 /\ g_bel = 7 /\
  g_dec_private_mode = [63] /\ g_dec_pm_set = [104] /\ g_dec_pm_reset = [108] /\
  g_dec_pm_cursor = show_N 25 /\ g_dec_pm_basic_mouse = show_N 1000 /\
  g_dec_pm_all_motion_mouse = show_N 1003 /\ g_dec_pm_alt_buffer = show_N 47 /\
  g_osc_set_window_title = 50 /\
  g_select_default_charset = render (EscUtf8 false) /\
  g_select_utf8_charset = render (EscUtf8 true) /\
  g_set_charset_g0 = [27; 40] /\
  g_csi_cursor_up = 65 /\ g_csi_cursor_down = 66 /\
  g_csi_cursor_horizontal_absolute = 71 /\ g_csi_cursor_position = 72 /\
  g_csi_erase_in_display = 74 /\ g_csi_erase_in_line = 75 /\
  [g_csi_erase_in_display_below; g_csi_erase_in_display_above; g_csi_erase_in_display_all] = [48; 49; 50] /\
  [g_csi_erase_in_line_right; g_csi_erase_in_line_left; g_csi_erase_in_line_all] = [48; 49; 50] /\
  g_csi_sgr = 109 /\ g_csi_save_cursor = 115 /\ g_csi_restore_cursor = 117.
Proof. vm_compute. repeat split. Qed.

Lemma tie_sgr_codes :
  g_sgr_codes = [0; inten_code IBold; inten_code IFaint; inten_code INormal;
                 ul_code true; ul_code false; blink_code true; blink_code false;
                 neg_code true; neg_code false; 30; 40; 9] /\
  g_effect_values = [inten_code IBold; inten_code IFaint; inten_code INormal;
                     ul_code true; ul_code false; neg_code true; neg_code false;
                     blink_code true; blink_code false] /\
  g_low_colours = [0; 1; 2; 3; 4; 5; 6; 7; 9].
Proof. vm_compute. repeat split. Qed.

Lemma tie_defaults :
  g_default_element =
    [cs_index (gcs default_glyph); g0 default_glyph; 0; 9; 0; 9;
     inten_code INormal; ul_code false; neg_code false; blink_code false] /\
  g_behaviour_defaults = [0; 0; 0; 0; 0].
Proof. vm_compute. repeat split. Qed.
