(* Properties_C03.v -- placeholder, theorems follow *)
From TP Require Import Term.
