(* Tie_Markup.v — digit functions of the markup decoder: complete graphs. *)
From TP Require Import Markup Screen Generated.
Local Open Scope N_scope.

Lemma tie_digit10 : map digit10 (Nseq 0 256) = g_digit10.
Proof. vm_compute. reflexivity. Qed.
Lemma tie_digit16 : map digit16 (Nseq 0 256) = g_digit16.
Proof. vm_compute. reflexivity. Qed.
Lemma tie_handlers : g_markup_handlers = mstate_index MDone.
Proof. vm_compute. reflexivity. Qed.
