(* P_Screen.v — screen::draw: what is transmitted (C04) and what the terminal
   displays afterwards (C03). *)
From TP Require Import Base Elem Term Screen VT Oracle P_Dec P_VT P_Diff P_Sync P_Step P_Bytes P_Run P_Canvas.
From Coq Require Import ZArith Lia ZifyBool ZifyN ZifyNat.
Local Open Scope N_scope.

(* ---- run = hrun over HOp --------------------------------------------------------- *)
Lemma run_hrun cfg beh : forall ops st v,
  fst (run beh st ops) = fst (hrun cfg beh st v (map HOp ops)) /\
  vt_bytes cfg v (render_all (snd (run beh st ops))) = snd (hrun cfg beh st v (map HOp ops)).
Proof.
  induction ops as [|o r IH]; intros st v; [split; reflexivity|].
  cbn [run map]. unfold hrun. cbn [fold_left hstep].
  destruct (step beh st o) as [st1 c1] eqn:E1.
  specialize (IH st1 (vt_bytes cfg v (render_all c1))). destruct IH as [IH1 IH2].
  destruct (run beh st1 r) as [st2 c2] eqn:E2. cbn [fst snd] in *.
  unfold obytes. rewrite E1. cbn [fst snd]. unfold hrun in IH1, IH2.
  split; [exact IH1|]. rewrite render_all_app, vt_bytes_app. exact IH2.
Qed.

(* ---- element equality means equal display ------------------------------------------- *)
Lemma glyph_eqb_display a b : glyph_eqb a b = true ->
  gcs a = gcs b /\ bytes_of a = bytes_of b /\ shown_of a = shown_of b.
Proof.
  unfold glyph_eqb, bytes_of, shown_of, wire, utf8_len. intros H.
  apply andb_prop in H as [Hc H]. apply cs_eqb_eq in Hc. rewrite <- Hc.
  destruct (cs_eqb (gcs a) CsUtf8).
  - apply andb_prop in H as [H H2]. apply andb_prop in H as [H0 H1].
    apply N.eqb_eq in H0, H1, H2. rewrite H0, H1, H2. repeat split.
  - apply N.eqb_eq in H. rewrite H. repeat split.
Qed.

Lemma element_eqb_display a b : element_eqb a b = true -> display_of a = display_of b.
Proof.
  unfold element_eqb. intros H. apply andb_prop in H as [Hg Ha].
  apply attr_eqb_eq in Ha. destruct (glyph_eqb_display _ _ Hg) as (H1 & H2 & H3).
  rewrite !display_of_eq, H2, H3, Ha. reflexivity.
Qed.

(* ---- the operations of one draw -------------------------------------------------------- *)
Definition cell_ops (pe : pt * element) : list op := [Move (fst pe); WElem (snd pe)].

Lemma flat_map_filter {A B} (P : A -> bool) (f : A -> list B) : forall l,
  flat_map (fun x => if P x then [] else f x) l = flat_map f (filter (fun x => negb (P x)) l).
Proof.
  induction l as [|a r IH]; [reflexivity|]. cbn [flat_map filter].
  destruct (P a); cbn [negb]; [exact IH|]. cbn [flat_map]. rewrite IH. reflexivity.
Qed.

Definition prev_frame (s : screen) (c : canvas) : canvas :=
  if (cw c =? cw (last_frame s)) && (ch c =? ch (last_frame s)) then last_frame s
  else blank_canvas (cw c) (ch c).

Lemma draw_ops_changed s c :
  draw_ops s c =
  (if (cw c =? cw (last_frame s)) && (ch c =? ch (last_frame s)) then [] else [Erase EDisplay]) ++
  flat_map cell_ops (changed_cells (prev_frame s c) c).
Proof.
  unfold draw_ops, prev_frame, changed_cells.
  destruct ((cw c =? cw (last_frame s)) && (ch c =? ch (last_frame s))); cbn [negb]; f_equal.
  - rewrite <- flat_map_filter. apply flat_map_ext. intros [p e]. reflexivity.
  - rewrite <- flat_map_filter. apply flat_map_ext. intros [p e]. reflexivity.
Qed.

Section Draw.
Variable cfg : vtcfg.
Variable beh : behaviour.
Hypothesis Huni : b_unicode_all beh = true -> unicode_all cfg = true.
Notation Sync := (Sync beh).

Definition noscroll (sz p : pt) : Prop :=
  wrap cfg <> Immediate \/
  ~ ((fst p + 1 <? fst sz) = false /\ (snd p + 1 <? snd sz) = false).

(* move to p, then write e: the glyph lands on p, only that cell changes *)
Lemma move_write st v p e :
  Sync st v -> inside p (ts_size st) = true -> wf_elem e = true -> noscroll (ts_size st) p ->
  let sv := hrun cfg beh st v [HOp (Move p); HOp (WElem e)] in
  Sync (fst sv) (snd sv) /\ ts_size (fst sv) = ts_size st /\
  trace (snd sv) = (p, display_of e) :: trace v /\
  cells (snd sv) = upd_cell (cells v) p (display_of e) /\
  modes_of (snd sv) = modes_of v.
Proof.
  intros S Hin He Hns. unfold hrun. cbn [fold_left hstep].
  pose proof (sync_move cfg beh st v p S Hin) as Hm. cbv zeta in Hm.
  destruct Hm as (S1 & Ht1 & Hmo1 & Hc1 & _ & _ & Hcur1 & _ & Hs1 & _).
  rewrite <- (step_bytes cfg beh Huni st v (Move p) S Hin) in S1, Ht1, Hc1, Hmo1.
  set (st1 := fst (step beh st (Move p))) in *.
  set (v1 := vt_bytes cfg v (obytes beh st (Move p))) in *.
  (* the write: optional default attribute, then write_element *)
  assert (Hwf : wf_op st1 (WElem e)) by (cbn [wf_op]; apply wf_elem_wf_elem_c; exact He).
  rewrite (step_bytes cfg beh Huni st1 v1 (WElem e) S1 Hwf). cbn [step].
  pose proof (sync_oda cfg beh st1 v1 S1) as Ho. cbv zeta in Ho.
  destruct Ho as (S2 & Hl2 & Ht2 & Hmo2 & Hc2 & _ & _ & Hcur2 & Hs2).
  destruct (optional_default_attribute st1) as [st2 c2] eqn:E2. cbn [fst snd] in *.
  destruct (ts_last st2) as [l2|] eqn:El2; [|congruence].
  pose proof (sync_write_element cfg beh Huni st2 (vt_execs cfg v1 c2) e l2 S2 El2 He) as H.
  cbv zeta in H. destruct H as [S3 [[q [Htr Hq]] [Hmo3 Hcells]]].
  assert (Hsz3 : ts_size (fst (write_element beh st2 e)) = ts_size st2).
  { unfold write_element. cbn [fst]. destruct (advance_other (set_last st2 (Some e)) (eg e)) as (A & _). exact A. }
  destruct (write_element beh st2 e) as [st3 c3] eqn:E3. cbn [fst snd] in *.
  rewrite vt_execs_app.
  assert (Hcur : ts_cur st2 = Some p) by (rewrite Hcur2; exact Hcur1).
  split; [exact S3|]. split; [rewrite Hsz3, Hs2; exact Hs1|]. split; [|split].
  - rewrite Htr, Ht2, Ht1. rewrite (Hq p Hcur). reflexivity.
  - rewrite (Hcells p Hcur).
    + rewrite Hc2, Hc1. reflexivity.
    + assert (Hvs : vsize (vt_execs cfg v1 c2) = ts_size st).
      { rewrite <- (sy_size _ _ _ S2). rewrite Hs2. exact Hs1. }
      rewrite Hvs. exact Hns.
  - rewrite Hmo3, Hmo2. exact Hmo1.
Qed.

Definition upd_all (f : pt -> cell) (l : list (pt * element)) : pt -> cell :=
  fold_left (fun f pe => upd_cell f (fst pe) (display_of (snd pe))) l f.

Lemma cells_run : forall l st v,
  Sync st v ->
  (forall pe, In pe l -> inside (fst pe) (ts_size st) = true /\ wf_elem (snd pe) = true /\
                         noscroll (ts_size st) (fst pe)) ->
  let sv := hrun cfg beh st v (map HOp (flat_map cell_ops l)) in
  Sync (fst sv) (snd sv) /\ ts_size (fst sv) = ts_size st /\
  trace (snd sv) = rev (map (fun pe => (fst pe, display_of (snd pe))) l) ++ trace v /\
  cells (snd sv) = upd_all (cells v) l /\
  modes_of (snd sv) = modes_of v.
Proof.
  induction l as [|pe r IH]; intros st v S Hall.
  - cbn. split; [exact S|]. repeat split.
  - destruct (Hall pe (or_introl eq_refl)) as (Hin & Hwf & Hns).
    pose proof (move_write st v (fst pe) (snd pe) S Hin Hwf Hns) as H. cbv zeta in H.
    destruct H as (S1 & Hs1 & Ht1 & Hc1 & Hmo1).
    cbn [flat_map cell_ops app map]. unfold hrun. cbn [fold_left].
    unfold hrun in S1, Hs1, Ht1, Hc1, Hmo1. cbn [fold_left] in S1, Hs1, Ht1, Hc1, Hmo1.
    set (sv1 := hstep cfg beh (hstep cfg beh (st, v) (HOp (Move (fst pe)))) (HOp (WElem (snd pe)))) in *.
    specialize (IH (fst sv1) (snd sv1) S1).
    assert (Hall' : forall q, In q r -> inside (fst q) (ts_size (fst sv1)) = true /\
                                        wf_elem (snd q) = true /\ noscroll (ts_size (fst sv1)) (fst q)).
    { intros q Hq. rewrite Hs1. apply Hall. right. exact Hq. }
    specialize (IH Hall'). cbv zeta in IH. unfold hrun in IH.
    replace (fst sv1, snd sv1) with sv1 in IH by (destruct sv1; reflexivity).
    destruct IH as (S2 & Hs2 & Ht2 & Hc2 & Hmo2).
    split; [exact S2|]. split; [rewrite Hs2; exact Hs1|]. split; [|split].
    + rewrite Ht2, Ht1. cbn [map rev]. rewrite <- app_assoc. reflexivity.
    + rewrite Hc2, Hc1. reflexivity.
    + rewrite Hmo2. exact Hmo1.
Qed.

(* the value of a cell after a batch of updates that all carry F(position) *)
Lemma upd_all_value (F : pt -> cell) : forall l f q,
  (forall pe, In pe l -> display_of (snd pe) = F (fst pe)) ->
  upd_all f l q = if existsb (fun pe => pt_eqb q (fst pe)) l then F q else f q.
Proof.
  induction l as [|pe r IH]; intros f q Hall; [reflexivity|].
  unfold upd_all. cbn [fold_left existsb].
  change (fold_left _ r ?g q) with (upd_all g r q).
  rewrite IH by (intros x Hx; apply Hall; right; exact Hx).
  destruct (existsb (fun pe0 => pt_eqb q (fst pe0)) r) eqn:Er.
  - rewrite orb_true_r. reflexivity.
  - rewrite orb_false_r. unfold upd_cell. destruct (pt_eqb q (fst pe)) eqn:Eq; [|reflexivity].
    apply pt_eqb_eq in Eq. subst q. apply Hall. left. reflexivity.
Qed.

End Draw.

Lemma in_changed prev c pe : In pe (changed_cells prev c) ->
  fst (fst pe) < cw c /\ snd (fst pe) < ch c /\ snd pe = cv_get c (fst (fst pe)) (snd (fst pe)) /\
  element_eqb (cv_get prev (fst (fst pe)) (snd (fst pe))) (snd pe) = false.
Proof.
  unfold changed_cells. rewrite filter_In. intros [Hin Hne].
  unfold region_visit in Hin. apply in_map_iff in Hin as [[x y] [E Hp]]. subst pe.
  apply In_region_points in Hp. cbn [fst snd] in *.
  repeat split; try lia.
Qed.

Lemma not_changed prev c x y : x < cw c -> y < ch c ->
  existsb (fun pe => pt_eqb (x, y) (fst pe)) (changed_cells prev c) = false ->
  element_eqb (cv_get prev x y) (cv_get c x y) = true.
Proof.
  intros Hx Hy Hex.
  destruct (element_eqb (cv_get prev x y) (cv_get c x y)) eqn:E; [reflexivity|].
  exfalso. assert (Hin : In ((x, y), cv_get c x y) (changed_cells prev c)).
  { unfold changed_cells. apply filter_In. split.
    - unfold region_visit. apply in_map_iff. exists (x, y). split; [reflexivity|].
      apply In_region_points. lia.
    - cbn [fst snd]. rewrite E. reflexivity. }
  assert (Ht : existsb (fun pe => pt_eqb (x, y) (fst pe)) (changed_cells prev c) = true).
  { apply existsb_exists. eexists. split; [exact Hin|]. cbn [fst]. unfold pt_eqb. cbn [fst snd].
    rewrite !N.eqb_refl. reflexivity. }
  congruence.
Qed.


Section DrawThm.
Variable cfg : vtcfg.
Variable beh : behaviour.
Hypothesis Huni : b_unicode_all beh = true -> unicode_all cfg = true.
Notation Sync := (Sync beh).

Definition Frame (lf : canvas) (v : vt) : Prop :=
  forall x y, x < cw lf -> y < ch lf -> cells v (x, y) = display_of (cv_get lf x y).

Definition canvas_elems_wf (c : canvas) : Prop :=
  forall x y, x < cw c -> y < ch c -> wf_elem (cv_get c x y) = true.

Definition same_size (s : screen) (c : canvas) : bool :=
  (cw c =? cw (last_frame s)) && (ch c =? ch (last_frame s)).

Definition placed_cells (s : screen) (c : canvas) : list (pt * cell) :=
  map (fun pe => (fst pe, display_of (snd pe))) (changed_cells (prev_frame s c) c).

Theorem draw_correct s st v c :
  Sync st v -> ts_size st = (cw c, ch c) -> canvas_elems_wf c ->
  (same_size s c = true -> Frame (last_frame s) v) ->
  (wrap cfg <> Immediate \/
   element_eqb (cv_get (prev_frame s c) (cw c - 1) (ch c - 1)) (cv_get c (cw c - 1) (ch c - 1)) = true) ->
  let st' := snd (fst (draw beh s st c)) in
  let v' := vt_bytes cfg v (render_all (snd (draw beh s st c))) in
  Sync st' v' /\ Frame c v' /\ last_frame (fst (fst (draw beh s st c))) = c /\
  ts_size st' = ts_size st /\ trace v' = rev (placed_cells s c) ++ trace v /\
  modes_of v' = modes_of v.
Proof.
  intros S Hsz Hwf Hframe Hns. unfold draw.
  destruct (run_hrun cfg beh (draw_ops s c) st v) as [R1 R2].
  destruct (run beh st (draw_ops s c)) as [st' cmds] eqn:Er. cbn [fst snd] in *.
  rewrite R1, R2. clear R1 R2 Er st' cmds.
  rewrite draw_ops_changed, map_app. unfold hrun. rewrite fold_left_app.
  fold (same_size s c).
  (* first phase: the erase on a size change *)
  assert (P1 : exists st1 v1,
     fold_left (hstep cfg beh) (map HOp (if same_size s c then [] else [Erase EDisplay])) (st, v) = (st1, v1) /\
     Sync st1 v1 /\ ts_size st1 = ts_size st /\ trace v1 = trace v /\ modes_of v1 = modes_of v /\
     (forall x y, x < cw c -> y < ch c -> cells v1 (x, y) = display_of (cv_get (prev_frame s c) x y))).
  { unfold prev_frame. fold (same_size s c). destruct (same_size s c) eqn:Ess.
    - exists st, v. cbn. split; [reflexivity|]. split; [exact S|]. split; [reflexivity|]. split; [reflexivity|]. split; [reflexivity|].
      intros x y Hx Hy. apply (Hframe eq_refl).
      + unfold same_size in Ess. apply andb_prop in Ess as [E1 _]. apply N.eqb_eq in E1. lia.
      + unfold same_size in Ess. apply andb_prop in Ess as [_ E2]. apply N.eqb_eq in E2. lia.
    - pose proof (sync_erase cfg beh st v EDisplay S) as He. cbv zeta in He.
      destruct He as (S1 & Ht & Hmo & Hc & _ & _ & _ & _).
      rewrite <- (step_bytes cfg beh Huni st v (Erase EDisplay) S I) in S1, Ht, Hc, Hmo.
      eexists. eexists. cbn [map fold_left hstep]. split; [reflexivity|].
      split; [exact S1|]. split.
      { cbn [step]. unfold to_default_attribute. destruct (ts_last st); reflexivity. }
      split; [exact Ht|]. split; [exact Hmo|].
      intros x y Hx Hy. rewrite Hc. unfold region_blank. cbn [erase_region_of].
      rewrite blank_get. reflexivity. }
  destruct P1 as (st1 & v1 & E1 & S1 & Hs1 & Ht1 & Hmo1 & Hc1). rewrite E1.
  (* second phase: the changed cells *)
  pose proof (cells_run cfg beh Huni (changed_cells (prev_frame s c) c) st1 v1 S1) as H2.
  assert (Hall : forall pe, In pe (changed_cells (prev_frame s c) c) ->
            inside (fst pe) (ts_size st1) = true /\ wf_elem (snd pe) = true /\
            noscroll cfg (ts_size st1) (fst pe)).
  { intros pe Hin. destruct (in_changed _ _ _ Hin) as (Hx & Hy & He & Hne).
    rewrite Hs1, Hsz. split; [unfold inside; cbn [fst snd]; lia|].
    split; [rewrite He; apply Hwf; assumption|].
    unfold noscroll. destruct Hns as [Hw|Hbr]; [left; exact Hw|]. right. cbn [fst snd].
    intros [Hlx Hly].
    assert (fst (fst pe) = cw c - 1 /\ snd (fst pe) = ch c - 1) as [Ex Ey] by lia.
    rewrite He, Ex, Ey in Hne. congruence. }
  specialize (H2 Hall). cbv zeta in H2. unfold hrun in H2.
  destruct H2 as (S2 & Hs2 & Ht2 & Hc2 & Hmo2).
  split; [exact S2|]. split.
  - (* the display equals the canvas *)
    intros x y Hx Hy. rewrite Hc2.
    rewrite (upd_all_value (fun p => display_of (cv_get c (fst p) (snd p)))).
    + cbn [fst snd].
      destruct (existsb (fun pe => pt_eqb (x, y) (fst pe)) (changed_cells (prev_frame s c) c)) eqn:Ex; [reflexivity|].
      rewrite (Hc1 x y Hx Hy). apply element_eqb_display. apply not_changed; assumption.
    + intros pe Hin. destruct (in_changed _ _ _ Hin) as (_ & _ & He & _). rewrite He. reflexivity.
  - split; [reflexivity|]. split; [rewrite Hs2; exact Hs1|].
    split; [rewrite Ht2, Ht1; reflexivity|]. rewrite Hmo2. exact Hmo1.
Qed.

End DrawThm.
