(* Properties_C20.v — C20: an abstract key is reported only for input that encodes
   that key. *)
From TP Require Import Base Parser Proto P_Dec P_Parser P_Items Tie_Input Generated.
From Coq Require Import Lia.
Local Open Scope N_scope.

Definition abstract_key (k : N) : bool := existsb (N.eqb k) g_vk_abstract.

(* For every input stream, from every decoder state: a key token whose sequence
   is a single byte b is either Enter for a line ending (b = LF) or the key
   whose value is that byte, unmodified and unrepeated; a key token whose
   sequence is a control sequence names the key that sequence encodes
   (key_encoded: CSI A B C D H F I Z, CSI n ~, SS3 A B C D H F I M P Q R S). *)
Theorem C20_keys_only_from_their_encodings :
  forall bs s t, In t (snd (deliver s bs)) ->
    match t with
    | TKey k m r (KByte b) => (k = vk_enter /\ b = 10) \/ (k = b /\ m = 0 /\ r = 1%Z)
    | TKey k _ _ (KSeq c) => key_encoded c = Some k
    | _ => True
    end.
Proof. exact delivered_tokens_ok. Qed.
Print Assumptions C20_keys_only_from_their_encodings.

(* Hence a single byte outside the enumerators' range 0x80..0x96 is never
   reported as an abstract key.  The enumerator values are the ones the header
   defines now (Generated.v). *)
Theorem C20_except_known :
  forall bs s k m r b, In (TKey k m r (KByte b)) (snd (deliver s bs)) ->
    b < 128 \/ 150 < b -> (k = vk_enter /\ b = 10) \/ (k = b /\ abstract_key k = false).
Proof.
  intros bs s k m r b Hin Hb.
  destruct (delivered_tokens_ok bs s _ Hin) as [H|[H _]]; [left; exact H|].
  right. split; [exact H|]. subst k. unfold abstract_key.
  assert (Hg : g_vk_abstract = map N.of_nat (seq 128 23)) by (vm_compute; reflexivity).
  rewrite Hg. clear Hg.
  destruct (existsb (N.eqb b) (map N.of_nat (seq 128 23))) eqn:E; [|reflexivity].
  exfalso. apply existsb_exists in E as [x [Hx Hbx]]. apply in_map_iff in Hx as [n [Hn Hs]].
  apply in_seq in Hs. lia.
Qed.
Print Assumptions C20_except_known.

(* The statement WITHOUT the range restriction is false of the faithful model
   (known finding D3): the single byte 0x80 is reported as cursor_up. *)
Theorem C20_refuted_known :
  exists b, snd (deliver init_pstate [b]) = [TKey vk_cursor_up 0 1%Z (KByte b)] /\
            abstract_key vk_cursor_up = true.
Proof. exists 128. vm_compute. split; reflexivity. Qed.
Print Assumptions C20_refuted_known.

(* the 22 bytes of the known finding are exactly the abstract enumerators that a
   single idle byte can reach (0x8F and 0x9B start control sequences) *)
Theorem C20_known_bytes :
  filter (fun b => match snd (deliver init_pstate [b]) with
                   | [TKey k _ _ (KByte _)] => abstract_key k && negb (k =? vk_enter) || (abstract_key k && (b =? k))
                   | _ => false end)
         (map N.of_nat (seq 0 256))
  = [128;129;130;131;132;133;134;135;136;137;138;139;140;141;142;144;145;146;147;148;149;150].
Proof. vm_compute. reflexivity. Qed.
