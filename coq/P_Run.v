(* P_Run.v — histories: the invariant holds after every history of operations
   and size changes, at the level of the BYTES the model emits. *)
From TP Require Import Base Elem Term VT Oracle P_Dec P_VT P_Diff P_Sync P_Step P_Bytes.
From Coq Require Import ZArith Lia ZifyBool ZifyN.
Local Open Scope N_scope.

Section Run.
Variable cfg : vtcfg.
Variable beh : behaviour.
Hypothesis Huni : b_unicode_all beh = true -> unicode_all cfg = true.

Notation Sync := (Sync beh).

Definition obytes (st : tstate) (o : op) : list byte := render_all (snd (step beh st o)).

(* ---- bytes = abstract commands, per operation --------------------------------- *)
Lemma bytes_write_element st v e l :
  Sync st v -> ts_last st = Some l -> wf_elem_c e = true ->
  vt_bytes cfg v (render_all (snd (write_element beh st e))) =
  vt_execs cfg v (snd (write_element beh st e)).
Proof.
  intros S Hl Hwf. unfold write_element. rewrite Hl. cbn [snd].
  rewrite app_assoc, render_all_app, vt_bytes_app, vt_execs_app.
  destruct (ctls_exec cfg (change_charset beh (gcs (eg l)) (gcs (eg e)) ++ change_attribute (ea l) (ea e)) v
              (sy_lex _ _ _ S)) as [H1 H2].
  { rewrite forallb_app, ctl_change_charset, ctl_change_attribute. reflexivity. }
  rewrite H1. cbn [render_all flat_map render app vt_execs fold_left vt_exec].
  rewrite app_nil_r. reflexivity.
Qed.

Lemma bytes_write_elements : forall es st v,
  Sync st v -> ts_last st <> None -> forallb wf_elem_c es = true ->
  vt_bytes cfg v (render_all (snd (write_elements beh st es))) =
  vt_execs cfg v (snd (write_elements beh st es)).
Proof.
  induction es as [|e es IH]; intros st v S Hl Hwf; [reflexivity|].
  cbn [forallb] in Hwf. apply andb_prop in Hwf as [He Hes].
  destruct (ts_last st) as [l|] eqn:El; [|congruence].
  pose proof (bytes_write_element st v e l S El He) as Hb.
  pose proof (sync_write_element_c cfg beh Huni st v e l S El He) as H. cbv zeta in H.
  destruct H as [S1 _].
  cbn [write_elements].
  destruct (write_element beh st e) as [st1 c1] eqn:E1. cbn [fst snd] in *.
  assert (Hl1 : ts_last st1 <> None).
  { assert (st1 = fst (write_element beh st e)) by (rewrite E1; reflexivity).
    subst st1. unfold write_element. cbn [fst].
    destruct (advance_other (set_last st (Some e)) (eg e)) as (_ & Ala & _). rewrite Ala. cbn. discriminate. }
  specialize (IH st1 (vt_execs cfg v c1) S1 Hl1 Hes).
  destruct (write_elements beh st1 es) as [st2 c2] eqn:E2. cbn [fst snd] in *.
  rewrite render_all_app, vt_bytes_app, vt_execs_app, Hb. exact IH.
Qed.

Lemma write_elements_single st e :
  write_elements beh st [e] =
  (fst (write_element beh st e), snd (write_element beh st e) ++ []).
Proof. cbn [write_elements]. destruct (write_element beh st e); reflexivity. Qed.

Lemma step_bytes st v o :
  Sync st v -> wf_op st o ->
  vt_bytes cfg v (obytes st o) = vt_execs cfg v (snd (step beh st o)).
Proof.
  intros S Hwf. unfold obytes.
  pose proof (ctl_step beh st o) as Hctl.
  destruct o; cbn [wf_op] in Hwf;
    try (destruct (ctls_exec cfg _ v (sy_lex _ _ _ S) Hctl) as [H _]; exact H).
  - (* WElem *)
    cbn [step].
    pose proof (sync_oda cfg beh st v S) as Ho. cbv zeta in Ho.
    destruct Ho as (S1 & Hl1 & _).
    pose proof (ctl_oda st) as Hc.
    destruct (optional_default_attribute st) as [st1 c1] eqn:E1. cbn [fst snd] in *.
    destruct (ctls_exec cfg c1 v (sy_lex _ _ _ S) Hc) as [Hb1 _].
    destruct (ts_last st1) as [l1|] eqn:El1; [|congruence].
    pose proof (bytes_write_element st1 (vt_execs cfg v c1) e l1 S1 El1 Hwf) as Hb2.
    destruct (write_element beh st1 e) as [st2 c2] eqn:E2. cbn [fst snd] in *.
    rewrite render_all_app, vt_bytes_app, vt_execs_app, Hb1. exact Hb2.
  - (* WStr *)
    cbn [step].
    pose proof (sync_oda cfg beh st v S) as Ho. cbv zeta in Ho.
    destruct Ho as (S1 & Hl1 & _).
    pose proof (ctl_oda st) as Hc.
    destruct (optional_default_attribute st) as [st1 c1] eqn:E1. cbn [fst snd] in *.
    destruct (ctls_exec cfg c1 v (sy_lex _ _ _ S) Hc) as [Hb1 _].
    pose proof (bytes_write_elements s st1 (vt_execs cfg v c1) S1 Hl1 Hwf) as Hb2.
    destruct (write_elements beh st1 s) as [st2 c2] eqn:E2. cbn [fst snd] in *.
    rewrite render_all_app, vt_bytes_app, vt_execs_app, Hb1. exact Hb2.
  - (* WRaw *)
    destruct Hwf as [Hwf Hl]. cbn [step].
    destruct (ts_last st) as [l|] eqn:El; [|congruence].
    exact (bytes_write_element st v e l S El Hwf).
  - (* Title *)
    destruct (ctls_exec cfg _ v (sy_lex _ _ _ S) (Hctl Hwf)) as [H _]. exact H.
  - contradiction.
Qed.

(* ---- one operation: invariant + what it places on the terminal ------------------ *)
Definition op_elems (o : op) : list element :=
  match op_elements o with Some es => es | None => [] end.

Definition op_modes (v : vt) (o : op) :=
  match o with
  | Show => set_vis_modes v true
  | Hide => set_vis_modes v false
  | MouseOn => mouse_modes beh v true
  | MouseOff => mouse_modes beh v false
  | BufNormal => (vis v, m1000 v, m1003 v, false, title v)
  | BufAlt => (vis v, m1000 v, m1003 v, true, title v)
  | Title t => title_modes beh v t
  | _ => modes_of v
  end.

Theorem sync_step st v o :
  Sync st v -> wf_op st o ->
  let st' := fst (step beh st o) in
  let v' := vt_bytes cfg v (obytes st o) in
  Sync st' v' /\
  (exists tr, placed (fst (ts_size st)) (ts_cur st) (op_elems o) tr /\
              trace v' = rev tr ++ trace v) /\
  modes_of v' = op_modes v o.
Proof.
  intros S Hwf. cbv zeta. rewrite (step_bytes st v o S Hwf).
  destruct o; cbn [wf_op] in Hwf; unfold op_elems; cbn [op_elements op_modes].
  - (* WElem *)
    cbn [step].
    pose proof (sync_oda cfg beh st v S) as Ho. cbv zeta in Ho.
    destruct Ho as (S1 & Hl1 & Ht1 & Hm1 & _ & _ & _ & Hc1 & Hs1).
    destruct (optional_default_attribute st) as [st1 c1] eqn:E1. cbn [fst snd] in *.
    destruct (ts_last st1) as [l1|] eqn:El1; [|congruence].
    pose proof (sync_write_element_c cfg beh Huni st1 (vt_execs cfg v c1) e l1 S1 El1 Hwf) as H.
    cbv zeta in H. destruct H as (S2 & Hm & tr & Hpl & Htr).
    destruct (write_element beh st1 e) as [st2 c2] eqn:E2. cbn [fst snd] in *.
    rewrite vt_execs_app. split; [exact S2|]. split.
    + exists tr. split.
      * rewrite <- Hc1, <- Hs1. exact Hpl.
      * rewrite Htr, Ht1. reflexivity.
    + rewrite Hm. exact Hm1.
  - (* WStr *)
    cbn [step].
    pose proof (sync_oda cfg beh st v S) as Ho. cbv zeta in Ho.
    destruct Ho as (S1 & Hl1 & Ht1 & Hm1 & _ & _ & _ & Hc1 & Hs1).
    destruct (optional_default_attribute st) as [st1 c1] eqn:E1. cbn [fst snd] in *.
    pose proof (sync_write_elements cfg beh Huni s st1 (vt_execs cfg v c1) S1 Hl1 Hwf) as H.
    cbv zeta in H. destruct H as (S2 & Hm & _ & _ & tr & Hpl & Htr).
    destruct (write_elements beh st1 s) as [st2 c2] eqn:E2. cbn [fst snd] in *.
    rewrite vt_execs_app. split; [exact S2|]. split.
    + exists tr. split; [rewrite <- Hc1, <- Hs1; exact Hpl|]. rewrite Htr, Ht1. reflexivity.
    + rewrite Hm. exact Hm1.
  - (* WRaw *)
    destruct Hwf as [Hwf Hl]. cbn [step].
    destruct (ts_last st) as [l|] eqn:El; [|congruence].
    pose proof (sync_write_element_c cfg beh Huni st v e l S El Hwf) as H.
    cbv zeta in H. destruct H as (S2 & Hm & tr & Hpl & Htr).
    split; [exact S2|]. split; [|exact Hm].
    exists tr. split; [exact Hpl|exact Htr].
  - (* ODA *)
    pose proof (sync_oda cfg beh st v S) as Ho. cbv zeta in Ho.
    destruct Ho as (S1 & _ & Ht1 & Hm1 & _).
    split; [exact S1|]. split; [exists []; split; [constructor|exact Ht1]|exact Hm1].
  - (* Move *)
    pose proof (sync_move cfg beh st v p S Hwf) as H. cbv zeta in H.
    destruct H as (S1 & Ht & Hm & _).
    split; [exact S1|]. split; [exists []; split; [constructor|exact Ht]|exact Hm].
  - pose proof (sync_save cfg beh st v S) as H. cbv zeta in H. destruct H as (S1 & Ht & Hm).
    split; [exact S1|]. split; [exists []; split; [constructor|exact Ht]|exact Hm].
  - pose proof (sync_restore cfg beh st v S) as H. cbv zeta in H. destruct H as (S1 & Ht & Hm).
    split; [exact S1|]. split; [exists []; split; [constructor|exact Ht]|exact Hm].
  - pose proof (sync_erase cfg beh st v k S) as H. cbv zeta in H. destruct H as (S1 & Ht & Hm & _).
    split; [exact S1|]. split; [exists []; split; [constructor|exact Ht]|exact Hm].
  - pose proof (sync_show_hide cfg beh st v true S) as H. cbv zeta in H. destruct H as (S1 & Ht & Hm & _).
    split; [exact S1|]. split; [exists []; split; [constructor|exact Ht]|exact Hm].
  - pose proof (sync_show_hide cfg beh st v false S) as H. cbv zeta in H. destruct H as (S1 & Ht & Hm & _).
    split; [exact S1|]. split; [exists []; split; [constructor|exact Ht]|exact Hm].
  - pose proof (sync_mouse cfg beh st v true S) as H. cbv zeta in H. destruct H as (S1 & Ht & Hm & _).
    split; [exact S1|]. split; [exists []; split; [constructor|exact Ht]|exact Hm].
  - pose proof (sync_mouse cfg beh st v false S) as H. cbv zeta in H. destruct H as (S1 & Ht & Hm & _).
    split; [exact S1|]. split; [exists []; split; [constructor|exact Ht]|exact Hm].
  - pose proof (sync_buf cfg beh st v false S) as H. cbv zeta in H. destruct H as (S1 & Ht & Hm).
    split; [exact S1|]. split; [exists []; split; [constructor|exact Ht]|exact Hm].
  - pose proof (sync_buf cfg beh st v true S) as H. cbv zeta in H. destruct H as (S1 & Ht & Hm).
    split; [exact S1|]. split; [exists []; split; [constructor|exact Ht]|exact Hm].
  - pose proof (sync_title cfg beh st v t S) as H. cbv zeta in H. destruct H as (S1 & Ht & Hm & _).
    split; [exact S1|]. split; [exists []; split; [constructor|exact Ht]|exact Hm].
  - contradiction.
Qed.

(* ---- size changes ----------------------------------------------------------------- *)
Lemma sync_resize st v sz adopt :
  Sync st v ->
  Sync (fst (step beh st (SetSize sz))) (vt_resize v sz adopt) /\
  trace (vt_resize v sz adopt) = trace v /\ modes_of (vt_resize v sz adopt) = modes_of v.
Proof.
  intros S. destruct S as [Slex Smal Sunk Ssize Scs Srend Scur Ssaved Svis].
  cbn [step fst]. split; [|split; reflexivity].
  constructor; cbn; try assumption; try discriminate; reflexivity.
Qed.

(* ---- histories ------------------------------------------------------------------------ *)
Inductive hop := HOp (o : op) | HResize (sz adopt : pt).

Definition hop_op (x : hop) : op :=
  match x with HOp o => o | HResize sz _ => SetSize sz end.

(* belief and terminal after one history step; the terminal interprets the
   BYTES written by the step, and on a size change adopts the new size and
   some cursor position *)
Definition hstep (sv : tstate * vt) (x : hop) : tstate * vt :=
  let '(st, v) := sv in
  match x with
  | HOp o => (fst (step beh st o), vt_bytes cfg v (obytes st o))
  | HResize sz a => (fst (step beh st (SetSize sz)), vt_resize v sz a)
  end.

Definition hrun (st : tstate) (v : vt) (h : list hop) : tstate * vt :=
  fold_left hstep h (st, v).

Fixpoint wf_hist (st : tstate) (h : list hop) : Prop :=
  match h with
  | [] => True
  | x :: r =>
      match x with HOp o => wf_op st o | HResize _ _ => True end /\
      wf_hist (fst (step beh st (hop_op x))) r
  end.

Definition hist_elems (h : list hop) : list element :=
  flat_map (fun x => match x with HOp o => op_elems o | HResize _ _ => [] end) h.

Lemma placed_cells w c es tr : placed w c es tr -> map snd tr = map display_of (visible es).
Proof.
  induction 1 as [|c e es q tr Hc Hq Hrest IH|c e es tr Hc Hrest IH]; unfold visible in *; cbn [map snd filter].
  - reflexivity.
  - rewrite Hc. cbn [negb map]. f_equal. exact IH.
  - rewrite Hc. cbn [negb]. exact IH.
Qed.

Lemma visible_app a b : visible (a ++ b) = visible a ++ visible b.
Proof. unfold visible. apply filter_app. Qed.

Theorem sync_hrun : forall h st v,
  Sync st v -> wf_hist st h ->
  Sync (fst (hrun st v h)) (snd (hrun st v h)) /\
  map snd (trace (snd (hrun st v h))) =
    rev (map display_of (visible (hist_elems h))) ++ map snd (trace v).
Proof.
  induction h as [|x r IH]; intros st v S Hwf.
  - cbn. split; [exact S|reflexivity].
  - cbn [wf_hist] in Hwf. destruct Hwf as [Hx Hr].
    unfold hrun. cbn [fold_left hstep].
    destruct x as [o|sz a]; cbn [hop_op] in Hr.
    + pose proof (sync_step st v o S Hx) as H. cbv zeta in H.
      destruct H as (S1 & (tr & Hpl & Htr) & _).
      specialize (IH _ _ S1 Hr). unfold hrun in IH. destruct IH as [IH1 IH2].
      split; [exact IH1|]. rewrite IH2, Htr.
      change (hist_elems (HOp o :: r)) with (op_elems o ++ hist_elems r).
      rewrite visible_app, !map_app, rev_app_distr, map_rev.
      rewrite (placed_cells _ _ _ _ Hpl). rewrite <- app_assoc. reflexivity.
    + destruct (sync_resize st v sz a S) as (S1 & Ht & _).
      specialize (IH _ _ S1 Hr). unfold hrun in IH. destruct IH as [IH1 IH2].
      split; [exact IH1|]. rewrite IH2, Ht. reflexivity.
Qed.

End Run.

(* ---- initial states -------------------------------------------------------------------- *)
(* what is assumed of the terminal when output begins: it is at rest (not in
   the middle of a control function) with G0 = ASCII and UTF-8 mode off, and the
   library has not been told a size.  Rendition, cursor, saved cursor,
   visibility, mouse modes, buffer, title and cell contents are arbitrary. *)
Definition vt0_ok (v0 : vt) : Prop :=
  lex v0 = Ground /\ malformed v0 = false /\ unknown v0 = false /\
  vsize v0 = (0, 0) /\ utf8 v0 = false /\ g0cs v0 = CsAscii.

Lemma sync_init beh v0 : vt0_ok v0 -> Sync beh init_tstate v0.
Proof.
  intros (H1 & H2 & H3 & H4 & H5 & H6).
  constructor; cbn; try assumption; try discriminate.
  - symmetry; exact H4.
  - unfold cs_ok. cbn. split; assumption.
Qed.
