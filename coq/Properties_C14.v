(* Properties_C14.v — C14 (PARTIAL): the stdout channel delivers every byte to
   standard output, unchanged, in order.
   The model of stdout_channel::write is "append the span to the process's
   standard output".  Proved: appending is a byte-exact, order-preserving
   homomorphism, so what the channel has received after any history of terminal
   operations is the concatenation of the bytes of the operations - the same
   for every channel.  NOT provable here: that the real stdout_channel and the
   OS deliver the bytes; that half is observed by running a child process linked
   against the real stdout_channel with its stdout on a pipe and comparing the
   pipe's content, byte for byte, with the model and with a capturing channel
   given the same operations. *)
From TP Require Import Base Elem Term P_Bytes.
Local Open Scope N_scope.

Definition chan_write (out chunk : list byte) : list byte := out ++ chunk.

Theorem C14_channel_hom :
  forall chunks out, fold_left chan_write chunks out = out ++ concat chunks.
Proof.
  induction chunks as [|c r IH]; intros out; cbn [fold_left concat].
  - rewrite app_nil_r. reflexivity.
  - rewrite IH. unfold chan_write. rewrite app_assoc. reflexivity.
Qed.
Print Assumptions C14_channel_hom.

(* the bytes of a history of operations, written operation by operation to an
   appending channel, are the bytes of the whole run: nothing is dropped,
   duplicated or reordered, for all byte values *)
Fixpoint op_chunks (beh : behaviour) (st : tstate) (h : list op) : list (list byte) :=
  match h with
  | [] => []
  | o :: r => render_all (snd (step beh st o)) :: op_chunks beh (fst (step beh st o)) r
  end.

Theorem C14_same_as_any_channel :
  forall beh h st,
    fold_left chan_write (op_chunks beh st h) [] = render_all (snd (run beh st h)).
Proof.
  intros beh h st. rewrite C14_channel_hom. cbn [app].
  revert st. induction h as [|o r IH]; intros st; [reflexivity|].
  cbn [op_chunks concat run]. destruct (step beh st o) as [st1 c1]. cbn [fst snd].
  specialize (IH st1). destruct (run beh st1 r) as [st2 c2]. cbn [snd] in *.
  rewrite render_all_app, IH. reflexivity.
Qed.
Print Assumptions C14_same_as_any_channel.
