(* Properties_C13.v — C13: state diffing never re-sends what is already in
   effect. *)
From TP Require Import Base Elem Term VT Oracle P_Diff P_Sync P_Step P_Bytes P_Run P_Props Tie_Output.
Local Open Scope N_scope.

(* an element whose attributes and character set are the ones in effect (as
   left by the previous write or erase) transmits only the glyph's bytes -
   through operator<< and as a bare write_element manipulator *)
Theorem C13_same_rendition :
  forall beh st l e,
    ts_last st = Some l -> attr_eqb (ea l) (ea e) = true ->
    cs_eqb (gcs (eg l)) (gcs (eg e)) = true ->
    obytes beh st (WElem e) = wire (eg e) /\ obytes beh st (WRaw e) = wire (eg e).
Proof.
  intros beh st l e Hl Ha Hc. unfold obytes. cbn [step].
  unfold optional_default_attribute, write_element. rewrite Hl. cbn [fst snd app ts_last].
  rewrite Hl. unfold change_charset, change_attribute. rewrite Hc, Ha.
  cbn [app render_all flat_map render]. rewrite app_nil_r. split; reflexivity.
Qed.
Print Assumptions C13_same_rendition.

(* "already in effect on the terminal": under the invariant the belief is the
   terminal's rendition, and the write leaves it untouched *)
Theorem C13_in_effect_on_terminal :
  forall cfg beh, (b_unicode_all beh = true -> unicode_all cfg = true) ->
  forall st v l, Sync beh st v -> ts_last st = Some l ->
    rend v = rend_of (ea l) /\ cs_ok beh (gcs (eg l)) v.
Proof.
  intros cfg beh Huni st v l S Hl. split; [exact (sy_rend _ _ _ S l Hl)|].
  pose proof (sy_cs _ _ _ S) as H. unfold last_cs in H. rewrite Hl in H. exact H.
Qed.

(* after an erase, default-attribute text in the same character set is sent bare *)
Theorem C13_after_erase :
  forall beh st k l e,
    ts_last (fst (step beh st (Erase k))) = Some l ->
    attr_eqb default_attr (ea e) = true -> cs_eqb (gcs (eg l)) (gcs (eg e)) = true ->
    obytes beh (fst (step beh st (Erase k))) (WElem e) = wire (eg e).
Proof.
  intros beh st k l e Hl Ha Hc.
  destruct (C13_same_rendition beh (fst (step beh st (Erase k))) l e Hl) as [H _]; [|exact Hc|exact H].
  revert Hl. cbn [step]. unfold to_default_attribute.
  destruct (ts_last st) as [l0|]; cbn; intros Hl; inversion Hl; subst; exact Ha.
Qed.

Theorem C13_same_position :
  forall beh st p, ts_cur st = Some p -> obytes beh st (Move p) = [].
Proof.
  intros beh st p Hc. unfold obytes. cbn [step]. unfold move_cursor. rewrite Hc. cbn [snd].
  assert (pt_eqb p p = true) as ->.
  { unfold pt_eqb. rewrite !N.eqb_refl. reflexivity. }
  reflexivity.
Qed.
Print Assumptions C13_same_position.

Theorem C13_same_visibility :
  forall beh st,
    (ts_vis st = Some true -> obytes beh st Show = []) /\
    (ts_vis st = Some false -> obytes beh st Hide = []).
Proof.
  intros beh st. unfold obytes. cbn [step]. unfold show_hide. cbn [snd].
  split; intros ->; reflexivity.
Qed.
Print Assumptions C13_same_visibility.

Example C13_nonvacuous :
  let e := mkElem (mkGlyph CsDec 113 0 0) (mkAttr (CLow 1) (CHigh 100) IBold true false true) in
  obytes (mkBeh false false false false false) (mkTs (4, 2) (Some e) (Some (1, 1)) None None) (WElem e) = [113].
Proof. reflexivity. Qed.
