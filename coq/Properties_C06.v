(* Properties_C06.v — C06: the token stream is independent of how input bytes
   are split across reads. *)
From TP Require Import Base Parser P_Parser Tie_Input.
Local Open Scope N_scope.

(* For every byte stream, every decoder state and every way of cutting the
   stream into deliveries (empty deliveries included): the concatenation of
   the token lists handed to the callbacks equals the tokens of the whole
   stream delivered at once, the decoder ends in the same state, and there is
   exactly one callback invocation per delivery. *)
Theorem C06_chunking :
  forall chunks s,
    concat (snd (deliver_all s chunks)) = snd (deliver s (concat chunks)) /\
    fst (deliver_all s chunks) = fst (deliver s (concat chunks)).
Proof. intros chunks s. destruct (deliver_all_concat chunks s) as (H1 & H2 & _). split; assumption. Qed.
Print Assumptions C06_chunking.

Theorem C06_one_callback_per_delivery :
  forall chunks s, length (snd (deliver_all s chunks)) = length chunks.
Proof. intros chunks s. destruct (deliver_all_concat chunks s) as (_ & _ & H). exact H. Qed.
Print Assumptions C06_one_callback_per_delivery.

Example C06_nonvacuous :
  snd (deliver_all init_pstate [[27]; []; [91; 49]; [59; 50; 65; 13]; [10; 97]]) =
  [[]; []; []; [TKey vk_cursor_up 1 1%Z (KSeq (mkCseq 91 65 false [[49]; [50]] 0)); enter_token];
   [TKey 97 0 1%Z (KByte 97)]].
Proof. vm_compute. reflexivity. Qed.
