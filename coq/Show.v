(* Show.v — model of the stream insertion operators (operator<<(std::ostream&, T))
   of colour.cpp, effect.cpp, attribute.cpp, character_set.cpp, glyph.cpp,
   element.cpp, string.cpp, point.cpp, extent.cpp, rectangle.cpp: the text a
   value is shown as.  Each is a function of the value alone; a sequence of
   insertions into one stream is the concatenation of the texts.
   Definitions only. *)
From TP Require Export Elem Order.
From Coq Require String Ascii.
Local Open Scope N_scope.
Import String.StringSyntax.
Delimit Scope string_scope with string.

Definition txt (s : String.string) : list byte :=
  map Ascii.N_of_ascii (String.list_ascii_of_string s).
Arguments txt s%string.

Definition hex_digit (d : N) : byte := if d <? 10 then 48 + d else 55 + d.   (* upper case *)

Fixpoint hex_aux (fuel : nat) (n : N) (acc : list byte) : list byte :=
  match fuel with
  | O => acc
  | S f => let acc' := hex_digit (n mod 16) :: acc in
           if n / 16 =? 0 then acc' else hex_aux f (n / 16) acc'
  end.
Definition show_hex (n : N) : list byte := hex_aux (S (N.to_nat (N.log2 n))) n [].

Definition pad_left (width : nat) (c : byte) (s : list byte) : list byte :=
  (repeat c (width - length s)) ++ s.

Definition show_Z (z : Z) : list byte :=
  match z with
  | Z0 => [48]
  | Zpos p => show_N (Npos p)
  | Zneg p => 45 :: show_N (Npos p)
  end.

(* ---- colours ------------------------------------------------------------------ *)
Definition show_low (v : N) : list byte :=
  match v with
  | 0 => txt "black" | 1 => txt "red" | 2 => txt "green" | 3 => txt "yellow"
  | 4 => txt "blue" | 5 => txt "magenta" | 6 => txt "cyan" | 7 => txt "white"
  | 9 => txt "default"
  | _ => txt "unknown"
  end.

Definition show_high (v : N) : list byte :=
  35 :: show_N (high_red v) ++ show_N (high_green v) ++ show_N (high_blue v).

Definition show_grey (v : N) : list byte :=
  35 :: pad_left 2 48 (show_N (grey_component v)).

Definition show_true (r g b : N) : list byte :=
  35 :: pad_left 2 48 (show_hex r) ++ pad_left 2 48 (show_hex g) ++ pad_left 2 48 (show_hex b).

Definition show_colour (c : colour) : list byte :=
  match c with
  | CLow v => show_low v
  | CHigh v => show_high v
  | CGrey v => show_grey v
  | CTrue r g b => show_true r g b
  end.

(* ---- effects and attribute ------------------------------------------------------- *)
Definition show_intensity (i : intensity) : list byte :=
  match i with INormal => txt "normal" | IBold => txt "bold" | IFaint => txt "faint" end.
Definition show_underlining (u : bool) : list byte :=
  if u then txt "underlined" else txt "not underlined".
Definition show_polarity (negative : bool) : list byte :=
  if negative then txt "negative" else txt "positive".
Definition show_blinking (b : bool) : list byte :=
  if b then txt "blinking" else txt "steady".

Definition show_attr (a : attr) : list byte :=
  intercalate [44]
    ((if colour_eqb (fg a) default_colour then [] else [txt "foreground[" ++ show_colour (fg a) ++ [93]]) ++
     (if colour_eqb (bg a) default_colour then [] else [txt "background[" ++ show_colour (bg a) ++ [93]]) ++
     (if inten_eqb (inten a) INormal then [] else [show_intensity (inten a)]) ++
     (if ul a then [show_underlining true] else []) ++
     (if neg a then [show_polarity true] else []) ++
     (if blink a then [show_blinking true] else [])).

(* ---- character sets and glyphs ------------------------------------------------------ *)
Definition show_cs (c : charset) : list byte :=
  match c with
  | CsDec => txt "dec" | CsDecSup => txt "dec+" | CsDecSupGr => txt "dec+gr"
  | CsDecTech => txt "dectec" | CsUk => txt "en_uk" | CsAscii => txt "en_us"
  | CsDutch => txt "nl" | CsFinnish => txt "fi" | CsFrench => txt "fr"
  | CsFrenchCa => txt "fr_ca" | CsGerman => txt "de" | CsItalian => txt "it"
  | CsDanish => txt "da" | CsPortuguese => txt "pt" | CsSpanish => txt "es"
  | CsSwedish => txt "su" | CsSwiss => txt "de_ch" | CsSco => txt "sco"
  | CsUtf8 => txt "u"
  end.

(* is_printable: four tables (dec is the default for every other set) *)
Definition is_printable (g : glyph) : bool :=
  let b := g0 g in
  let low := (b =? 10) || ((32 <=? b) && (b <=? 126)) in
  let high := (160 <=? b) && (b <=? 254) in
  match gcs g with
  | CsAscii => low
  | _ => low || high
  end.

Definition show_cs_and_char (g : glyph) : list byte :=
  (if cs_eqb (gcs g) CsAscii then [] else show_cs (gcs g) ++ [58]) ++
  (if g0 g =? 13 then txt "\r"
   else if g0 g =? 10 then txt "\n"
   else if g0 g =? 9 then txt "\t"
   else if is_printable g then [g0 g]
   else txt "0x" ++ pad_left 2 48 (show_hex (g0 g))).

Definition utf8_decode (g : glyph) : N :=
  let b0 := g0 g in
  if b0 <? 128 then b0
  else if (192 <=? b0) && (b0 <? 224) then (b0 mod 32) * 64 + (g1 g mod 64)
  else if (224 <=? b0) && (b0 <? 240) then (b0 mod 16) * 4096 + (g1 g mod 64) * 64 + (g2 g mod 64)
  else 0.

Definition show_glyph (g : glyph) : list byte :=
  if cs_eqb (gcs g) CsUtf8 then
    if g0 g <=? 127 then show_cs_and_char g
    else txt "U+" ++ pad_left 4 48 (show_hex (utf8_decode g))
  else show_cs_and_char g.

Definition show_element (e : element) : list byte :=
  txt "glyph[" ++ show_glyph (eg e) ++ [93] ++
  (if attr_eqb (ea e) default_attr then [] else txt ",attribute[" ++ show_attr (ea e) ++ [93]).

Definition show_string (s : list element) : list byte :=
  intercalate [44] (map (fun e => txt "element[" ++ show_element e ++ [93]) s).

(* ---- geometry ------------------------------------------------------------------------ *)
Definition show_point (p : zpt) : list byte :=
  txt "point(" ++ show_Z (fst p) ++ [44] ++ show_Z (snd p) ++ [41].
Definition show_extent (p : zpt) : list byte :=
  txt "extent(" ++ show_Z (fst p) ++ [44] ++ show_Z (snd p) ++ [41].
Definition show_rect (r : zpt * zpt) : list byte :=
  txt "rectangle(" ++ show_point (fst r) ++ txt ", " ++ show_extent (snd r) ++ [41].

(* ---- a sequence of insertions into one stream ----------------------------------------- *)
Inductive shown_value :=
| SvColour (c : colour) | SvAttr (a : attr) | SvCs (c : charset) | SvGlyph (g : glyph)
| SvElem (e : element) | SvStr (s : list element)
| SvPoint (p : zpt) | SvExtent (p : zpt) | SvRect (r : zpt * zpt).

Definition show_value (v : shown_value) : list byte :=
  match v with
  | SvColour c => show_colour c | SvAttr a => show_attr a | SvCs c => show_cs c
  | SvGlyph g => show_glyph g | SvElem e => show_element e | SvStr s => show_string s
  | SvPoint p => show_point p | SvExtent p => show_extent p | SvRect r => show_rect r
  end.

(* every value is followed by a newline, as the harness writes them *)
Definition show_stream (vs : list shown_value) : list byte :=
  flat_map (fun v => show_value v ++ [10]) vs.
