(* Extract.v — extraction of the executable model, reference terminal and
   oracles to OCaml.  Only ExtrOcamlBasic is used: bool, option, unit, list,
   prod, sumbool map to OCaml's; N, Z, positive, nat stay inductive. *)
From Coq Require Extraction.
From Coq Require ExtrOcamlBasic.
From TP Require Import Base Elem Term Screen VT Parser Markup Order Oracle Proto Show Strings.

Extraction Language OCaml.
Extraction "extracted/model.ml"
  show_N
  cs_of_index cs_index lookup_cs encode_cs std_lookup std_designator all_charsets
  glyph_eqb glyph_ltb glyph_cmp glyph_hash_key cs_cmp cs_eqb
  colour_eqb colour_cmp colour_key attr_eqb attr_cmp attr_hash_key
  element_eqb element_cmp element_hash_key string_eqb string_cmp string_hash_key keys_eqb
  point_cmp point_eqb extent_cmp rect_cmp rect_eqb cseq_cmp cseq_eqb
  vkey_cmp vkey_eqb mouse_cmp mouse_eqb
  encode_high high_red high_green high_blue encode_grey grey_component
  init_tstate step run render_all
  blank_canvas cv_get cv_set cv_resize region_visit init_screen draw draw_ops
  init_pstate pstep feed deliver deliver_all well_known
  encode ete to_string of_bytes parse_element
  vt_bytes vt_resize vt0_clean vt0_junk adopt_keep adopt_corner adopt_home
  oracle_run oracle_step wf_op_b wf_elem wf_title displayable
  digit10 digit16 mstep
  enc tok wf_item adjacency_ok enc_all
  show_stream
  s_of_cstr s_of_bytes s_of_bytes_attr s_fill s_of_elems s_append_elem s_append s_insert s_insert_range
  s_erase_all s_erase_from s_erase_range s_set
  glyph_of_cstr glyph_of_array glyph_of_char.
