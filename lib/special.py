"""Checks whose tie to the implementation needs more than the generic
script-diff engine: C12 (independence of objects, threads, statics) and C14
(the real stdout_channel in a child process)."""
import json, os, re, subprocess, sys, time, glob, shutil

import vbuild, gen
import vcheck as vc

VERIF = vbuild.VERIF


def build_statics():
    """plain build of the library + source scan -> coq/GeneratedStatics.v"""
    exe, secs, err = vbuild.build_impl("plain")
    if err:
        return "the library does not build: " + err[:3000]
    objdir = os.path.dirname(exe)
    r = subprocess.run([sys.executable, os.path.join(VERIF, "gen", "statics.py"), objdir],
                       stdout=subprocess.PIPE, stderr=subprocess.PIPE, text=True)
    if r.returncode != 0:
        return "gen/statics.py failed: " + r.stderr[-2000:]
    target = os.path.join(VERIF, "coq", "GeneratedStatics.v")
    old = open(target).read() if os.path.exists(target) else None
    if old != r.stdout:
        with open(target, "w") as fh:
            fh.write(r.stdout)
    return None


def blocks_by_object(lines):
    """-> {(case, kind, id): [block text]} where a block is an op line plus its
    observation lines"""
    out = {}
    case = None
    cur = None
    for l in lines:
        if l.startswith("> CASE"):
            case = l.split()[2]
            cur = None
        elif l.startswith("> "):
            t = l[2:].split()
            if len(t) >= 3 and t[0] in ("T", "K", "P", "S"):
                key = (case, t[0], t[1])
                cur = out.setdefault(key, [])
                cur.append([" ".join([t[0], "#"] + t[2:])])
            else:
                cur = None
        elif cur is not None and l:
            cur[-1].append(l)
    return out


def relabel(line, new_id):
    t = line.split()
    t[1] = str(new_id)
    return " ".join(t)


def c12_scripts(seed, n):
    """n groups; each group has k solo histories and one interleaving of them"""
    r = gen.Rng(gen.family_seed(seed, "multi"))
    solo, inter = [], []
    cid = 0
    for g in range(n):
        k = r.rng(2, 4)
        hists = []
        for j in range(k):
            kind = r.below(4)
            if kind == 3:
                # cursor movement along rows and columns under varying capability flags
                w, h = r.rng(2, 9), r.rng(2, 5)
                ls = ["T 0 new %d" % (r.below(128) | (r.below(32) << 7)), "T 0 size %d %d" % (w, h)]
                y = r.below(h)
                for _ in range(r.rng(2, 8)):
                    c = r.below(4)
                    if c == 0:
                        y = r.below(h)
                    x = 0 if r.chance(1, 3) else r.below(w)
                    ls.append("T 0 move %d %d" % (x, y))
                    if r.chance(1, 3):
                        ls.append("T 0 elem " + gen.el(gen.wf_glyph(r), gen.wf_attr(r)))
            elif kind == 0:
                ls = gen.gen_term_case(r, 0, wild=r.chance(1, 4))[1:-1]
            elif kind == 1 and r.chance(1, 2):
                ls = ["T 0 new 0", "T 0 arm"] + ["T 0 recv " + gen.hexs(gen.wild_bytes(r, r.rng(0, 6))) for _ in range(r.rng(1, 6))]
            elif kind == 1:
                # key sequences with parameters, cut into small deliveries: state
                # held between deliveries while other objects run
                bs = []
                for _ in range(r.rng(1, 3)):
                    bs += [27, 91] + [ord(c) for c in "%d;%d" % (r.pick(gen.KEYPAD), r.rng(2, 8))] + [126]
                    if r.chance(1, 2):
                        bs += gen.frag_bytes(r)
                ls = ["T 0 new 0", "T 0 arm"]
                i = 0
                while i < len(bs):
                    step = r.rng(1, 3)
                    ls.append("T 0 recv " + gen.hexs(bs[i:i + step]))
                    i += step
            else:
                ls = gen.gen_screen_case(r, 0)[1:-1]
                # screens/canvases of this history get the same id as its terminal
            hists.append(ls)
        if r.chance(1, 3):
            # the same operations on terminals that differ only in their declared
            # behaviour: what one does must not leak into the other
            base = next((h for h in hists if h and h[0].startswith("T 0 new")), None)
            if base is not None:
                hists = []
                for j in range(k):
                    m = (r.below(128) | (r.below(32) << 7)) if j else int(base[0].split()[3])
                    if j == 1:
                        m = int(base[0].split()[3]) ^ (1 << r.pick([0, 1, 7, 8, 9, 10, 11, 11, 11]))
                    hists.append(["T 0 new %d" % m] + base[1:])
        obj = None
        if r.chance(1, 4):
            # one manipulator object streamed to all the terminals of the group
            obj = r.pick(["O 7 title 6869", "O 7 title c39c", "O 7 move 0 0", "O 7 hide", "O 7 mouse 1", "O 7 erase"])
            hists = [h + (["T 0 use 7"] if h and h[0].startswith("T 0 new") and not (obj.startswith("O 7 move") and not any(l.startswith("T 0 size") for l in h)) else []) for h in hists]
        cid += 1
        group_id = cid
        # solo runs: one CASE per history, ids relabelled to j
        for j, ls in enumerate(hists):
            solo.append("CASE %d.%d" % (group_id, j))
            if obj:
                solo.append(obj)
            for l in ls:
                solo.append(relabel_all(l, j))
            solo.append("END")
        # interleaved: creation order preserved per history, random merge
        idx = [0] * k
        inter.append("CASE %d" % group_id)
        if obj:
            inter.append(obj)
        remaining = sum(len(h) for h in hists)
        while remaining:
            j = r.below(k)
            if idx[j] < len(hists[j]):
                inter.append(relabel_all(hists[j][idx[j]], j))
                idx[j] += 1
                remaining -= 1
        inter.append("END")
    return solo, inter


def relabel_all(line, j):
    """give every object of history j the id j (terminal, screen, canvas)"""
    t = line.split()
    if t[0] == "O" and t[1] == "8":
        t[1] = "8%d" % j              # a history's own manipulator object
    elif t[0] == "T" and len(t) > 3 and t[2] == "use" and t[3] == "8":
        t[1], t[3] = str(j), "8%d" % j
    elif t[0] in ("T", "K", "P"):
        t[1] = str(j)
    elif t[0] == "S":
        t[1] = str(j)
        if t[2] == "new":
            t[3] = str(j)
        elif t[2] == "draw":
            t[3] = str(j)
    return " ".join(t)


def run_c12(pid, tier, seed, ctx, P):
    """returns (fails, stats) ; fails: list of (why, script lines)"""
    fails = []
    stats = {"groups": 0, "objects": 0, "thread_cases": 0, "tsan": False}
    escalate = getattr(ctx, "escalate", False)
    n = 150 if tier == "quick" else 1500
    seeds = [seed] if tier == "quick" else [seed + i for i in range(3)]
    if escalate and tier == "quick":
        n, seeds = 400, [seed, seed + 101]
    for sd in seeds:
        solo, inter = c12_scripts(sd, n)
        rs = vc.run_script(ctx, "multi-solo-%d" % sd, solo, want_oracle=False, want_model=True)
        ri = vc.run_script(ctx, "multi-inter-%d" % sd, inter, want_oracle=False, want_model=True)
        if rs["mismatches"] or ri["mismatches"]:
            m = (rs["mismatches"] + ri["mismatches"])[0]
            fails.append(("TIE: model and implementation differ: case %s line %d: impl [%s] model [%s]" % m, []))
        bs = blocks_by_object(rs["impl_lines"])
        bi = blocks_by_object(ri["impl_lines"])
        stats["groups"] += n
        icases, _ = vc.split_cases(inter)
        for (case, kind, oid), blocks in bi.items():
            stats["objects"] += 1
            want = bs.get(("%s.%s" % (case, oid), kind, oid))
            if want != blocks:
                k = next((i for i in range(max(len(blocks), len(want or []))) if i >= len(blocks) or want is None or i >= len(want) or blocks[i] != want[i]), 0)
                fails.append(("object %s%s of group %s behaves differently when its operations are interleaved with those of other objects: step %d: interleaved %s / alone %s" % (
                    kind, oid, case, k, blocks[k] if k < len(blocks) else None, (want or [None])[k] if want and k < len(want) else None), icases.get(case, [])))
                break
        # the same solo cases in the opposite order, in a fresh process: what an object
        # does must not depend on which other objects were used before it
        scases, sorder = vc.split_cases(solo)
        orders = [list(reversed(sorder))]
        pr = gen.Rng(gen.family_seed(sd, "orders"))
        for _ in range(8 if escalate or tier != "quick" else 1):
            o = list(sorder)
            for i in range(len(o) - 1, 0, -1):
                j = pr.below(i + 1)
                o[i], o[j] = o[j], o[i]
            orders.append(o)
        for oi, order in enumerate(orders):
          if any(not w.startswith("TIE:") for (w, _l) in fails):
            break
          rev = []
          for c in order:
            rev += scases[c]
          rr = vc.run_script(ctx, "multi-solo-order%d-%d" % (oi, sd), rev, want_oracle=False, want_model=False)
          br = blocks_by_object(rr["impl_lines"])
          for key, blocks in bs.items():
            if br.get(key) != blocks:
                  other = br.get(key) or []
                  k = next((i for i in range(max(len(blocks), len(other))) if i >= len(blocks) or i >= len(other) or blocks[i] != other[i]), 0)
                  case = key[0]
                  before_fwd = [l for c in order[:order.index(case)] for l in scases[c]][-60:]
                  fails.append(("object %s%s of case %s behaves differently depending on which objects were used earlier in the process: step %d: after cases %s.. [%s] / after the later cases [%s]" % (
                      key[1], key[2], case, k, sorder[0], blocks[k] if k < len(blocks) else None, other[k] if k < len(other) else None),
                      before_fwd + scases[case]))
                  break
        # the same solo cases, each on its own thread, all concurrently
        for kind in (["asan"] if tier == "quick" and not escalate else ["asan", "tsan"]):
            if fails:
                break
            if kind not in ctx.impl:
                exe, secs, err = vbuild.build_impl(kind)
                if err:
                    fails.append(("the %s build of the library fails: %s" % (kind, err[:1500]), []))
                    continue
                ctx.impl[kind] = exe
            stats["tsan"] = stats["tsan"] or kind == "tsan"
            rt = vc.run_script(ctx, "multi-threads-%s-%d" % (kind, sd), solo, kind=kind, impl_mode="threads",
                               want_oracle=False, want_model=False)
            stats["thread_cases"] += len(vc.split_cases(solo)[1])
            if rt["impl_rc"] != 0:
                fails.append(("running the objects concurrently on threads stopped the %s build (exit %s): %s" % (kind, rt["impl_rc"], rt["impl_err"][-2500:]), solo[:40]))
            elif [l for l in rt["impl_lines"] if l] != [l for l in rs["impl_lines"] if l]:
                a, b = [l for l in rt["impl_lines"] if l], [l for l in rs["impl_lines"] if l]
                k = next((i for i in range(max(len(a), len(b))) if i >= len(a) or i >= len(b) or a[i] != b[i]), 0)
                fails.append(("an object run on its own thread concurrently with others produced different observations than alone: line %d: threaded [%s] alone [%s]" % (
                    k, a[k] if k < len(a) else None, b[k] if k < len(b) else None), solo[:40]))
    return fails, stats


# ---- C14 -------------------------------------------------------------------------------
def run_child(exe, mode, stdin_bytes, timeout=120):
    env = dict(os.environ)
    env["ASAN_OPTIONS"] = "detect_leaks=0:exitcode=99"
    r = subprocess.run([exe, mode], input=stdin_bytes, stdout=subprocess.PIPE, stderr=subprocess.PIPE, timeout=timeout, env=env)
    return r.returncode, r.stdout, r.stderr.decode(errors="replace")


def run_c14(pid, tier, seed, ctx, P):
    fails = []
    stats = {"write_scripts": 0, "bytes": 0, "op_scripts": 0, "hello_world": False}
    r = gen.Rng(gen.family_seed(seed, "stdout"))
    exe = ctx.impl["asan"]
    nscripts = 30 if tier == "quick" else 300
    for i in range(nscripts):
        chunks = []
        shape = i % 6
        if shape == 0:
            chunks = [bytes(range(256))]
        elif shape == 1:
            chunks = [bytes([b]) for b in range(256)]
        elif shape == 2:
            chunks = [bytes([0]), b"", bytes([0, 0, 255, 128, 10, 13, 27]), b""]
        elif shape == 3:
            chunks = [bytes(r.below(256) for _ in range(sz)) for sz in (4095, 4096, 4097, 1, 65536, 65535)]
        elif shape == 4:
            chunks = [bytes(r.below(256) for _ in range(r.below(40))) for _ in range(2000 if tier == "quick" else 10000)]
        else:
            chunks = [bytes(r.below(256) for _ in range(r.pick([0, 1, 2, 7, 100, 1000]))) for _ in range(r.rng(1, 50))]
        # what the host program does around the terminal (formatting state left on
        # std::cout, its own output, how the process ends) must not change what arrives
        script = [(c.hex() if c else "-") for c in chunks]
        want_parts = list(chunks)
        host = i % 4
        if host in (1, 2, 3) and shape in (2, 5, 4):
            script, want_parts = [], []
            if host == 1:
                script += ["!width %d" % r.pick([2, 8, 40]), "!fill %d" % r.pick([42, 48, 32]), r.pick(["!hex", "!left", "!hex"])]
            for c in chunks[:200]:
                script.append(c.hex() if c else "-")
                want_parts.append(c)
                if host == 1 and r.chance(1, 5):
                    script.append("!width %d" % r.pick([1, 3, 16]))
                if host == 2 and r.chance(1, 4):
                    hb = bytes(r.below(256) for _ in range(r.pick([1, 2, 30, 300])))
                    script.append("!host " + hb.hex())
                    want_parts.append(hb)
                if host == 2 and r.chance(1, 10):
                    script.append("!flush")
            if host == 3:
                script.append("!exit")       # std::exit(0) with the channel still alive
        inp = "".join(l + "\n" for l in script).encode()
        rc, out, err = run_child(exe, "stdout", inp)
        stats["write_scripts"] += 1
        want = b"".join(want_parts)
        chunks = [c for c in want_parts]
        stats["bytes"] += len(want)
        if rc != 0 or out != want:
            k = next((j for j in range(min(len(out), len(want))) if out[j] != want[j]), min(len(out), len(want)))
            fails.append(("stdout_channel: %d writes totalling %d bytes produced %d bytes on standard output (exit %d); first difference at offset %d" % (
                len(chunks), len(want), len(out), rc, k), ["X stdout " + " ".join(script[:4000])]))
            break
    # a slow reader and a host program that handles signals: large writes block on the
    # pipe and are interrupted; every byte must still arrive, in order
    import signal
    for rep in range(2 if tier == "quick" else 6):
        big = [bytes((r.below(251) + j) % 256 for j in range(sz)) for sz in (300000, 1, 700000, 65536, 200000)]
        script = ["!sigwinch"] + [c.hex() for c in big]
        want = b"".join(big)
        env = dict(os.environ)
        env["ASAN_OPTIONS"] = "detect_leaks=0:exitcode=99"
        p = subprocess.Popen([exe, "stdout"], stdin=subprocess.PIPE, stdout=subprocess.PIPE, stderr=subprocess.PIPE, env=env)
        try:
            p.stdin.write("".join(l + "\n" for l in script).encode())
            p.stdin.close()
            time.sleep(0.4)                 # the child fills the pipe and blocks in write()
            got = b""
            for _k in range(40):
                try:
                    p.send_signal(signal.SIGWINCH)
                except ProcessLookupError:
                    break
                time.sleep(0.005)
                got += os.read(p.stdout.fileno(), 30000)     # drain a little: short writes
            while True:
                chunk = p.stdout.read(1 << 20)
                if not chunk:
                    break
                got += chunk
            rc = p.wait(timeout=60)
        finally:
            if p.poll() is None:
                p.kill()
        stats["write_scripts"] += 1
        stats["bytes"] += len(want)
        if rc != 0 or got != want:
            k = next((j for j in range(min(len(got), len(want))) if got[j] != want[j]), min(len(got), len(want)))
            fails.append(("stdout_channel with a slow reader and a host that handles SIGWINCH: %d bytes written, %d arrived (exit %d), first difference at offset %d" % (
                len(want), len(got), rc, k), ["X stdout-slow " + " ".join(str(len(c)) for c in big)]))
            break
    # the same terminal operations through stdout_channel and through a capturing channel
    nops = 60 if tier == "quick" else 600
    for i in range(nops):
        lines = gen.gen_term_case(r, i + 1, kinds=[0, 1, 2, 3, 9, 10, 15, 16, 23, 26, 27, 31])
        # only what the child's stdout-ops mode executes (both sides run the same lines)
        lines = [l for l in lines if re.match(r"(CASE|END)\b", l) or re.match(r"T 0 (new|size|elem|str|move|erase|hide|show) ?", l)]
        lines = [re.sub(r"^T 0 erase \d", "T 0 erase 0", l) for l in lines]
        res = vc.run_script(ctx, "stdout-ops", lines, want_oracle=False, want_model=True)
        cap = b"".join(bytes.fromhex(l[2:]) for l in res["impl_lines"] if l.startswith("W ") and l[2:] != "-")
        rc, out, err = run_child(exe, "stdout-ops", ("\n".join(lines) + "\n").encode())
        stats["op_scripts"] += 1
        if res["mismatches"]:
            m = res["mismatches"][0]
            fails.append(("TIE: model and implementation differ: case %s line %d: impl [%s] model [%s]" % m, lines))
            break
        if rc != 0 or out != cap:
            fails.append(("the same operations wrote %d bytes to a capturing channel but %d bytes reached standard output through stdout_channel (exit %d)" % (len(cap), len(out), rc), lines))
            break
    # the hello_world example
    hw = os.path.join(vbuild.REPO, "examples", "hello_world", "src", "hello_world.cpp")
    if os.path.exists(hw):
        objdir = os.path.dirname(exe)
        objs = [o for o in glob.glob(objdir + "/*.o") if not o.endswith("impl_driver.o")]
        out_exe = os.path.join(ctx.dir, "hello_world")
        rr = vc.vbuild.sh([vbuild.CXX] + vbuild.BASEFLAGS + vbuild.SAN["asan"] + vbuild.INC + [hw] + objs + ["-o", out_exe] + vbuild.LINK)
        if rr.returncode != 0:
            fails.append(("examples/hello_world does not build: " + rr.stdout[-1500:], []))
        else:
            env = dict(os.environ)
            env["ASAN_OPTIONS"] = "detect_leaks=0"
            p = subprocess.run([out_exe], stdout=subprocess.PIPE, stderr=subprocess.PIPE, env=env, timeout=60)
            want = b"\x1b[0mHello, world!\n"
            stats["hello_world"] = True
            if p.stdout != want:
                fails.append(("examples/hello_world wrote %r to standard output, expected %r" % (p.stdout[:80], want), ["X hello_world"]))
    return fails, stats


def replay_c14(ctx, lines):
    """re-runs a replay file of C14: lines 'X stdout <items>' (write scripts) are
    executed through the real stdout_channel in a child process; returns a list of
    failure descriptions"""
    out = []
    exe = ctx.impl["asan"]
    for l in lines:
        t = l.split()
        if len(t) < 2 or t[0] != "X" or t[1] != "stdout":
            continue
        items, script, want = t[2:], [], b""
        i = 0
        while i < len(items):
            it = items[i]
            if it.startswith("!"):
                if it in ("!width", "!fill"):
                    script.append(it + " " + items[i + 1]); i += 1
                elif it == "!host":
                    script.append(it + " " + items[i + 1]); want += bytes.fromhex(items[i + 1]); i += 1
                else:
                    script.append(it)
                    if it == "!exit":
                        break
            else:
                script.append(it)
                want += bytes.fromhex(it) if it != "-" else b""
            i += 1
        rc, got, err = run_child(exe, "stdout", "".join(x + "\n" for x in script).encode())
        if rc != 0 or got != want:
            k = next((j for j in range(min(len(got), len(want))) if got[j] != want[j]), min(len(got), len(want)))
            out.append("stdout_channel: %d bytes expected on standard output, %d arrived (exit %d), first difference at offset %d" % (len(want), len(got), rc, k))
    return out
