(* P_OracleSound.v — the extracted oracle never reports a failure on the model's
   own observations: for every well-formed operation from every state where
   belief and terminal agree, oracle_step leaves the failure list unchanged.
   Together with the byte-exact correspondence this is the argument that a
   check does not raise an alarm on code that behaves like the model. *)
From TP Require Import Base Elem Term Screen VT Markup Oracle P_Dec P_VT P_Diff P_Sync P_Step P_Bytes P_Run P_Props P_Link P_Canvas P_Screen.
From Coq Require Import ZArith Lia ZifyBool ZifyN ZifyNat.
Local Open Scope N_scope.

Lemma bytes_eqb_refl l : bytes_eqb l l = true.
Proof. unfold bytes_eqb. induction l as [|a r IH]; cbn; [reflexivity|]. rewrite N.eqb_refl, IH. reflexivity. Qed.

Lemma shown_eqb_refl s : shown_eqb s s = true.
Proof. destruct s; cbn; try reflexivity. apply cs_eqb_refl. Qed.

Lemma cell_eqb_refl c : cell_eqb c c = true.
Proof. destruct c. unfold cell_eqb. cbn. rewrite bytes_eqb_refl, shown_eqb_refl, rend_eqb_refl. reflexivity. Qed.

Lemma new_trace_app v v' tr : trace v' = rev tr ++ trace v -> new_trace v v' = tr.
Proof.
  intros H. unfold new_trace. rewrite H, app_length, rev_length.
  replace (length tr + length (trace v) - length (trace v))%nat with (length tr) by lia.
  rewrite firstn_app, firstn_all2 by (rewrite rev_length; lia).
  rewrite rev_length, Nat.sub_diag. cbn [firstn]. rewrite app_nil_r, rev_involutive. reflexivity.
Qed.

Lemma placed_cells_match w c es tr : placed w c es tr -> cells_match tr (visible es) = true.
Proof.
  induction 1 as [|c e es q tr Hc Hq Hrest IH|c e es tr Hc Hrest IH]; [reflexivity| |];
    unfold visible; cbn [filter]; rewrite Hc; cbn [negb]; fold (visible es).
  - cbn [cells_match]. rewrite cell_eqb_refl, IH. reflexivity.
  - exact IH.
Qed.

(* positions: when an expectation is recorded it coincides with the known
   cursor, and `placed` follows the cursor *)
Lemma placed_positions_ok w : forall es c tr expect,
  placed w c es tr -> no_ctl es -> (forall p, expect = Some p -> c = Some p) ->
  fst (positions_ok w expect tr) = true /\
  (forall p, snd (positions_ok w expect tr) = Some p -> fold_left (fun c _ => adv w c) es c = Some p).
Proof.
  unfold no_ctl. induction es as [|e es IH]; intros c tr expect Hp Hnc Hex.
  - inversion Hp; subst. cbn. split; [reflexivity|]. exact Hex.
  - cbn [forallb] in Hnc. apply andb_prop in Hnc as [Hne Hnc]. apply negb_true_iff in Hne.
    inversion Hp as [|c' e' es' q tr' Hctl Hq Hrest|c' e' es' tr' Hctl Hrest]; subst; [|congruence].
    cbn [positions_ok fold_left].
    destruct expect as [p0|].
    + pose proof (Hex p0 eq_refl) as Hc. subst c. rewrite (Hq p0 eq_refl), pt_eqb_refl.
      apply IH; [exact Hrest|exact Hnc|].
      intros p Hpe. destruct p0 as [x y]. cbn [fst snd adv] in *.
      destruct (x + 1 <? w) eqn:E; [|discriminate].
      assert ((x + 1 =? w) = false) as -> by lia. exact Hpe.
    + apply IH; [exact Hrest|exact Hnc|]. intros p Hpe. discriminate.
Qed.

Lemma fail_if_false c i f : fail_if false c i f = f.
Proof. reflexivity. Qed.

Lemma step_size beh st o : (forall sz, o <> SetSize sz) -> ts_size (fst (step beh st o)) = ts_size st.
Proof.
  intros Hn. destruct o; cbn [step]; try reflexivity.
  - unfold optional_default_attribute, write_element.
    destruct (ts_last st); cbn [fst]; destruct (advance_other (set_last (set_last st (Some default_element)) (Some e)) (eg e)) as (A & _);
      try (destruct (advance_other (set_last st (Some e)) (eg e)) as (B & _); rewrite ?B; reflexivity); rewrite A; reflexivity.
  - unfold optional_default_attribute.
    assert (H : forall s0 st0, ts_size (fst (write_elements beh st0 s0)) = ts_size st0).
    { induction s0 as [|x r IH]; intros st0; [reflexivity|]. cbn [write_elements].
      destruct (write_element beh st0 x) as [st1 c1] eqn:E1. specialize (IH st1).
      destruct (write_elements beh st1 r) as [st2 c2]. cbn [fst] in *. rewrite IH.
      assert (st1 = fst (write_element beh st0 x)) by (rewrite E1; reflexivity). subst st1.
      unfold write_element. cbn [fst]. destruct (advance_other (set_last st0 (Some x)) (eg x)) as (A & _). exact A. }
    destruct (ts_last st); cbn [fst snd];
      match goal with |- context[write_elements beh ?a s] => specialize (H s a); destruct (write_elements beh a s) end;
      cbn [fst] in *; rewrite H; reflexivity.
  - unfold write_element. cbn [fst]. destruct (advance_other (set_last st (Some e)) (eg e)) as (A & _). exact A.
  - unfold optional_default_attribute. destruct (ts_last st); reflexivity.
  - unfold to_default_attribute. destruct (ts_last st); reflexivity.
  - exfalso. exact (Hn sz eq_refl).
Qed.

(* the believed cursor after each operation (no control characters written) *)

Lemma write_element_cur beh st e : is_control_glyph (eg e) = false ->
  ts_cur (fst (write_element beh st e)) = adv (fst (ts_size st)) (ts_cur st).
Proof. intros H. unfold write_element. cbn [fst]. rewrite advance_cur by exact H. reflexivity. Qed.

Lemma write_element_size beh st e : ts_size (fst (write_element beh st e)) = ts_size st.
Proof. unfold write_element. cbn [fst]. destruct (advance_other (set_last st (Some e)) (eg e)) as (A & _). exact A. Qed.

Lemma write_elements_cur beh : forall es st, no_ctl es ->
  ts_cur (fst (write_elements beh st es)) = fold_left (fun c _ => adv (fst (ts_size st)) c) es (ts_cur st).
Proof.
  unfold no_ctl. induction es as [|e r IH]; intros st Hn; [reflexivity|].
  cbn [forallb] in Hn. apply andb_prop in Hn as [He Hr]. apply negb_true_iff in He.
  cbn [write_elements fold_left].
  pose proof (write_element_cur beh st e He) as Hc. pose proof (write_element_size beh st e) as Hs.
  destruct (write_element beh st e) as [st1 c1]. cbn [fst] in *.
  specialize (IH st1 Hr). destruct (write_elements beh st1 r) as [st2 c2]. cbn [fst] in *.
  rewrite IH, Hc, Hs. reflexivity.
Qed.

Lemma oda_cur_size st :
  ts_cur (fst (optional_default_attribute st)) = ts_cur st /\
  ts_size (fst (optional_default_attribute st)) = ts_size st.
Proof. unfold optional_default_attribute. destruct (ts_last st); split; reflexivity. Qed.

Lemma step_cur beh st o : no_ctl (op_elems o) ->
  ts_cur (fst (step beh st o)) =
  match o with
  | Move p => Some p
  | Restore => ts_saved st
  | SetSize _ => None
  | _ => fold_left (fun c _ => adv (fst (ts_size st)) c) (op_elems o) (ts_cur st)
  end.
Proof.
  intros Hn. destruct o; unfold op_elems in *; cbn [op_elements step fold_left] in *; try reflexivity.
  - destruct (oda_cur_size st) as [Hc Hs].
    destruct (optional_default_attribute st) as [st1 c1]. cbn [fst] in *.
    unfold no_ctl in Hn. cbn [forallb] in Hn. apply andb_prop in Hn as [He _]. apply negb_true_iff in He.
    pose proof (write_element_cur beh st1 e He) as H.
    destruct (write_element beh st1 e) as [st2 c2]. cbn [fst] in *. rewrite H, Hc, Hs. reflexivity.
  - destruct (oda_cur_size st) as [Hc Hs].
    destruct (optional_default_attribute st) as [st1 c1]. cbn [fst] in *.
    pose proof (write_elements_cur beh s st1 Hn) as H.
    destruct (write_elements beh st1 s) as [st2 c2]. cbn [fst] in *. rewrite H, Hc, Hs. reflexivity.
  - unfold no_ctl in Hn. cbn [forallb] in Hn. apply andb_prop in Hn as [He _]. apply negb_true_iff in He.
    apply write_element_cur. exact He.
  - exact (proj1 (oda_cur_size st)).
  - unfold to_default_attribute. destruct (ts_last st); reflexivity.
Qed.

Section Sound.
Variable cfg : vtcfg.
Variable beh : behaviour.
Variable adopt : pt -> pt -> pt.
Hypothesis Huni : b_unicode_all beh = true -> unicode_all cfg = true.

Lemma modes_proj (v' : vt) (vi m0 m3 ab : bool) (ti : list byte) :
  modes_of v' = (vi, m0, m3, ab, ti) ->
  vis v' = vi /\ m1000 v' = m0 /\ m1003 v' = m3 /\ altbuf v' = ab /\ title v' = ti.
Proof. unfold modes_of. intros H. inversion H. repeat split. Qed.

Lemma erase_clause st v k : Sync beh st v ->
  let v' := vt_execs cfg v (snd (step beh st (Erase k))) in
  forallb (fun p => if erase_region_of k (vcur v) p
                    then cell_eqb (cells v' p) (blank_cell default_rend)
                    else cell_eqb (cells v' p) (cells v p)) (grid_points (vsize v))
  && pt_eqb (vcur v') (vcur v) && Bool.eqb (pending v') (pending v)
  && rend_eqb (rend v') default_rend = true.
Proof.
  intros S v'. pose proof (sync_erase cfg beh st v k S) as H. cbv zeta in H.
  destruct H as (_ & _ & _ & Hc & Hcur & Hp & Hr & _). fold v' in Hc, Hcur, Hp, Hr.
  rewrite Hcur, Hp, Hr, pt_eqb_refl, Bool.eqb_reflx, rend_eqb_refl, !andb_true_r.
  apply forallb_forall. intros p _. rewrite Hc. unfold region_blank.
  destruct (erase_region_of k (vcur v) p); apply cell_eqb_refl.
Qed.

Lemma resend_clause_elem st l e (raw : bool) :
  ts_last st = Some l ->
  attr_eqb (ea l) (ea e) && cs_eqb (gcs (eg l)) (gcs (eg e)) &&
  negb (bytes_eqb (obytes beh st (if raw then WRaw e else WElem e)) (wire (eg e))) = false.
Proof.
  intros Hl. destruct (attr_eqb (ea l) (ea e)) eqn:Ha; [|reflexivity].
  destruct (cs_eqb (gcs (eg l)) (gcs (eg e))) eqn:Hc; [|reflexivity]. cbn [andb].
  assert (H : obytes beh st (if raw then WRaw e else WElem e) = wire (eg e)).
  { unfold obytes. destruct raw; cbn [step]; unfold optional_default_attribute, write_element;
      rewrite Hl; cbn [fst snd app ts_last]; rewrite ?Hl; unfold change_charset, change_attribute;
      rewrite Hc, Ha; cbn [app render_all flat_map render]; rewrite app_nil_r; reflexivity. }
  rewrite H, bytes_eqb_refl. reflexivity.
Qed.

Lemma resend_clause_move st p :
  opt_eqb pt_eqb (ts_cur st) (Some p) &&
  negb (match obytes beh st (Move p) with [] => true | _ => false end) = false.
Proof.
  destruct (ts_cur st) as [c|] eqn:Ec; [|reflexivity]. cbn [opt_eqb].
  destruct (pt_eqb c p) eqn:E; [|reflexivity]. cbn [andb].
  unfold obytes. cbn [step]. unfold move_cursor. rewrite Ec, E. reflexivity.
Qed.

Lemma resend_clause_vis st (want : bool) :
  opt_eqb Bool.eqb (ts_vis st) (Some want) &&
  negb (match obytes beh st (if want then Show else Hide) with [] => true | _ => false end) = false.
Proof.
  destruct (ts_vis st) as [b|] eqn:Ev; [|reflexivity]. cbn [opt_eqb].
  destruct (Bool.eqb b want) eqn:E; [|reflexivity]. cbn [andb].
  unfold obytes. destruct want; cbn [step]; unfold show_hide; rewrite Ev, E; reflexivity.
Qed.


(* ---- the theorem ------------------------------------------------------------- *)
Definition model_obs (st : tstate) (o : op) : obs :=
  mkObs (OTerm o) (obytes beh st o) (fst (step beh st o)).

Definition OInv (s : ostate) : Prop :=
  Sync beh (os_model s) (os_vt s) /\
  (forall p, os_expect s = Some p -> ts_cur (os_model s) = Some p).

Lemma has_ctl_false o : has_ctl o = false -> no_ctl (op_elems o).
Proof.
  unfold no_ctl, op_elems, has_ctl. destruct (op_elements o) as [es|]; [|reflexivity].
  induction es as [|e r IH]; [reflexivity|]. cbn [forallb existsb]. intros H.
  apply orb_false_iff in H as [He Hr]. rewrite He, (IH Hr). reflexivity.
Qed.

Lemma wf_op_elems st o : wf_op st o -> forallb wf_elem_c (op_elems o) = true.
Proof.
  unfold op_elems. destruct o; cbn [wf_op op_elements forallb]; intros H; try reflexivity.
  - rewrite H. reflexivity.
  - exact H.
  - destruct H as [H _]. rewrite H. reflexivity.
Qed.

Lemma wf_op_not_size st o : wf_op st o -> forall sz, o <> SetSize sz.
Proof. intros H sz E. subst o. exact H. Qed.

Lemma v_after_model v st o : wf_op st o ->
  v_after cfg adopt v (model_obs st o) = vt_bytes cfg v (obytes beh st o).
Proof. intros H. unfold v_after, model_obs. cbn [o_op o_bytes]. destruct o; try reflexivity. contradiction. Qed.

Lemma modes_clause st v o : Sync beh st v -> wf_op st o ->
  let v' := vt_bytes cfg v (obytes beh st o) in
  modes_of v' = op_modes beh v o ->
  bad_1101 beh v v' (obytes beh st o) o = false.
Proof.
  intros S Hwf v' Hm. unfold op_modes in Hm.
  destruct o; cbn [bad_1101]; try reflexivity.
  - apply modes_proj in Hm as (A & _). rewrite A. reflexivity.
  - apply modes_proj in Hm as (A & _). rewrite A. reflexivity.
  - pose proof (sync_mouse cfg beh st v true S) as H. cbv zeta in H. destruct H as (_ & _ & _ & Hnone).
    unfold mouse_modes in Hm. destruct (mouse_mode beh) as [m|] eqn:Em.
    + destruct (m =? 1000) eqn:E1.
      * apply N.eqb_eq in E1. subst m. apply modes_proj in Hm as (_ & A & B & _). rewrite A, B, Bool.eqb_reflx. reflexivity.
      * assert (Hm' : modes_of v' = (vis v, m1000 v, true, altbuf v, title v)).
        { rewrite Hm. destruct m as [|m]; [reflexivity|]. do 10 (destruct m as [m|m|]; try reflexivity). cbn in E1. discriminate. }
        apply modes_proj in Hm' as (_ & A & B & _). rewrite A, B, Bool.eqb_reflx.
        destruct m as [|m]; [reflexivity|]. do 10 (destruct m as [m|m|]; try reflexivity). cbn in E1. discriminate.
    + unfold obytes. cbn [step]. rewrite (Hnone eq_refl). reflexivity.
  - pose proof (sync_mouse cfg beh st v false S) as H. cbv zeta in H. destruct H as (_ & _ & _ & Hnone).
    unfold mouse_modes in Hm. destruct (mouse_mode beh) as [m|] eqn:Em.
    + destruct (m =? 1000) eqn:E1.
      * apply N.eqb_eq in E1. subst m. apply modes_proj in Hm as (_ & A & B & _). rewrite A, B, Bool.eqb_reflx. reflexivity.
      * assert (Hm' : modes_of v' = (vis v, m1000 v, false, altbuf v, title v)).
        { rewrite Hm. destruct m as [|m]; [reflexivity|]. do 10 (destruct m as [m|m|]; try reflexivity). cbn in E1. discriminate. }
        apply modes_proj in Hm' as (_ & A & B & _). rewrite A, B, Bool.eqb_reflx.
        destruct m as [|m]; [reflexivity|]. do 10 (destruct m as [m|m|]; try reflexivity). cbn in E1. discriminate.
    + unfold obytes. cbn [step]. rewrite (Hnone eq_refl). reflexivity.
  - apply modes_proj in Hm as (_ & _ & _ & A & _). rewrite A. reflexivity.
  - apply modes_proj in Hm as (_ & _ & _ & A & _). rewrite A. reflexivity.
  - pose proof (sync_title cfg beh st v t S) as H. cbv zeta in H. destruct H as (_ & _ & _ & Hnone).
    unfold title_modes in Hm. destruct (b_title_bel beh || b_title_st beh) eqn:E.
    + apply modes_proj in Hm as (_ & _ & _ & _ & A). rewrite A, bytes_eqb_refl. reflexivity.
    + unfold obytes. cbn [step]. rewrite (Hnone eq_refl). reflexivity.
Qed.


Lemma resend_clause st o : bad_1301 st (obytes beh st o) o = false.
Proof.
  destruct o; cbn [bad_1301]; try reflexivity.
  - destruct (ts_last st) as [l|] eqn:El; [|reflexivity]. exact (resend_clause_elem st l e false El).
  - destruct (ts_last st) as [l|] eqn:El; [|reflexivity]. exact (resend_clause_elem st l e true El).
  - exact (resend_clause_move st p).
  - exact (resend_clause_vis st true).
  - exact (resend_clause_vis st false).
Qed.

Lemma erase_clause' st v o : Sync beh st v -> wf_op st o ->
  bad_901 v (vt_bytes cfg v (obytes beh st o)) o = false.
Proof.
  intros S Hwf. destruct o; cbn [bad_901]; try reflexivity.
  rewrite (step_bytes cfg beh Huni st v (Erase k) S Hwf).
  pose proof (erase_clause st v k S) as H. cbv zeta in H. rewrite H. reflexivity.
Qed.

Theorem oracle_step_sound s o :
  OInv s -> wf_op (os_model s) o ->
  let s' := oracle_step cfg beh adopt true s (model_obs (os_model s) o) in
  os_fail s' = os_fail s /\ OInv s' /\ os_model s' = fst (step beh (os_model s) o).
Proof.
  intros [S Hex] Hwf.
  set (st := os_model s) in *. set (v := os_vt s) in *.
  pose proof (sync_step cfg beh Huni st v o S Hwf) as H. cbv zeta in H.
  destruct H as (S' & (tr & Hpl & Htr) & Hm).
  pose proof (new_trace_app v _ tr Htr) as Hnt.
  pose proof (step_size beh st o (wf_op_not_size st o Hwf)) as Hsz.
  assert (Hw : fst (vsize (vt_bytes cfg v (obytes beh st o))) = fst (ts_size st)).
  { rewrite <- (sy_size _ _ _ S'), Hsz. reflexivity. }
  unfold oracle_step. cbv zeta. fold v. fold st.
  rewrite (v_after_model v st o Hwf).
  cbn [o_op o_bytes o_st model_obs].
  rewrite Hnt.
  assert (B101 : bad_101 (vt_bytes cfg v (obytes beh st o)) = false) by exact (sync_clause_101 _ _ _ S').
  assert (B801 : truthful beh (fst (step beh st o)) (vt_bytes cfg v (obytes beh st o)) = true) by exact (sync_truthful _ _ _ S').
  assert (B102 : bad_102 tr o = false).
  { unfold bad_102. unfold op_elems in Hpl. destruct (op_elements o) as [es|]; [|reflexivity].
    rewrite (placed_cells_match _ _ _ _ Hpl). reflexivity. }
  assert (B1701 : bad_1701 tr o = false).
  { unfold bad_1701. pose proof (wf_op_elems st o Hwf) as Hel. unfold op_elems in Hpl, Hel.
    destruct (op_elements o) as [es|]; [|reflexivity].
    rewrite (placed_text _ _ _ _ Hpl Hel), bytes_eqb_refl. reflexivity. }
  assert (B103 : bad_103 tr o = false).
  { unfold bad_103. unfold op_elems in Hpl. destruct (op_elements o) as [es|]; [reflexivity|].
    inversion Hpl. reflexivity. }
  set (pr := pos_result (fst (vsize (vt_bytes cfg v (obytes beh st o)))) (os_expect s) tr o).
  assert (Bpos : fst pr = true /\
                 forall p, next_expect o (vsize (vt_bytes cfg v (obytes beh st o))) (snd pr) = Some p ->
                           ts_cur (fst (step beh st o)) = Some p).
  { unfold pr, pos_result. destruct (has_ctl o) eqn:Hc.
    - (* a control character was written: no expectation through or after it *)
      split; [reflexivity|]. intros p Hp. cbn [snd] in Hp. unfold has_ctl in Hc.
      destruct o; cbn [op_elements] in Hc; try discriminate; cbn [next_expect] in Hp; discriminate.
    - pose proof (has_ctl_false o Hc) as Hnc. rewrite Hw.
      destruct (placed_positions_ok (fst (ts_size st)) (op_elems o) (ts_cur st) tr (os_expect s) Hpl Hnc Hex) as [Hpos Hexp].
      split; [exact Hpos|]. intros p Hp. rewrite (step_cur beh st o Hnc).
      unfold next_expect in Hp.
      destruct o; try (apply Hexp; exact Hp); try discriminate.
      destruct (inside p0 _); [exact Hp|discriminate]. }
  destruct Bpos as [Bpos1 Bpos2].
  assert (B802 : bad_802 (fst (step beh st o)) o = false).
  { destruct o; reflexivity || contradiction. }
  rewrite B101, B801, B102, B1701, B103, Bpos1, B802,
          (erase_clause' st v o S Hwf), (modes_clause st v o S Hwf Hm), (resend_clause st o).
  cbn [negb andb fail_if os_fail os_model os_vt os_expect].
  split; [reflexivity|]. split; [|reflexivity].
  split; [exact S'|].
  intros p Hp. cbn [os_model os_expect] in Hp |- *. exact (Bpos2 p Hp).
Qed.


Theorem oracle_step_sound_resize s sz :
  OInv s ->
  let s' := oracle_step cfg beh adopt true s (model_obs (os_model s) (SetSize sz)) in
  os_fail s' = os_fail s /\ OInv s' /\ os_model s' = fst (step beh (os_model s) (SetSize sz)).
Proof.
  intros [S Hex].
  set (st := os_model s) in *. set (v := os_vt s) in *.
  destruct (sync_resize beh st v sz (adopt (vcur v) sz) S) as (S' & Ht & _).
  assert (Hnt : new_trace v (vt_resize v sz (adopt (vcur v) sz)) = []).
  { apply new_trace_app. rewrite Ht. reflexivity. }
  unfold oracle_step. cbv zeta. fold v. fold st.
  unfold v_after. cbn [o_op o_bytes o_st model_obs]. rewrite Hnt.
  assert (B101 : bad_101 (vt_resize v sz (adopt (vcur v) sz)) = false) by exact (sync_clause_101 _ _ _ S').
  assert (B801 : truthful beh (fst (step beh st (SetSize sz))) (vt_resize v sz (adopt (vcur v) sz)) = true)
    by exact (sync_truthful _ _ _ S').
  rewrite B101, B801.
  cbn [bad_102 bad_1701 bad_103 op_elements pos_result has_ctl positions_ok bad_901 bad_1101 bad_1301
       bad_802 step fst snd ts_cur ts_saved negb andb fail_if next_expect].
  split; [reflexivity|]. split; [|reflexivity].
  split; [exact S'|]. intros p Hp. discriminate.
Qed.

(* ---- histories: the oracle reports nothing on the model's own observations ---- *)
Fixpoint model_hist (st : tstate) (ops : list op) : list obs :=
  match ops with
  | [] => []
  | o :: r => model_obs st o :: model_hist (fst (step beh st o)) r
  end.

Fixpoint wf_ops (st : tstate) (ops : list op) : Prop :=
  match ops with
  | [] => True
  | o :: r => (match o with SetSize _ => True | _ => wf_op st o end) /\
              wf_ops (fst (step beh st o)) r
  end.

Lemma oracle_fold_sound : forall ops s,
  OInv s -> wf_ops (os_model s) ops ->
  os_fail (fold_left (oracle_step cfg beh adopt true) (model_hist (os_model s) ops) s) = os_fail s.
Proof.
  induction ops as [|o r IH]; intros s I Hwf; [reflexivity|].
  cbn [model_hist fold_left]. cbn [wf_ops] in Hwf. destruct Hwf as [Ho Hr].
  assert (H : let s' := oracle_step cfg beh adopt true s (model_obs (os_model s) o) in
              os_fail s' = os_fail s /\ OInv s' /\ os_model s' = fst (step beh (os_model s) o)).
  { destruct o; try exact (oracle_step_sound s _ I Ho). exact (oracle_step_sound_resize s sz I). }
  cbv zeta in H. destruct H as (Hf & I' & Hmod).
  rewrite <- Hmod in Hr |- *. rewrite (IH _ I' Hr). exact Hf.
Qed.

Theorem oracle_run_sound v0 ops :
  vt0_ok v0 -> wf_ops init_tstate ops ->
  oracle_run cfg beh adopt true v0 (model_hist init_tstate ops) = [].
Proof.
  intros Hv Hwf. unfold oracle_run.
  set (s0 := mkO v0 init_tstate init_tstate None (blank_canvas 0 0) 0 []).
  assert (I : OInv s0). { split; [exact (sync_init beh v0 Hv)|]. intros p Hp. discriminate. }
  change init_tstate with (os_model s0) at 1.
  rewrite (oracle_fold_sound ops s0 I Hwf). reflexivity.
Qed.

End Sound.

(* ---- draws ---------------------------------------------------------------------- *)
Lemma list_eqb_nth {A} (f : A -> A -> bool) (d : A) : f d d = true ->
  forall a b, list_eqb f a b = true -> forall i, f (nth i a d) (nth i b d) = true.
Proof.
  intros Hd. induction a as [|x a IH]; intros [|y b] H i; cbn [list_eqb] in H; try discriminate.
  - destruct i; exact Hd.
  - apply andb_prop in H as [Hxy Hab]. destruct i as [|i]; cbn [nth]; [exact Hxy|]. exact (IH b Hab i).
Qed.

Lemma trace_is_map l :
  trace_is (map (fun pe : pt * element => (fst pe, display_of (snd pe))) l) l = true.
Proof.
  induction l as [|[p e] r IH]; [reflexivity|].
  cbn [map trace_is fst snd]. rewrite pt_eqb_refl, cell_eqb_refl, IH. reflexivity.
Qed.

Section DrawSound.
Variable cfg : vtcfg.
Variable beh : behaviour.
Variable adopt : pt -> pt -> pt.
Hypothesis Huni : b_unicode_all beh = true -> unicode_all cfg = true.

Definition draw_obs (lf : canvas) (st : tstate) (c : canvas) : obs :=
  mkObs (ODraw c) (render_all (snd (draw beh (mkScreen lf) st c)))
        (snd (fst (draw beh (mkScreen lf) st c))).

Lemma draw_state lf st c :
  snd (fst (draw beh (mkScreen lf) st c)) = fst (run beh st (draw_ops (mkScreen lf) c)).
Proof. unfold draw. destruct (run beh st (draw_ops (mkScreen lf) c)). reflexivity. Qed.

Lemma same_grid_silent lf st c :
  (cw c =? cw lf) && (ch c =? ch lf) = true ->
  list_eqb element_eqb (grid lf) (grid c) = true ->
  render_all (snd (draw beh (mkScreen lf) st c)) = [].
Proof.
  intros Hs Hg.
  assert (Hops : draw_ops (mkScreen lf) c = []).
  { rewrite draw_ops_changed. cbn [last_frame]. rewrite Hs. cbn [app].
    unfold prev_frame. cbn [last_frame]. rewrite Hs.
    assert (Hnil : changed_cells lf c = []).
    { unfold changed_cells. destruct (filter _ _) as [|pe r] eqn:Ef; [reflexivity|].
      exfalso. assert (Hin : In pe (pe :: r)) by (left; reflexivity). rewrite <- Ef in Hin.
      destruct (in_changed _ _ _ Hin) as (Hx & Hy & He & Hne). rewrite He in Hne.
      apply andb_prop in Hs as [Hw _]. apply N.eqb_eq in Hw.
      unfold cv_get, cv_index in Hne. rewrite <- Hw in Hne.
      rewrite (list_eqb_nth element_eqb default_element eq_refl _ _ Hg) in Hne. discriminate. }
    rewrite Hnil. reflexivity. }
  unfold draw. rewrite Hops. reflexivity.
Qed.

Theorem oracle_draw_sound s c :
  Sync beh (os_model s) (os_vt s) -> Frame (os_frame s) (os_vt s) ->
  ts_size (os_model s) = (cw c, ch c) -> canvas_elems_wf c -> wrap cfg <> Immediate ->
  let s' := oracle_step cfg beh adopt true s (draw_obs (os_frame s) (os_model s) c) in
  os_fail s' = os_fail s /\ Sync beh (os_model s') (os_vt s') /\ Frame (os_frame s') (os_vt s') /\
  os_frame s' = c /\ ts_size (os_model s') = ts_size (os_model s).
Proof.
  intros S F Hsz Hwf Hw.
  set (st := os_model s) in *. set (v := os_vt s) in *. set (lf := os_frame s) in *.
  pose proof (draw_correct cfg beh Huni (mkScreen lf) st v c S Hsz Hwf (fun _ => F) (or_introl Hw)) as H.
  cbv zeta in H. destruct H as (S' & F' & _ & Hsz' & Htr & Hmo).
  pose proof (new_trace_app v _ _ Htr) as Hnt.
  unfold oracle_step. cbv zeta. fold v. fold st. fold lf.
  unfold v_after. cbn [o_op o_bytes o_st draw_obs]. rewrite Hnt.
  set (bytes := render_all (snd (draw beh (mkScreen lf) st c))) in *.
  set (st' := snd (fst (draw beh (mkScreen lf) st c))) in *.
  assert (B101 : bad_101 (vt_bytes cfg v bytes) = false) by exact (sync_clause_101 _ _ _ S').
  assert (B801 : truthful beh st' (vt_bytes cfg v bytes) = true) by exact (sync_truthful _ _ _ S').
  assert (B399 : (match wrap cfg with Immediate => true | _ => false end) = false)
    by (destruct (wrap cfg); try reflexivity; contradiction).
  assert (B301 : forallb (fun pe : pt * element => cell_eqb (cells (vt_bytes cfg v bytes) (fst pe)) (display_of (snd pe)))
                         (region_visit c 0 0 (cw c) (ch c)) = true).
  { apply forallb_forall. intros [[x y] e] Hin. unfold region_visit in Hin.
    apply in_map_iff in Hin as ([x' y'] & Heq & Hin). inversion Heq; subst x' y' e. cbn [fst snd].
    apply In_region_points in Hin. rewrite (F' x y) by lia. apply cell_eqb_refl. }
  assert (B401 : trace_is (placed_cells (mkScreen lf) c)
                   (changed_cells (if (cw c =? cw lf) && (ch c =? ch lf) then lf else blank_canvas (cw c) (ch c)) c) = true).
  { unfold placed_cells, prev_frame. cbn [last_frame]. apply trace_is_map. }
  assert (B401b : (cw c =? cw lf) && (ch c =? ch lf) && list_eqb element_eqb (grid lf) (grid c) &&
                  negb (no_bytes bytes) = false).
  { destruct ((cw c =? cw lf) && (ch c =? ch lf)) eqn:Es; [|reflexivity].
    destruct (list_eqb element_eqb (grid lf) (grid c)) eqn:Eg; [|reflexivity].
    unfold bytes. rewrite (same_grid_silent lf st c Es Eg). reflexivity. }
  apply modes_proj in Hmo as (M1 & M2 & M3 & M4 & M5).
  rewrite B101, B801, B399, B301, B401, B401b, M1, M2, M3, M4, M5.
  rewrite !Bool.eqb_reflx, bytes_eqb_refl.
  rewrite !andb_false_r. cbn [negb andb fail_if os_fail os_model os_vt os_frame].
  split; [reflexivity|]. split.
  - rewrite <- (draw_state lf st c). exact S'.
  - split; [exact F'|]. split; [reflexivity|]. rewrite <- (draw_state lf st c). exact Hsz'.
Qed.

End DrawSound.
