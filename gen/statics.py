#!/usr/bin/env python3
"""Translator for C12: scans /repo's sources for variables with static or thread
storage duration and cross-checks them against the symbols the compiled library
objects place in writable sections.  Prints coq/GeneratedStatics.v (data only)."""
import os, re, subprocess, sys, glob

REPO = os.environ.get("VERIF_REPO", "/repo")


def strip(src):
    src = re.sub(r"//[^\n]*", "", src)
    src = re.sub(r"/\*.*?\*/", lambda m: " " * 0 + "\n" * m.group(0).count("\n"), src, flags=re.S)
    src = re.sub(r'"(?:\\.|[^"\\])*"', '""', src)
    src = re.sub(r"'(?:\\.|[^'\\])*'", "''", src)
    return src


def scan():
    decls = []
    files = sorted(glob.glob(REPO + "/src/**/*.cpp", recursive=True) + glob.glob(REPO + "/include/**/*.hpp", recursive=True))
    for f in files:
        txt = strip(open(f, errors="replace").read())
        for m in re.finditer(r"\b(static|thread_local)\b(?!_)", txt):
            start = m.start()
            # previous non-space char must end a statement/block or begin the file
            prev = txt[:start].rstrip()
            if prev and prev[-1] not in ";{}:)" and not prev.endswith("inline") and not prev.endswith("extern"):
                continue
            stmt = txt[start:]
            end = re.search(r"[;={]", stmt)
            head = stmt[: end.start()] if end else stmt[:200]
            head1 = " ".join(head.split())
            if re.match(r"static_(cast|assert)", head1):
                continue
            # function declaration/definition: "name(" before the terminator and no array/object init
            if re.search(r"\w\s*\([^)]*\)\s*(const|noexcept|override|->|$)", head1) and not re.search(r"\bstruct\b", head1):
                continue
            is_const = bool(re.search(r"\b(const|constexpr|constinit const)\b", head1))
            # a const static that is not constexpr is initialised when control first
            # reaches it: its initialiser may only mention namespace-qualified
            # constants, types and literals.  An unqualified identifier (a function
            # parameter, a local, another static) makes the value depend on the first
            # caller - hidden state shared by every later one.
            if is_const and not re.search(r"\bconstexpr\b", head1) and end and stmt[end.start()] in "={":
                depth, j = 0, end.start()
                while j < len(stmt):
                    ch = stmt[j]
                    if ch in "({[":
                        depth += 1
                    elif ch in ")}]":
                        depth -= 1
                    elif ch == ";" and depth <= 0:
                        break
                    j += 1
                init = stmt[end.start():j]
                for im in re.finditer(r"(?<![\w:])([A-Za-z_]\w*)\b(?!\s*::)", init):
                    word = im.group(1)
                    before = init[:im.start()].rstrip()
                    if before.endswith("::") or before.endswith(".") or before.endswith("->"):
                        continue
                    if word in ("true", "false", "nullptr", "element", "byte_storage", "byte", "char", "int", "unsigned",
                                "static_cast", "sizeof", "std", "const", "auto", "_tb") or re.match(r"^_?[a-z]*$", word) and re.search(r'""\s*$', before):
                        continue
                    if re.match(r"^\d", word):
                        continue
                    is_const = False
                    head1 = head1 + " /* initialiser mentions '%s' */" % word
                    break
            name_m = re.findall(r"([A-Za-z_]\w*)\s*(?:\[[^\]]*\])?\s*$", head1)
            name = name_m[-1] if name_m else "?"
            if name in ("struct", "constexpr", "const"):
                # anonymous struct: the declarator follows the closing brace
                tail = stmt[end.start():]
                depth, i = 0, 0
                for i, ch in enumerate(tail):
                    if ch == "{":
                        depth += 1
                    elif ch == "}":
                        depth -= 1
                        if depth == 0:
                            break
                nm = re.match(r"\}\s*([A-Za-z_]\w*)", tail[i:])
                name = nm.group(1) if nm else "?"
            line = txt[:start].count("\n") + 1
            decls.append((os.path.relpath(f, REPO), line, name, is_const, head1[:80]))
    return decls


def writable_symbols(objdir):
    """object symbols (STT_OBJECT / TLS) that live in a section with the W flag"""
    syms = []
    for o in sorted(glob.glob(objdir + "/*.o")):
        if os.path.basename(o) == "impl_driver.o":
            continue
        secs = {}
        r = subprocess.run(["readelf", "-SW", o], stdout=subprocess.PIPE, text=True)
        for l in r.stdout.split("\n"):
            m = re.match(r"^\s*\[\s*(\d+)\]\s+(\S*)\s+(\S+)\s+[0-9a-f]+\s+[0-9a-f]+\s+[0-9a-f]+\s+[0-9a-f]+\s+([A-Za-z]*)\s", l)
            if m:
                secs[m.group(1)] = (m.group(2), m.group(4))
        r = subprocess.run(["readelf", "-sW", o], stdout=subprocess.PIPE, text=True)
        names = []
        for l in r.stdout.split("\n"):
            t = l.split()
            if len(t) >= 8 and t[3] in ("OBJECT", "TLS") and t[6].isdigit():
                sec = secs.get(t[6], ("?", ""))
                if ("W" in sec[1] and not sec[0].startswith(".data.rel.ro")) or t[3] == "TLS":
                    names.append((sec[0], t[7]))
        if names:
            d = subprocess.run(["c++filt"], input="\n".join(n for _, n in names), stdout=subprocess.PIPE, text=True).stdout.split("\n")
            for (sec, _), dn in zip(names, d):
                syms.append((os.path.basename(o), sec[:24], dn))
    return syms


_SRC = None


def declared_const(name):
    """a namespace-scope declaration of `name` whose specifiers include const/constexpr"""
    global _SRC
    if _SRC is None:
        files = sorted(glob.glob(REPO + "/src/**/*.cpp", recursive=True) + glob.glob(REPO + "/include/**/*.hpp", recursive=True))
        _SRC = [strip(open(f, errors="replace").read()) for f in files]
    found = False
    for txt in _SRC:
        for m in re.finditer(r"([^;{}()]*)\b%s\b\s*(?:\[[^\]]*\])?\s*(=|\{|;)" % re.escape(name), txt):
            spec = m.group(1)
            if re.search(r"\b(return|if|while)\b", spec) or "." in spec.split()[-1:] :
                continue
            if re.search(r"[A-Za-z_]\w*\s*$", spec.strip()) is None:
                continue
            found = True
            if not re.search(r"\b(const|constexpr)\b", spec):
                return False
    return found


def main():
    objdir = sys.argv[1]
    decls = scan()
    const_names = {d[2] for d in decls if d[3]}
    syms = writable_symbols(objdir)
    out = ["(* GeneratedStatics.v -- produced by gen/statics.py from /repo's sources and compiled objects.  Data only. *)",
           "From Coq Require Import String List.", "Import ListNotations.", "Local Open Scope string_scope.", ""]
    out.append("Definition g_static_decls : list (string * bool) := [")
    out.append(";\n".join('  ("%s:%d: %s", %s)' % (d[0], d[1], d[4].replace('"', "'"), "true" if d[3] else "false") for d in decls))
    out.append("].\n")
    rows = []
    for (o, ty, name) in syms:
        ok = False
        if name.startswith("guard variable for ") or name.startswith("std::__ioinit") or name.startswith("__") \
                or name.startswith("DW.ref.") or "__gnu_cxx" in name or name.startswith("typeinfo") or name.startswith("vtable"):
            ok = True
        else:
            last = re.sub(r"\[abi:[^\]]*\]", "", name).split("::")[-1]
            last = re.sub(r"[^A-Za-z0-9_].*$", "", last)
            ok = last in const_names or declared_const(last)
        rows.append('  ("%s %s %s", %s)' % (o, ty, name.replace('"', "'")[:120], "true" if ok else "false"))
    out.append("Definition g_writable_symbols : list (string * bool) := [")
    out.append(";\n".join(rows))
    out.append("].")
    print("\n".join(out))


if __name__ == "__main__":
    main()
