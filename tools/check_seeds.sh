#!/bin/bash
# runs the quick check of the seed's own property against each seeded change applied to /repo
for d in "$@"; do
  prop=$(echo $d | sed 's|.*/\(C[0-9]*\)\.out/.*|\1|')
  name=$(echo $d | sed 's|/tmp/wt2/\(C[0-9]*\)\.out/|\1-r2-|; s|/tmp/wt3/\(C[0-9]*\)\.out/|\1-r3-|; s|/tmp/wt4/\(C[0-9]*\)\.out/|\1-r4-|; s|/tmp/wt5/\(C[0-9]*\)\.out/|\1-r5-|; s|/tmp/wt6/\(C[0-9]*\)\.out/|\1-r6-|; s|/tmp/wt7/\(C[0-9]*\)\.out/|\1-r7-|; s|/tmp/wt/||; s|\.out/|-|')
  if ! git -C /repo apply --check $d/patch.diff 2>/dev/null; then echo "$name: patch does not apply"; continue; fi
  git -C /repo apply $d/patch.diff
  res=$(/verif/bin/check $prop 2>&1 | grep -E "^VIOLATION|: OK|: VIOLATION|error" | tr '\n' ' ' | cut -c1-260)
  git -C /repo checkout -- .
  echo "$name: $res"
  echo "$res" > /tmp/val/$name.check
done
