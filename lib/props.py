"""Per-property configuration and the generic check engine."""
import json, os, re, subprocess, sys, time, glob

import vbuild, gen
import vcheck as vc
import special

VERIF = vbuild.VERIF

CLAUSE = {
    101: "a byte written is neither glyph payload nor part of a well-formed, known control function (or the stream ends inside one)",
    102: "the glyphs a reference terminal shows differ from the elements requested (bytes, character set or rendition)",
    103: "an operation that writes no text made the reference terminal show a glyph",
    201: "a glyph did not land on the position the cursor was moved to / the next column",
    301: "after draw the reference terminal's display differs from the canvas",
    401: "draw did not transmit exactly the changed cells, once each, in row-major order (or sent bytes for an unchanged canvas)",
    801: "the terminal_state handed to a manipulator reports as known a value that is not the reference terminal's state",
    802: "a cursor or saved-cursor position is still reported as known right after a size change",
    901: "erase: wrong region cleared, cleared cells not default blanks, cursor moved, or rendition not default afterwards",
    1101: "mode/title not as last requested, or sent in a form the declared behaviour does not support",
    1301: "bytes were sent for a rendition / position / visibility already in effect",
    1701: "the glyph bytes on the wire differ from to_string of what was written",
}

OUTPUT_FAMILIES = [("term", 1.0), ("term_wild", 0.3), ("screen", 0.5), ("screen_wild", 0.1)]

PROPS = {
    "C01": dict(targets=["Properties_C01.vo"], families=OUTPUT_FAMILIES, codes=[101, 102, 103]),
    "C02": dict(targets=["Properties_C02.vo"], families=OUTPUT_FAMILIES, codes=[201]),
    "C03": dict(targets=["Properties_C03.vo"], families=[("screen", 1.0), ("screen_wild", 0.2), ("term", 0.3)], codes=[301]),
    "C04": dict(targets=["Properties_C04.vo"], families=[("screen", 1.0), ("screen_wild", 0.2), ("term", 0.3)], codes=[401]),
    "C08": dict(targets=["Properties_C08.vo"], families=OUTPUT_FAMILIES, codes=[801, 802]),
    "C09": dict(targets=["Properties_C09.vo"], families=OUTPUT_FAMILIES, codes=[901]),
    "C11": dict(targets=["Properties_C11.vo"], families=[("term", 0.5), ("term_modes", 1.0), ("term_wild", 0.2), ("screen", 0.3), ("shared_manip", 0.3)], codes=[1101]),
    "C13": dict(targets=["Properties_C13.vo"], families=OUTPUT_FAMILIES, codes=[1301]),
    "C16": dict(targets=["Properties_C16.vo"], families=[("canvas", 1.0), ("canvas_alias", 0.5)], codes=[], extra="c16"),
    "C15": dict(targets=["Properties_C15.vo"], families=[("values", 1.0), ("show", 0.3), ("strobj", 0.2)], codes=[], extra="c15"),
    "C17": dict(targets=["Properties_C17.vo"], families=[("term", 1.0), ("term_wild", 0.3), ("strings", 0.7), ("strobj", 0.7)], codes=[1701], extra="c17"),
    "C05": dict(targets=["Properties_C05.vo"], families=[("items", 1.0), ("garbage", 0.3), ("keyseq", 0.3)], codes=[], extra="c05", expand=True),
    "C06": dict(targets=["Properties_C06.vo"], families=[("chunks", 1.0), ("items", 0.3)], codes=[], extra="c06", expand=True),
    "C07": dict(targets=["Properties_C07.vo"], families=[("garbage", 1.0), ("chunks", 0.5), ("markup_wild", 1.0)], codes=[], extra="c07", expand=True),
    "C20": dict(targets=["Properties_C20.vo"], families=[("chunks", 1.0), ("keyseq", 0.5), ("items", 0.5), ("garbage", 0.5)], codes=[], extra="c20", expand=True),
    "C10": dict(targets=["Properties_C10.vo"], families=[("markup", 1.0), ("markup_respell", 0.5), ("markup_plain", 0.2), ("markup_wild", 0.3)], codes=[], extra="c10"),
    "C12": dict(targets=["Properties_C12.vo"], families=[("canvas_alias", 0.5), ("strobj", 0.3), ("shared_manip", 0.3)], codes=[], special="c12", extra="c16s"),
    "C14": dict(targets=["Properties_C14.vo"], families=[], codes=[], special="c14"),
    "C18": dict(targets=["Properties_C18.vo"], families=[("charset_sweep", 1.0), ("term", 0.5)], codes=[101, 102], extra="c18"),
    "C19": dict(targets=["Properties_C19.vo"], families=[("term", 0.5), ("show_sweep", 1.0), ("show", 0.5)], codes=[102], extra="c19"),
}

PARTIAL = {
    "C07": "PARTIAL: absence of undefined behaviour in the compiled C++ is not proved; it is observed by running every generated input through the real library under ASan+UBSan (exploration). Termination, size bound, index obligations and resynchronisation are proved on the model.",
    "C12": "PARTIAL: data-race freedom of the compiled program is not proved; it is observed by interleaved and threaded runs (TSan in the thorough tier). The frame property of the model and the absence of mutable statics in the current sources/objects are proved.",
    "C14": "PARTIAL: delivery to the process's standard output is OS/runtime behaviour and is not proved; it is observed with a child process over the real stdout_channel. The channel model's homomorphism is proved.",
}

BASE_N = {"quick": 4000, "thorough": 20000}
THOROUGH_SEEDS = 5


def gen_family(family, seed, n):
    """-> list of script lines (many cases)"""
    r = gen.Rng(gen.family_seed(seed, family))
    lines = []
    if family == "charset_sweep":
        return gen.gen_charset_sweep()
    for i in range(n):
        cid = i + 1
        if family == "term":
            lines += gen.gen_term_case(r, cid)
        elif family == "term_wild":
            lines += gen.gen_term_case(r, cid, wild=True)
        elif family == "term_modes":
            lines += gen.gen_term_case(r, cid, kinds=[0, 9, 13, 15, 21, 22, 23, 26, 26, 27, 27, 28, 28, 29, 29, 30, 30, 31])
        elif family == "screen":
            lines += gen.gen_screen_case(r, cid)
        elif family == "screen_wild":
            lines += gen.gen_screen_case(r, cid, wild=True)
        elif family == "canvas":
            lines += gen.gen_canvas_case(r, cid)
        elif family == "canvas_alias":
            lines += gen.gen_canvas_alias_case(r, cid)
        elif family == "values":
            lines += gen.gen_value_case(r, cid)
        elif family == "items":
            lines += gen.gen_items_case(r, cid)
        elif family == "chunks":
            lines += gen.gen_chunks_case(r, cid)
        elif family == "strings":
            lines += gen.gen_strings_case(r, cid)
        elif family == "show":
            lines += gen.gen_show_case(r, cid)
        elif family == "strobj":
            lines += gen.gen_strobj_case(r, cid)
        elif family == "shared_manip":
            lines += gen.gen_shared_manip_case(r, cid)
        elif family == "show_sweep":
            return gen.gen_show_sweep()
        elif family == "parser_enum":
            return gen.gen_parser_enum(4 if n >= 10000 else 3)
        elif family == "keyseq":
            lines += gen.gen_keyseq_case(r, cid)
        elif family == "garbage":
            lines += gen.gen_garbage_case(r, cid)
        elif family == "markup":
            lines += gen.gen_markup_case(r, cid)
        elif family == "markup_respell":
            lines += gen.gen_markup_case(r, cid, respell=True)
        elif family == "markup_plain":
            lines += gen.gen_plain_case(r, cid)
        elif family == "markup_wild":
            lines += gen.gen_markup_wild_case(r, cid)
        else:
            raise ValueError(family)
    return lines


# ---- property-specific oracles over the IMPLEMENTATION's output ----------------
def oracle_c16(impl_lines):
    """C16 on the real canvas (several canvases per case): size*count, row-major
    addressing, region order, retention across resize, and no effect of an
    operation on any canvas other than the one it addresses (copies are values)"""
    fails = []
    cases, order = vc.split_cases(impl_lines)
    for cid in order:
        cv = {}      # id -> dict(w, h, grid{(x,y): elem})
        dump, region, pend = [], None, None
        lines = cases[cid] + ["> END"]
        for l in lines:
            if l.startswith("> "):
                if pend and pend[0] == "dump" and pend[2] is not None:
                    c = cv[pend[1]]
                    (kw, kh, cnt) = pend[2]
                    w, h = c["w"], c["h"]
                    if (kw, kh) != (w, h):
                        fails.append((cid, "canvas %s: size() reports %dx%d, expected %dx%d" % (pend[1], kw, kh, w, h)))
                    elif cnt != kw * kh or len(dump) != cnt:
                        fails.append((cid, "canvas %s of %dx%d exposes %d cells in begin()..end()" % (pend[1], kw, kh, cnt)))
                    else:
                        for i, e in enumerate(dump):
                            x, y = (i % w, i // w)
                            want = c["grid"].get((x, y), DEFAULT)
                            if e != want:
                                fails.append((cid, "canvas %s: cell (%d,%d) = begin()[%d] holds %s, expected %s" % (pend[1], x, y, i, e, want)))
                                break
                if pend and pend[0] == "region":
                    c = cv[pend[1]]
                    (x0, y0, rw, rh) = pend[2]
                    want = [(x, y, c["grid"].get((x, y), DEFAULT)) for y in range(y0, y0 + rh) for x in range(x0, x0 + rw)]
                    if region != want:
                        fails.append((cid, "canvas %s: region (%d,%d,%d,%d) visited %d cells, expected %d in row-major order with matching contents" % (pend[1], x0, y0, rw, rh, len(region), len(want))))
                pend = None
                t = l[2:].split()
                if len(t) >= 3 and t[0] == "K":
                    k = t[1]
                    if t[2] == "new":
                        cv[k] = {"w": int(t[3]), "h": int(t[4]), "grid": {}}
                    elif t[2] in ("copy", "assign", "move"):
                        src = cv[t[3]]
                        keep = cv.get(k, {}).get("held") if t[2] == "assign" else None
                        cv[k] = {"w": src["w"], "h": src["h"], "grid": dict(src["grid"])}    # handles are not copied
                        if keep is not None:
                            cv[k]["held"] = keep      # a column handle on the target still names that column
                        if t[2] == "move":
                            del cv[t[3]]
                    elif t[2] == "set":
                        cv[k]["grid"][(int(t[3]), int(t[4]))] = " ".join(t[5:])
                    elif t[2] == "fill":
                        e = " ".join(t[3:])
                        cv[k]["grid"] = {(x, y): e for x in range(cv[k]["w"]) for y in range(cv[k]["h"])}
                    elif t[2] == "iterset":
                        i = int(t[3])
                        cv[k]["grid"][(i % cv[k]["w"], i // cv[k]["w"])] = " ".join(t[4:])
                    elif t[2] == "hold":
                        cv[k]["held"] = (int(t[3]), int(t[4]))
                    elif t[2] == "heldset":
                        # a handle taken earlier still denotes that cell of THAT canvas
                        cv[k]["grid"][cv[k]["held"]] = " ".join(t[4:])
                    elif t[2] == "resize":
                        nw, nh = int(t[3]), int(t[4])
                        c = cv[k]
                        c["grid"] = {(x, y): e for (x, y), e in c["grid"].items() if x < nw and y < nh and x < c["w"] and y < c["h"]}
                        c["w"], c["h"] = nw, nh
                    elif t[2] == "dump":
                        dump = []
                        pend = ["dump", k, None]
                    elif t[2] == "region":
                        region = []
                        pend = ["region", k, tuple(int(x) for x in t[3:7])]
                    elif t[2] == "get":
                        pend = ["get", k, (int(t[3]), int(t[4]))]
            elif l.startswith("KSZ ") and pend and pend[0] == "dump":
                a = l.split()
                pend[2] = (int(a[1]), int(a[2]), int(a[3]))
            elif l.startswith("KE "):
                dump.append(l[3:])
            elif l.startswith("KR ") and region is not None:
                a = l.split()
                region.append((int(a[1]), int(a[2]), " ".join(a[3:])))
            elif l.startswith("KRX "):
                fails.append((cid, "for_each_in_region on a const canvas visits other cells/elements than on the canvas itself"))
            elif l.startswith("KG ") and pend and pend[0] == "get":
                x, y = pend[2]
                want = cv[pend[1]]["grid"].get((x, y), DEFAULT)
                if l[3:] != want:
                    fails.append((cid, "canvas %s: canvas[%d][%d] holds %s, expected %s" % (pend[1], x, y, l[3:], want)))
    return fails


DEFAULT = "5 32 0 0 0 9 0 0 0 9 0 0 0 0 0 0"


def oracle_c15(impl_lines):
    """C15 laws visible on one pair: == vs <=>, < vs <=>, derived operators,
    equal => equal hashes."""
    fails = []
    cases, order = vc.split_cases(impl_lines)
    for cid in order:
        last = ""
        for l in cases[cid]:
            if l.startswith("> "):
                last = l
            if l.startswith("G ") and last.startswith("> V gptr "):
                txt = bytes.fromhex(last.split()[3]) if last.split()[3] != "-" else b""
                b0 = txt[0] if txt else 0
                n = 1 if b0 < 0x80 else 2 if 0xC2 <= b0 <= 0xDF else 3 if 0xE0 <= b0 <= 0xEF else 0
                if n and len(txt) >= n and all(0x80 <= c <= 0xBF for c in txt[1:n]):
                    want = [18] + list(txt[:n]) + [0] * (3 - n)
                    got = [int(x) for x in l.split()[1:5]]
                    if got != want:
                        fails.append((cid, "a glyph made from a pointer into the text %s holds %s; the text's first character alone gives %s, and both print the same bytes" % (txt.hex(), got, want)))
            if l.startswith("CMPX "):
                fails.append((cid, "the answers of the comparison operators changed %s (%s)" % (l[5:], last[2:])))
            if l.startswith("CMP "):
                a = l.split()
                eq, ne, lt, gt, le, ge, three = [int(x) for x in a[1:8]]
                heq = a[8]
                ok = (eq == (three == 0)) and (ne == 1 - eq) and (lt == (three < 0)) and (gt == (three > 0)) \
                    and (le == (three <= 0)) and (ge == (three >= 0)) and not (lt and gt)
                if eq and heq == "0":
                    ok = False
                if not ok:
                    fails.append((cid, "inconsistent comparison results %s for %s" % (l, last)))
                # reflexive pair?
                t = last[2:].split()
                if len(t) > 2 and t[0] == "V":
                    args = t[2:]
                    if len(args) % 2 == 0 and args[: len(args) // 2] == args[len(args) // 2:] and t[1] != "str" and not eq:
                        fails.append((cid, "a value is not equal to itself: %s" % last))
    return fails


LOW_NAMES = {0: "black", 1: "red", 2: "green", 3: "yellow", 4: "blue", 5: "magenta", 6: "cyan", 7: "white", 9: "default"}


def colour_text(k, a, b, c):
    """the text a colour is shown as, from the components it was built from
    (None where the property says nothing: values outside the palette ranges)"""
    if k == 0:
        return LOW_NAMES.get(a)
    if k == 1 and 16 <= a <= 231:
        v = a - 16
        return "#%d%d%d" % (v // 36, (v // 6) % 6, v % 6)
    if k == 2 and 232 <= a <= 255:
        return "#%02d" % (a - 232)
    if k == 3:
        return "#%02X%02X%02X" % (a, b, c)
    return None


SHOW_ARITY = {"colour": 4, "attr": 12, "cs": 1, "glyph": 4, "elem": 16, "point": 2, "extent": 2, "rect": 4}


def oracle_show(impl_lines):
    """values inserted into one stream: the text equals the texts of the same
    values shown each on a fresh stream (no dependence on what was streamed
    before), and a colour is shown as the components it was built from"""
    fails = []
    cases, order = vc.split_cases(impl_lines)
    for cid in order:
        last, sh = None, None
        for l in cases[cid]:
            if l.startswith("> V show "):
                last, sh = l, None
            elif l.startswith("> "):
                last = None
            elif l.startswith("SH ") and last:
                sh = l[3:].strip()
            elif l.startswith("SHS ") and last and sh is not None:
                shs = l[4:].strip()
                if sh != shs:
                    fails.append((cid, "values shown one after another on one stream read %r, the same values each on a fresh stream read %r" % (
                        bytes.fromhex(sh if sh != "-" else ""), bytes.fromhex(shs if shs != "-" else ""))))
                    continue
                texts = bytes.fromhex(sh if sh != "-" else "").split(b"\n")
                t = last[2:].split()[4:]
                i, k = 0, 0
                while i < len(t):
                    tag = t[i]
                    if tag == "str":
                        n = 1 + 16 * int(t[i + 1])
                    else:
                        n = SHOW_ARITY[tag]
                    if tag == "colour":
                        want = colour_text(*[int(x) for x in t[i + 1:i + 5]])
                        if want is not None and k < len(texts) and texts[k] != want.encode():
                            fails.append((cid, "colour %s is shown as %r, expected %r" % (" ".join(t[i + 1:i + 5]), texts[k], want)))
                    i += 1 + n
                    k += 1
    return fails


def oracle_c15s(impl_lines):
    return oracle_c15(impl_lines) + oracle_show(impl_lines) + oracle_strobj(impl_lines)


def oracle_c17s(impl_lines):
    return oracle_c17(impl_lines) + oracle_strobj(impl_lines)


def oracle_c16s(impl_lines):
    return oracle_c16(impl_lines) + oracle_strobj(impl_lines)


def parse_cb(line):
    """CB n | tok | tok ... -> list of token strings"""
    parts = line.split(" | ")
    return [p.strip() for p in parts[1:]]


def oracle_c05(impl_lines):
    """every delivery of well-formed items yields exactly the tokens Proto.v
    says (one per item, in order); items cut across two reads (with other use of
    the terminal between them) yield them over the two callbacks"""
    fails = []
    cases, order = vc.split_cases(impl_lines)
    for cid in order:
        expect, wf, armed, parts = [], True, False, 1
        pending = None
        for l in cases[cid]:
            if l.startswith("> # ITEMS"):
                expect = []
                wf = " wf=1" in l
                parts = 2 if l.strip().endswith("split") else 1
                armed = True
            elif l.startswith("> # EXPECT "):
                expect.append(l[len("> # EXPECT "):].strip())
            elif l.startswith("> T ") and " recv " in l:
                if pending and pending[3] > 0:
                    continue
                pending = [list(expect), wf, armed, parts, []]
                armed = False
            elif l.startswith("CB ") and pending and pending[3] > 0:
                pending[4] += parse_cb(l)
                pending[3] -= 1
                if pending[3] == 0:
                    exp, w, a, _n, got = pending
                    pending = None
                    if a and w and got != exp:
                        k = next((i for i in range(max(len(got), len(exp))) if i >= len(got) or i >= len(exp) or got[i] != exp[i]), 0)
                        fails.append((cid, "item %d decoded as [%s], the protocol says [%s] (%d tokens for %d items)" % (
                            k, got[k] if k < len(got) else "<nothing>", exp[k] if k < len(exp) else "<nothing>", len(got), len(exp))))
    return fails


def oracle_c06(impl_lines):
    """within a case every terminal receives the same byte stream under a
    different partition: the concatenated tokens must agree, and every delivery
    must produce exactly one callback"""
    fails = []
    cases, order = vc.split_cases(impl_lines)
    for cid in order:
        toks, recvs, cbs, streams = {}, {}, {}, {}
        cur = None
        late = set()          # terminals whose client re-arms before it reads its tokens
        batch = None          # callbacks of one recvq, in the order they finished

        def close_batch():
            if batch is not None and cur is not None:
                for tk in (reversed(batch) if cur in late else batch):
                    toks.setdefault(cur, []).extend(tk)

        for l in cases[cid] + ["> END"]:
            if l.startswith("> "):
                close_batch()
                batch = None
            if l.startswith("> T ") and " arm2" in l:
                late.add(l.split()[2])
                cur = None
            elif l.startswith("> T ") and " recvq " in l:
                t = l.split()
                cur = t[2]
                n = int(t[4])
                recvs[cur] = recvs.get(cur, 0) + n
                streams[cur] = streams.get(cur, "") + "".join(x for x in t[5:5 + n] if x != "-")
                batch = []
            elif l.startswith("> T ") and " recv " in l:
                t = l.split()
                cur = t[2]
                recvs[cur] = recvs.get(cur, 0) + 1
                streams[cur] = streams.get(cur, "") + (t[4] if t[4] != "-" else "")
            elif l.startswith("> "):
                cur = None
            elif l.startswith("CB ") and cur is not None:
                cbs[cur] = cbs.get(cur, 0) + 1
                if batch is not None:
                    batch.append(parse_cb(l))
                else:
                    toks.setdefault(cur, []).extend(parse_cb(l))
        for t in recvs:
            if cbs.get(t, 0) != recvs[t]:
                fails.append((cid, "terminal %s: %d deliveries produced %d callback invocations" % (t, recvs[t], cbs.get(t, 0))))
        byst = {}
        for t in recvs:
            byst.setdefault(streams[t], []).append(t)
        for st, ts in byst.items():
            for t in ts[1:]:
                if toks.get(t, []) != toks.get(ts[0], []):
                    fails.append((cid, "stream %s: tokens differ between the partition of terminal %s and that of terminal %s" % (st or "-", ts[0], t)))
    return fails


ABSTRACT = set(range(128, 151))
CSI_KEY = {65: 128, 66: 129, 67: 131, 68: 130, 72: 132, 70: 134, 73: 9, 90: 137}
SS3_KEY = {65: 128, 66: 129, 67: 131, 68: 130, 72: 132, 70: 134, 73: 9, 77: 138, 80: 139, 81: 140, 82: 141, 83: 142}
KEYPAD_KEY = {1: 132, 2: 133, 3: 127, 4: 134, 5: 135, 6: 136, 11: 139, 12: 140, 13: 141, 14: 142, 15: 143,
              17: 144, 18: 145, 19: 146, 20: 147, 21: 148, 23: 149, 24: 150}


def seq_renderings(init, cmd, args):
    """the ways a control sequence (initiator, arguments, command) can be spelled,
    private markers ignored"""
    body = b";".join(bytes.fromhex(a) if a != "-" else b"" for a in args) + bytes([cmd])
    outs = [bytes([27, init]) + body]
    if init == 91:
        outs.append(bytes([155]) + body)
    if init == 79:
        outs.append(bytes([143]) + body)
    return outs


def oracle_c20(impl_lines):
    """an abstract key only from a sequence / line ending that encodes it; a
    single ordinary byte is the key whose value is that byte; and the sequence a
    key token carries was actually received"""
    fails = []
    known = {f["id"]: f for f in vc.load_known().get("findings", [])}
    d3 = set(known.get("D3", {}).get("match", {}).get("bytes", []))
    cases, order = vc.split_cases(impl_lines)
    for cid in order:
        streams = {}
        cur = None
        for l in cases[cid]:
            if l.startswith("> T ") and " recv " in l:
                t = l.split()
                cur = t[2]
                streams[cur] = streams.get(cur, b"") + (bytes.fromhex(t[4]) if t[4] != "-" else b"")
                continue
            if l.startswith("> "):
                cur = None
            if not l.startswith("CB "):
                continue
            for tk in parse_cb(l):
                a = tk.split()
                if a[0] != "VK":
                    continue
                key = int(a[1])
                if a[4] == "B":
                    b = int(a[5])
                    if key == 138 and b == 10:
                        continue
                    if key != b:
                        fails.append((cid, "single byte %d reported as key %d" % (b, key)))
                    elif key in ABSTRACT:
                        if b in d3:
                            fails.append((cid, "KNOWN:D3"))
                        else:
                            fails.append((cid, "single byte %d reported as abstract key %d" % (b, key)))
                else:
                    init, cmd = int(a[5]), int(a[6])
                    nargs = int(a[9])
                    args = a[10:10 + nargs]
                    arg0 = args[0] if nargs > 0 else "-"
                    want = None
                    if init == 91 and cmd == 126:
                        try:
                            n = int(bytes.fromhex(arg0).decode()) if arg0 != "-" else None
                        except ValueError:
                            n = None
                        want = KEYPAD_KEY.get(n)
                    elif init == 91:
                        want = CSI_KEY.get(cmd)
                    elif init == 79:
                        want = SS3_KEY.get(cmd)
                    if want != key:
                        fails.append((cid, "key %d reported for a control sequence (initiator %d, command %d, first argument %s) that does not encode it" % (key, init, cmd, arg0)))
                    elif cur is not None:
                        norm = bytes(x for x in streams.get(cur, b"") if x not in (63, 62, 33))
                        if not any(rn in norm for rn in seq_renderings(init, cmd, args)):
                            fails.append((cid, "key %d reported with a control sequence (initiator %d, arguments %s, command %d) that does not occur in the input received" % (key, init, ",".join(args), cmd)))
    return fails


def xterm_mods(code):
    m = code - 1
    return (1 if m & 1 else 0) + (2 if m & 4 else 0) + (4 if m & 2 else 0) + (8 if m & 8 else 0)


def oracle_keyvalues(impl_lines):
    """what a key sequence's numeric parameters mean, from their VALUES (however they
    are spelled - leading zeros included): CSI n ~ with n in the key table is that
    key (never a bare control sequence); a cursor key's repeat count is max(n,1)
    (saturating at INT_MAX); the second parameter is the xterm modifier code"""
    fails = []
    cases, order = vc.split_cases(impl_lines)
    INT_MAX = 2147483647

    def val(hx):
        if hx == "-":
            return None
        try:
            txt = bytes.fromhex(hx).decode()
        except (ValueError, UnicodeDecodeError):
            return None
        return int(txt) if txt.isdigit() else None

    for cid in order:
        for l in cases[cid]:
            if not l.startswith("CB "):
                continue
            for tk in parse_cb(l):
                a = tk.split()
                if a[0] == "VK" and a[4] == "C":
                    key, mods, rep, seq = int(a[1]), int(a[2]), int(a[3]), a[5:]
                elif a[0] == "CS":
                    key, mods, rep, seq = None, None, None, a[1:]
                else:
                    continue
                init, cmd, meta, ext, nargs = int(seq[0]), int(seq[1]), int(seq[2]), int(seq[3]), int(seq[4])
                args = seq[5:5 + nargs]
                if init != 91 or ext != 0:
                    continue
                vals = [val(x) for x in args]
                if any(v is None for v in vals) and args != ["-"]:
                    continue
                n0 = vals[0] if vals and vals[0] is not None else None
                n1 = vals[1] if len(vals) > 1 else None
                wantmods = ((xterm_mods(n1) if n1 is not None and 1 <= n1 <= 16 else None), 8 if meta else 0)
                if cmd == 126 and n0 in KEYPAD_KEY and len(args) <= 2:
                    if key != KEYPAD_KEY[n0]:
                        fails.append((cid, "CSI %s ~ (value %d) reported as %s, the protocol says key %d" % (args[0], n0, "key %d" % key if key is not None else "a bare control sequence", KEYPAD_KEY[n0])))
                    elif wantmods[0] is not None and mods != (wantmods[0] | wantmods[1]):
                        fails.append((cid, "CSI %s ~: modifier parameter %d reported as modifiers %d, expected %d" % (";".join(args), n1, mods, wantmods[0] | wantmods[1])))
                elif cmd in CSI_KEY and key is not None and len(args) <= 2:
                    wantrep = min(max(n0 or 1, 1), INT_MAX)
                    if rep != wantrep:
                        fails.append((cid, "cursor key with count parameter %s (value %s) reported with repeat count %d, expected %d" % (args[0], n0, rep, wantrep)))
                    elif wantmods[0] is not None and mods != (wantmods[0] | wantmods[1]):
                        fails.append((cid, "cursor key: modifier parameter %d reported as modifiers %d, expected %d" % (n1, mods, wantmods[0] | wantmods[1])))
    return fails


def oracle_c05s(impl_lines):
    return oracle_c05(impl_lines) + oracle_keyvalues(impl_lines)


def oracle_c18(impl_lines):
    """designators against the VT/xterm table: what each candidate looks up to
    (via the markup decoder) and what is sent to designate each set"""
    fails = []
    cases, order = vc.split_cases(impl_lines)
    for cid in order:
        wantcs, wantd, ws = None, None, []
        wantlk = None
        src = ""
        for l in cases[cid]:
            if l.startswith("> # WANTLK "):
                wantlk = l.split()[3]
            elif l.startswith("> M lookup"):
                src = l
            elif l.startswith("LK ") and wantlk is not None:
                if l.split()[1] != wantlk:
                    fails.append((cid, "%s looks up to %s, the standard says %s (only the bytes of the view count)" % (src[2:], l.split()[1], wantlk)))
                wantlk = None
            if l.startswith("> # WANTCS "):
                wantcs = int(l.split()[3])
            elif l.startswith("> # WANTDESIG "):
                wantd = l.split()[3]
            elif l.startswith("> M ete"):
                src = l
            elif l.startswith("E ") and wantcs is not None:
                got = int(l.split()[1])
                # the glyph 'X' follows the directive; an unknown designator leaves us_ascii (5);
                # a two-byte form consumes the X only when '%' is taken as the extender
                if got != wantcs:
                    fails.append((cid, "designator in %s selects character set %d, the standard says %d" % (src[2:], got, wantcs)))
            elif l.startswith("W ") and wantd is not None:
                ws.append(l[2:].strip())
        if wantd is not None and len(ws) >= 2 and wantd != "42":
            if ("1b28" + wantd) not in ws[1]:
                fails.append((cid, "designating the set wrote %s, which does not contain ESC ( %s" % (ws[1], wantd)))
    return fails


def wire_text(nums):
    """hex of the glyph bytes a terminal transmits for elements given as 16 ints
    each; None when a glyph is not well-formed (the property is about text)"""
    out = []
    for i in range(0, len(nums) - 15, 16):
        cs, b0, b1, b2 = nums[i:i + 4]
        if cs != 18:
            out.append(b0)
        elif b0 < 0x80 and b1 == 0 and b2 == 0:
            out.append(b0)
        elif 0xC2 <= b0 <= 0xDF and 0x80 <= b1 <= 0xBF and b2 == 0:
            out += [b0, b1]
        elif 0xE0 <= b0 <= 0xEF and 0x80 <= b1 <= 0xBF and 0x80 <= b2 <= 0xBF:
            out += [b0, b1, b2]
        else:
            return None
    return bytes(out).hex() if out else "-"


def glyph_bytes(nums):
    """the text of one element (16 ints): its glyph's bytes, None if not well-formed UTF-8"""
    cs, b0, b1, b2 = nums[:4]
    if cs != 18:
        return [b0]
    if b0 < 0x80 and b1 == 0 and b2 == 0:
        return [b0]
    if 0xC2 <= b0 <= 0xDF and 0x80 <= b1 <= 0xBF and b2 == 0:
        return [b0, b1]
    if 0xE0 <= b0 <= 0xEF and 0x80 <= b1 <= 0xBF and 0x80 <= b2 <= 0xBF:
        return [b0, b1, b2]
    return None


def oracle_strobj(impl_lines):
    """objects of the string class against an independent mirror: after every
    operation every string holds exactly the elements the operations put
    there (distinct objects do not influence each other), its observers agree,
    and to_string is the glyph bytes in order"""
    fails = []
    cases, order = vc.split_cases(impl_lines)
    DEF_ATTR = [0, 9, 0, 0, 0, 9, 0, 0, 0, 0, 0, 0]

    def norm(e):
        # the unused storage bytes of a non-UTF-8 glyph are not part of its value
        e = list(e)
        if e[0] != 18:
            e[2] = e[3] = 0
        return tuple(e)

    def elems(t, i, n):
        return [norm(int(x) for x in t[i + 16 * j:i + 16 * (j + 1)]) for j in range(n)]

    def ofb(hx, attr=None):
        bs = bytes.fromhex(hx) if hx != "-" else b""
        return [tuple([5, b, 0, 0] + (attr or DEF_ATTR)) for b in bs]

    for cid in order:
        st = {}
        sheld = {}
        pend, got, zs, ts = None, [], None, None

        def finish():
            if pend is None:
                return
            want = st.get(pend)
            if want is None:
                return
            if zs is None or zs != (len(want), 1 if not want else 0):
                fails.append((cid, "string %s: size()/empty() report %s, expected %d elements" % (pend, zs, len(want))))
            elif [norm(g) for g in got] != want:
                k = next((i for i in range(max(len(got), len(want))) if i >= len(got) or i >= len(want) or norm(got[i]) != want[i]), 0)
                fails.append((cid, "string %s: element %d is %s, the operations performed put %s there" % (
                    pend, k, got[k] if k < len(got) else "<missing>", want[k] if k < len(want) else "<nothing>")))
            else:
                gb = [glyph_bytes(e) for e in want]
                if all(g is not None for g in gb):
                    text = bytes(b for g in gb for b in g).hex() or "-"
                    if ts != text:
                        fails.append((cid, "string %s: to_string gives %s, the glyph bytes in order are %s" % (pend, ts, text)))

        for l in cases[cid] + ["> END"]:
            if l.startswith("> "):
                finish()
                pend, got, zs, ts = None, [], None, None
                t = l[2:].split()
                if len(t) < 3 or t[0] != "Z":
                    continue
                k, op = t[1], t[2]
                try:
                    if op in ("ofbytes", "ofstd"):
                        st[k] = ofb(t[3])
                    elif op == "ofstdattr":
                        st[k] = ofb(t[3], [int(x) for x in t[4:16]])
                    elif op == "cstr":
                        bs = bytes.fromhex(t[3]) if t[3] != "-" else b""
                        st[k] = ofb(bs.split(b"\0")[0].hex() or "-")
                    elif op == "fill":
                        st[k] = elems(t, 4, 1) * int(t[3])
                    elif op in ("range", "ilist"):
                        st[k] = elems(t, 4, int(t[3]))
                    elif op in ("copy", "assign"):
                        st[k] = list(st[t[3]])
                    elif op == "move":
                        st[k] = list(st[t[3]]); del st[t[3]]
                    elif op == "appendelem":
                        st[k] = st[k] + elems(t, 3, 1)
                    elif op == "appendown":
                        st[k] = st[k] + [st[k][int(t[3])]]
                    elif op == "append":
                        st[k] = st[k] + st[t[3]]
                    elif op == "plus":
                        st[k] = st[t[3]] + st[t[4]]
                    elif op == "pluselem":
                        st[k] = st[t[3]] + elems(t, 4, 1)
                    elif op == "insert":
                        p0 = int(t[3]); st[k] = st[k][:p0] + elems(t, 4, 1) + st[k][p0:]
                    elif op == "insertrange":
                        p0 = int(t[3]); st[k] = st[k][:p0] + st[t[4]] + st[k][p0:]
                    elif op == "insertstream":
                        p0 = int(t[3]); st[k] = st[k][:p0] + ofb(t[4]) + st[k][p0:]
                    elif op == "erase":
                        st[k] = []
                    elif op == "erasefrom":
                        st[k] = st[k][:int(t[3])]
                    elif op == "eraserange":
                        st[k] = st[k][:int(t[3])] + st[k][int(t[4]):]
                    elif op == "setat":
                        i = int(t[3]); st[k] = st[k][:i] + elems(t, 4, 1) + st[k][i + 1:]
                    elif op == "swap":
                        st[k], st[t[3]] = st[t[3]], st[k]
                    elif op == "hold":
                        sheld[k] = int(t[3])
                    elif op == "heldset":
                        i = sheld[k]; st[k] = st[k][:i] + elems(t, 4, 1) + st[k][i + 1:]
                    elif op == "dump":
                        pend = k
                except (KeyError, IndexError, ValueError):
                    pass
            elif l.startswith("ZS ") and pend is not None:
                a = l.split(); zs = (int(a[1]), int(a[2]))
            elif l.startswith("E ") and pend is not None:
                got.append([int(x) for x in l.split()[1:17]])
            elif l.startswith("TS ") and pend is not None:
                ts = l[3:].strip()
            elif l.startswith("ZX "):
                fails.append((cid, "string %s: %s" % (pend, l[3:])))
    return fails


def oracle_c17(impl_lines):
    """bytes -> attributed string -> to_string is the identity; to_string
    distributes over concatenation"""
    fails = []
    cases, order = vc.split_cases(impl_lines)
    for cid in order:
        pend = None
        ts = []
        for l in cases[cid] + ["> END"]:
            if l.startswith("> "):
                if pend:
                    kind, arg = pend
                    if kind == "round" and (len(ts) != 1 or ts[0] != arg):
                        fails.append((cid, "bytes %s converted to an attributed string and back give %s" % (arg, ts[0] if ts else "<nothing>")))
                    if kind == "wire" and (len(ts) != 1 or ts[0] != arg):
                        fails.append((cid, "to_string of a string whose glyphs are transmitted as %s gives %s" % (arg, ts[0] if ts else "<nothing>")))
                    if kind == "concat" and (len(ts) != 2 or ts[0] != ts[1]):
                        fails.append((cid, "to_string(a + b) = %s but to_string(a) + to_string(b) = %s" % (ts[0] if ts else "?", ts[1] if len(ts) > 1 else "?")))
                pend, ts = None, []
                t = l[2:].split()
                if len(t) >= 3 and t[0] == "M" and t[1] == "tostring":
                    want = wire_text([int(x) for x in t[3:]])
                    if want is not None:
                        pend = ("wire", want)
                elif len(t) >= 3 and t[0] == "M" and t[1] in ("ofbytes", "ofstd", "ofstdattr"):
                    pend = ("round", t[2])
                elif len(t) >= 2 and t[0] == "M" and t[1] == "concat":
                    pend = ("concat", None)
            elif l.startswith("TS "):
                ts.append(l[3:].strip())
    return fails


def oracle_c10(impl_lines):
    """the elements decoded from canonical markup are the elements it describes"""
    fails = []
    cases, order = vc.split_cases(impl_lines)
    for cid in order:
        want, got, active = None, None, False
        for l in cases[cid] + ["> END"]:
            if l.startswith("> # WANT "):
                want = []
            elif l.startswith("> # WANTE "):
                if want is None:
                    want = []
                want.append(l[len("> # WANTE "):].strip())
            elif l.startswith("> M encodearr"):
                got = []
                active = "prefix"       # the buffer's NUL padding decodes to further elements
            elif l.startswith("> M encode") or l.startswith("> M ets"):
                got = []
                active = True
            elif l.startswith("E ") and active:
                got.append(l[2:].strip())
            elif l.startswith("> ") and active:
                if active == "prefix" and want is not None:
                    got = got[:len(want)]
                active = False
                if want is not None and got != want:
                    k = next((i for i in range(max(len(got), len(want))) if i >= len(got) or i >= len(want) or got[i] != want[i]), 0)
                    fails.append((cid, "element %d decoded as [%s], the markup describes [%s] (%d decoded, %d described)" % (
                        k, got[k] if k < len(got) else "<nothing>", want[k] if k < len(want) else "<nothing>", len(got), len(want))))
    return fails


def oracle_c07(impl_lines):
    return oracle_c05(impl_lines)


EXTRA = {"c19": oracle_show, "c16": oracle_c16, "c15": oracle_c15s, "c05": oracle_c05s, "c06": oracle_c06, "c20": oracle_c20, "c07": oracle_c07, "c10": oracle_c10, "c17": oracle_c17s, "c16s": oracle_c16s, "c18": oracle_c18}


def known_for(pid):
    k = vc.load_known()
    return [f for f in k.get("findings", []) if f.get("property") == pid]


def match_known(pid, fail, case_lines, all_fails=()):
    """is this oracle failure exactly one of the listed open findings?"""
    for f in known_for(pid):
        m = f.get("match", {})
        if m.get("kind") == "immediate-wrap-bottom-right" and fail.get("code") == 301 \
                and fail.get("cfg", "").startswith("immediate/"):
            # excused only when, under the same reference terminal, this draw or
            # an earlier one of the same case wrote the bottom-right cell
            idx = marker_index(all_fails)
            first = idx.get((fail["case"], fail["term"], fail["cfg"]))
            if first is not None and first <= fail["op"]:
                return f
    return None


_MARKERS = {}


def marker_index(all_fails):
    """(case, terminal, configuration) -> index of the earliest operation that carries
    the D7 marker 399; built once per list of oracle reports"""
    key = id(all_fails)
    hit = _MARKERS.get(key)
    if hit is not None and hit[0] is all_fails:
        return hit[1]
    idx = {}
    for g in all_fails:
        if g["code"] == 399:
            k = (g["case"], g["term"], g["cfg"])
            if k not in idx or g["op"] < idx[k]:
                idx[k] = g["op"]
    _MARKERS.clear()
    _MARKERS[key] = (all_fails, idx)
    return idx


def run_check(pid, tier, seed, replay=None):
    t0 = time.time()
    P = PROPS[pid]
    ctx = vc.Ctx(pid, tier, seed)
    codes = set(P["codes"])
    extra = EXTRA.get(P.get("extra"))
    violations = []           # (replay path, reason, no_input?)
    known_hits = {}
    notes = []

    bad = vc.hygiene()
    if bad:
        vc.log("development hygiene failure (Admitted/Axiom/disabled checks):", *bad, sep="\n  ")
        return 2

    # 1. proofs -----------------------------------------------------------------
    if True:
        serr = special.build_statics()
        if serr:
            path = vc.write_replay(pid, seed, "statics", [], {"property": pid, "broken": "static-storage scan of the sources / objects", "detail": serr})
            vc.log("VIOLATION property=%s replay=%s no-failing-input-found" % (pid, path))
            return 1
    cq = vc.coq_phase(ctx, P["targets"] + ["Tie_Statics.vo"])
    if cq.get("gen_error"):
        path = vc.write_replay(pid, seed, "gen", [], {"property": pid, "broken": "gen/dump.cpp against the current headers", "detail": cq["gen_error"]})
        vc.log("VIOLATION property=%s replay=%s no-failing-input-found" % (pid, path))
        return 1
    proof_failed = [t for t in cq["failed"] if t != "Extract.vo"]
    statics_broken = "Tie_Statics.vo" in proof_failed
    if "Extract.vo" in cq["failed"]:
        vc.log(cq["log"][-3000:])
        vc.log("internal error: the model does not build")
        return 2
    if proof_failed:
        m = re.findall(r'File "\./([^"]+)", line (\d+)[^\n]*\n(?:[^\n]*\n){0,6}', cq["log"])
        notes.append("proof obligations no longer check: " + ", ".join(proof_failed))
    ass = vc.print_assumptions([t for t in P["targets"] if t not in proof_failed])
    closed, axioms = 0, []
    n_theorems = 0
    for src, txt in ass.items():
        c, ax = vc.parse_assumptions(txt)
        closed += c
        axioms += ax
    for t in P["targets"]:
        n_theorems += len(re.findall(r"^\s*(Theorem|Corollary)\b", open(os.path.join(VERIF, "coq", t[:-1])).read(), flags=re.M))
    discharged = 0
    for t in P["targets"]:
        if t not in proof_failed:
            discharged += len(re.findall(r"^\s*(Theorem|Corollary)\b", open(os.path.join(VERIF, "coq", t[:-1])).read(), flags=re.M))

    chk = None
    if tier == "thorough" and not proof_failed:
        chk = vc.coqchk(P["targets"])
        if not chk["ok"]:
            notes.append("coqchk did not accept the compiled files: " + chk["summary"][:300])
            proof_failed = list(P["targets"])

    # 2. builds -------------------------------------------------------------------
    exe, secs, err = vbuild.build_impl("asan")
    if err:
        path = vc.write_replay(pid, seed, "build", [], {"property": pid, "broken": "the harness no longer builds against /repo", "detail": err[:4000]})
        vc.log("VIOLATION property=%s replay=%s no-failing-input-found" % (pid, path))
        return 1
    ctx.impl["asan"] = exe
    ctx.host_locale = True
    mexe, merr = vbuild.build_model_driver()
    if merr:
        vc.log(merr)
        vc.log("internal error: the model driver does not build")
        return 2
    ctx.model = mexe

    # 3. correspondence + oracle --------------------------------------------------
    stats = {"families": {}, "evaluations": 0, "ops": 0, "distinct": set(), "samples": [], "op_hist": {}}
    mismatches = []    # (family, seed, cid, k, impl, model, script lines)
    fails = []         # (family, seed, fail dict, case lines)
    crashes = []

    def do_family(fam, sd, n, tag):
        lines = gen_family(fam, sd, n)
        return do_script(fam, sd, lines, tag)

    def do_script(fam, sd, lines, tag):
        res = vc.run_script(ctx, "%s-%s-%s" % (fam, sd, tag), lines,
                            want_oracle=bool(codes), want_model=True, expand=P.get("expand", False))
        cases, order = vc.split_cases(lines)
        stats["evaluations"] += len(order)
        fs = stats["families"].setdefault(fam, {"cases": 0, "ops": 0})
        fs["cases"] += len(order)
        for cid in order:
            body = cases[cid][1:-1]
            fs["ops"] += len(body)
            stats["ops"] += len(body)
            for l in body:
                t = l.split()
                key = t[0] + " " + (t[2] if t[0] in "TKSP" and len(t) > 2 else t[1] if len(t) > 1 else "")
                stats["op_hist"][key] = stats["op_hist"].get(key, 0) + 1
            if len(body) >= 2:
                stats["distinct"].add(hash("\n".join(body)))
        if len(stats["samples"]) < 3 and order:
            stats["samples"].append({"family": fam, "seed": sd, "case": cases[order[len(order) // 2]]})
        if res.get("locale_diff"):
            cidl, la, lb = res["locale_diff"]
            fails.append((fam, sd, {"case": cidl, "code": 0, "cfg": "-", "op": -1,
                                    "why": "the library's behaviour depends on the host program's environment: in main() with the classic locale [%s]; under a global locale with digit grouping, after setlocale to a UTF-8 locale, or run from a namespace-scope constructor [%s]" % (la[:120], lb[:120])},
                          cases.get(cidl)))
        if res["impl_rc"] != 0:
            crashes.append((fam, sd, res["impl_rc"], res["impl_err"], lines, res))
        if "oracle_err" in res:
            notes.append(res["oracle_err"])
        for (cid, k, la, lb) in res["mismatches"]:
            mismatches.append((fam, sd, cid, k, la, lb, cases.get(cid)))
        for f in res["oracle_fails"]:
            if f["code"] in codes:
                kf = match_known(pid, f, cases.get(f["case"]), res["oracle_fails"])
                if kf:
                    known_hits[kf["id"]] = known_hits.get(kf["id"], 0) + 1
                else:
                    fails.append((fam, sd, f, cases.get(f["case"])))
        if extra:
            for (cid, why) in extra(res["impl_lines"]):
                if why.startswith("KNOWN:"):
                    known_hits[why[6:]] = known_hits.get(why[6:], 0) + 1
                    continue
                fails.append((fam, sd, {"case": cid, "code": 0, "cfg": "-", "op": -1, "why": why}, cases.get(cid)))
        return res

    sp_stats = None
    if replay:
        rl = [l for l in open(replay).read().split("\n") if l.strip() and not l.startswith("#")]
        if rl and P.get("special") == "c14" and any(l.startswith("X stdout") for l in rl):
            for why in special.replay_c14(ctx, rl):
                fails.append(("replay", seed, {"case": "-", "code": 0, "cfg": "-", "op": -1, "why": why}, rl))
        elif rl:
            do_script("replay", seed, rl, "replay")
        for (fam, sd, f, cl) in fails:
            vc.log("replay: property %s FAILS on this input: %s" % (pid, f.get("why") or CLAUSE.get(f["code"], "")))
        for m in mismatches[:3]:
            vc.log("replay: model and implementation differ: case %s line %s: impl [%s] model [%s]" % (m[2], m[3], m[4], m[5]))
        for c in crashes[:1]:
            vc.log("replay: the library stopped on this input (exit %s): %s" % (c[2], c[3][-600:]))
        if not fails and not mismatches and not crashes:
            vc.log("replay: the property holds on this input and the implementation agrees with the model")
        if fails or crashes:
            vc.log("VIOLATION property=%s replay=%s" % (pid, replay))
        return 1 if (fails or crashes) else 0
    if P.get("special"):
        runner = special.run_c12 if P["special"] == "c12" else special.run_c14
        # a broken proof obligation (e.g. the statics scan) makes the search for a
        # failing schedule deeper: more groups, and the threaded runs under TSan
        ctx.escalate = bool(proof_failed)
        sp_fails, sp_stats = runner(pid, tier, seed, ctx, P)
        stats["evaluations"] += sum(v for v in sp_stats.values() if isinstance(v, int) and not isinstance(v, bool))
        for (why, lines) in sp_fails:
            if why.startswith("TIE:"):
                mismatches.append(("special", seed, "-", 0, why, "", lines))
            else:
                fails.append(("special", seed, {"case": "-", "code": 0, "cfg": "-", "op": -1, "why": why, "noshrink": True}, lines))
        stats["distinct"].update(range(min(stats["evaluations"], 100000)))
        stats["samples"].append({"family": "special", "stats": sp_stats})

    # corpus first
    for fam, _w in P["families"]:
        for f in sorted(glob.glob(os.path.join(VERIF, "corpus", fam, "*.script"))):
            lines = [l for l in open(f).read().split("\n") if l and not l.startswith("#")]
            do_script(fam, 0, lines, "corpus-" + os.path.basename(f)[:-7])

    seeds = [seed] if tier == "quick" else [seed + i for i in range(THOROUGH_SEEDS)]
    for sd in seeds:
        for fam, weight in P["families"]:
            do_family(fam, sd, max(20, int(BASE_N[tier] * weight)), "main")
    if tier == "thorough" and pid in ("C05", "C06", "C07", "C20"):
        # complete small scope: every byte string up to length 4 over the parser's byte classes
        do_family("parser_enum", seed, 20000, "enum")

    # state outside the objects: the single-object model is no longer a faithful reading,
    # and the way such state shows is through other objects used at the same time - the
    # same scripts with every case on its own thread, judged by the same oracles
    if statics_broken and not fails and pid not in ("C12", "C14"):
        for fam, weight in P["families"]:
            lines = gen_family(fam, seed, max(20, int(600 * weight)))
            if P.get("expand"):
                continue
            res_t = vc.run_script(ctx, "%s-%s-threads" % (fam, seed), lines, impl_mode="threads",
                                  want_oracle=bool(codes), want_model=True)
            cases_t, _o = vc.split_cases(lines)
            for f in res_t["oracle_fails"]:
                if f["code"] in codes and not match_known(pid, f, cases_t.get(f["case"]), res_t["oracle_fails"]):
                    f = dict(f); f["why"] = (CLAUSE.get(f["code"], "") + " - when other terminals are used on other threads at the same time (replay: all cases of the script concurrently)")
                    f["noshrink"] = True
                    fails.append((fam, seed, f, lines[:400]))
                    break
            if not fails:
                for (cid, k, la, lb) in res_t["mismatches"][:1]:
                    fails.append((fam, seed, {"case": cid, "code": 0, "cfg": "-", "op": -1, "noshrink": True,
                                              "why": "run concurrently with other objects on other threads, case %s produced [%s] where alone (and in the model) it produces [%s]" % (cid, la[:160], lb[:160])}, lines[:400]))
            if fails:
                break

    # widen once when a proof or the tie is broken but no failing input was found
    if (proof_failed or mismatches or crashes) and not fails and tier == "quick":
        for sd in [seed + 101, seed + 202, seed + 303, seed + 404]:
            for fam, weight in P["families"]:
                do_family(fam, sd, max(20, int(BASE_N["quick"] * 2 * weight)), "widen")
            if fails:
                break

    # 4. verdict --------------------------------------------------------------------
    rc = 0
    real_fails = []
    real_fails = list(fails)

    if real_fails:
        fam, sd, f, case_lines = real_fails[0]

        def still(ls):
            r = vc.run_script(ctx, "shrink", ls, want_oracle=bool(codes), want_model=False, expand=P.get("expand", False))
            if extra:
                return any(not w.startswith("KNOWN:") for (_c, w) in extra(r["impl_lines"]))
            return any(x["code"] == f["code"] and x["cfg"] == f["cfg"]
                       and not match_known(pid, x, ls, r["oracle_fails"]) for x in r["oracle_fails"])
        small = (vc.shrink(ctx, case_lines, still) if case_lines and not f.get("noshrink") else (case_lines or []))
        why = f.get("why") or CLAUSE.get(f["code"], "")
        r = vc.run_script(ctx, "final", small, want_oracle=bool(codes), want_model=True, expand=P.get("expand", False)) if not f.get("noshrink") else {"impl_lines": []}
        path = vc.write_replay(pid, sd, "%s-%s" % (fam, f["case"]), small, {
            "property": pid, "clause": why, "oracle_code": f["code"], "reference_terminal": f["cfg"],
            "family": fam, "seed": sd, "case": f["case"], "failing_op_index": f["op"],
            "implementation_output": "\n".join(l for l in r["impl_lines"] if l),
            "how_to_replay": "bin/check %s --replay <this file>" % pid})
        vc.log("VIOLATION property=%s replay=%s" % (pid, path))
        rc = 1
    elif crashes:
        # the library stopped on a generated, legal input (sanitizer report, abort,
        # uncaught exception): whatever the property says about that input cannot hold.
        # For C07 this is the property itself; for the others it is reported with the
        # input as the failing one.
        # the sanitizer build stopped: undefined behaviour / crash on some input
        fam, sd, crc, cerr, lines_all, res = crashes[0]
        last = None
        for l in res["impl_lines"]:
            m = re.match(r"^> CASE (\S+)", l)
            if m:
                last = m.group(1)
        cases_all, _ = vc.split_cases(lines_all)
        case_lines = cases_all.get(last, [])

        def still_crash(ls):
            r = vc.run_script(ctx, "shrink", ls, want_oracle=False, want_model=False, expand=P.get("expand", False))
            return r["impl_rc"] != 0
        small = vc.shrink(ctx, case_lines, still_crash) if case_lines else []
        path = vc.write_replay(pid, sd, "%s-%s-crash" % (fam, last), small, {
            "property": pid, "clause": "the library stopped under AddressSanitizer/UndefinedBehaviourSanitizer (or crashed / hung) on this input",
            "family": fam, "seed": sd, "case": last, "implementation_exit": crc, "sanitizer_report": cerr[-3500:],
            "how_to_replay": "bin/check %s --replay <this file>" % pid})
        vc.log("VIOLATION property=%s replay=%s" % (pid, path))
        rc = 1
    elif proof_failed or mismatches or crashes:
        info = {"property": pid, "no_failing_input_found": "the property oracle passed on every explored case",
                "proof_obligations_broken": ", ".join(proof_failed) or "none",
                "correspondence_mismatches": len(mismatches), "implementation_crashes": len(crashes)}
        lines = []
        if mismatches:
            fam, sd, cid, k, la, lb, case_lines = mismatches[0]
            info.update({"family": fam, "seed": sd, "case": cid, "first_difference_line": k,
                         "implementation_says": la, "model_says": lb})
            lines = case_lines or []
        elif crashes:
            fam, sd, crc, cerr, lines_all, res = crashes[0]
            info.update({"family": fam, "seed": sd, "implementation_exit": crc, "stderr": cerr[-3000:]})
        if proof_failed:
            info["coq_log_tail"] = cq["log"][-2500:]
        path = vc.write_replay(pid, seed, "tie", lines, info)
        vc.log("VIOLATION property=%s replay=%s no-failing-input-found" % (pid, path))
        rc = 1

    for f in known_for(pid):
        vc.log("KNOWN-FINDING: property=%s %s" % (pid, f["what"]))

    # 5. evidence -----------------------------------------------------------------------
    tb = ["Coq 8.16.1 kernel (coqc, vm_compute for finite sweeps; no native_compute)",
          "VT.v reference terminal and Oracle.v clauses (hand-written specification)",
          "gen/dump.cpp translator (real headers -> Generated.v)",
          "extraction via ExtrOcamlBasic only; driver/driver.ml; harness/impl_driver.cpp; lib/*.py",
          "Print Assumptions: %d theorem(s) closed under the global context; axioms: %s" % (closed, ", ".join(sorted(set(axioms))) or "none")]
    cov = {
        "obligations": max(n_theorems, 1), "discharged": discharged,
        "checker_cmd": "cd /verif/coq && make -f Makefile.coq %s   (full .vo build; Print Assumptions under every theorem)" % " ".join(P["targets"]),
        "trusted_base": tb,
        "evaluations": stats["evaluations"], "distinct_nontrivial": len(stats["distinct"]),
        "rule": "cases are generated by lib/gen.py from one splitmix64 stream per (seed, family); a case is non-trivial when it has at least two operations after object creation; distinct = distinct operation texts",
        "samples": stats["samples"],
        "traces_validated_against_impl": stats["evaluations"],
        "input_distribution": {"families": stats["families"], "operations": stats["op_hist"]},
        "correspondence_mismatches": len(mismatches), "oracle_failures": len(real_fails),
        "known_findings_seen": sorted(known_hits.keys()),
        "proof_targets_failed": proof_failed, "notes": notes, "special": sp_stats,
        "coqchk": chk, "partial": pid in PARTIAL,
        "explanation": PARTIAL.get(pid, "all clauses of the property are decided by theorems about the model; the tie to the code is generation + sampled correspondence"),
        "exhaustive": False,
    }
    assumptions = ([PARTIAL[pid]] if pid in PARTIAL else []) + [
                   "glyphs displayable, one cell per glyph, declared size = actual size (DESIGN.md section 8)",
                   "the correspondence is sampled differential testing, not a proof about the C++"]
    vc.write_evidence(pid, tier, seed, "proof", cov, assumptions, time.time() - t0, 1 if rc else 0)
    vc.log("%s: %s  (theorems %d/%d, cases %d, mismatches %d, oracle failures %d, %.1fs)" % (
        pid, "OK" if rc == 0 else "VIOLATION", discharged, n_theorems, stats["evaluations"], len(mismatches), len(real_fails), time.time() - t0))
    return rc
