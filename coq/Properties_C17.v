(* Properties_C17.v — C17: the plain text of a string is preserved from
   construction to the wire. *)
From TP Require Import Base Elem Term VT Markup Oracle P_Sync P_Step P_Bytes P_Run P_Props Tie_Output Strings P_Strings.
Local Open Scope N_scope.

Theorem C17_bytes_roundtrip : forall bs, to_string (of_bytes bs) = bs.
Proof. exact to_string_of_bytes. Qed.
Print Assumptions C17_bytes_roundtrip.

Theorem C17_concat : forall a b, to_string (a ++ b) = to_string a ++ to_string b.
Proof. exact to_string_app. Qed.
Print Assumptions C17_concat.

(* what goes on the wire for one glyph is its to_string, for every glyph of a
   non-UTF-8 set and every well-formed UTF-8 glyph (U+0000 included) *)
Theorem C17_glyph_wire :
  forall g, cs_eqb (gcs g) CsUtf8 = false \/ wf_utf8 g = true -> wire g = glyph_text g.
Proof. exact wire_text. Qed.
Print Assumptions C17_glyph_wire.

(* structure of what a write emits: controls, then the glyph's bytes *)
Theorem C17_write_structure :
  forall beh st e, exists ctl,
    snd (write_element beh st e) = ctl ++ [Payload (wire (eg e))] /\
    forallb ctl_ok ctl = true.
Proof.
  intros beh st e. unfold write_element. cbn [snd].
  eexists. rewrite app_assoc. split; [reflexivity|].
  rewrite forallb_app, ctl_change_charset, ctl_change_attribute. reflexivity.
Qed.
Print Assumptions C17_write_structure.

(* the glyph bytes a terminal receives for a string, with all control
   functions interpreted away, are to_string of the string - after any history *)
Theorem C17_wire :
  forall cfg beh, (b_unicode_all beh = true -> unicode_all cfg = true) ->
  forall st v es, Sync beh st v -> forallb wf_elem es = true ->
    let v' := vt_bytes cfg v (obytes beh st (WStr es)) in
    exists tr, trace v' = rev tr ++ trace v /\
               flat_map (fun pc => c_bytes (snd pc)) tr = to_string es.
Proof.
  intros cfg beh Huni st v es S Hes v'.
  pose proof (sync_step cfg beh Huni st v (WStr es) S (wf_elems_c es Hes)) as H. cbv zeta in H.
  destruct H as (_ & (tr & Hpl & Htr) & _).
  exists tr. split; [exact Htr|].
  rewrite (placed_text _ _ _ _ Hpl (wf_elems_c es Hes)). cbn [op_elems op_elements].
  rewrite (no_ctl_visible es (wf_elems_no_ctl es Hes)). reflexivity.
Qed.
Print Assumptions C17_wire.

(* the same for strings containing format effectors (newline, carriage
   return, tab, backspace): the terminal shows the glyphs of the other
   elements, in order; the effectors themselves are text on the wire (next
   theorem) but not glyphs *)
Theorem C17_wire_with_format_effectors :
  forall cfg beh, (b_unicode_all beh = true -> unicode_all cfg = true) ->
  forall st v es, Sync beh st v -> forallb wf_elem_c es = true ->
    let v' := vt_bytes cfg v (obytes beh st (WStr es)) in
    exists tr, trace v' = rev tr ++ trace v /\
               flat_map (fun pc => c_bytes (snd pc)) tr = to_string (visible es).
Proof.
  intros cfg beh Huni st v es S Hes v'.
  pose proof (sync_step cfg beh Huni st v (WStr es) S Hes) as H. cbv zeta in H.
  destruct H as (_ & (tr & Hpl & Htr) & _).
  exists tr. split; [exact Htr|]. exact (placed_text _ _ _ _ Hpl Hes).
Qed.
Print Assumptions C17_wire_with_format_effectors.

(* on the wire, for EVERY string (any glyphs, control characters included) and
   every state: the bytes that are not part of a control function the library
   emits are exactly the glyphs' wire bytes in order - to_string of the string
   whenever its UTF-8 glyphs are well-formed.  Attributes and character sets
   never alter, drop or duplicate text. *)
Theorem C17_payload :
  forall beh st es,
    payload_of (snd (write_elements beh st es)) = flat_map (fun e => wire (eg e)) es /\
    (forallb (fun e => negb (cs_eqb (gcs (eg e)) CsUtf8) || wf_utf8 (eg e)) es = true ->
     payload_of (snd (write_elements beh st es)) = to_string es).
Proof.
  intros beh st es. split; [apply payload_write_elements|].
  intros H. rewrite payload_write_elements. unfold to_string.
  induction es as [|e r IH]; [reflexivity|].
  cbn [forallb] in H. apply andb_prop in H as [He Hr]. cbn [flat_map]. rewrite (IH Hr). f_equal.
  apply wire_text. destruct (cs_eqb (gcs (eg e)) CsUtf8); [right; exact He|left; reflexivity].
Qed.
Print Assumptions C17_payload.

Example C17_nonvacuous :
  wire (mkGlyph CsUtf8 0 0 0) = [0] /\ glyph_text (mkGlyph CsUtf8 0 0 0) = [0] /\
  wf_utf8 (mkGlyph CsUtf8 226 152 186) = true.
Proof. repeat split. Qed.

(* the mutating interface of the string class: whatever is inserted, appended,
   overwritten or erased, the text of the untouched parts is preserved exactly
   and the text of what was added appears exactly once, where it was put
   (positions are element indices; an element's text is its glyph's bytes) *)
Theorem C17_string_operations :
  forall (s t : tstring) (e : element) (pos a b i : nat),
    to_string (s_append s t) = to_string s ++ to_string t /\
    to_string (s_append_elem s e) = to_string s ++ glyph_text (eg e) /\
    to_string (s_insert s pos e) = to_string (firstn pos s) ++ glyph_text (eg e) ++ to_string (skipn pos s) /\
    to_string (s_insert_range s pos t) = to_string (firstn pos s) ++ to_string t ++ to_string (skipn pos s) /\
    to_string (s_erase_range s a b) = to_string (firstn a s) ++ to_string (skipn b s) /\
    to_string (s_erase_from s pos) = to_string (firstn pos s) /\
    to_string (s_erase_all s) = [] /\
    ((i < length s)%nat ->
     to_string (s_set s i e) = to_string (firstn i s) ++ glyph_text (eg e) ++ to_string (skipn (S i) s)) /\
    to_string s = to_string (firstn pos s) ++ to_string (skipn pos s).
Proof.
  intros s t e pos a b i.
  split; [apply to_string_app|]. split; [apply to_string_append_elem|].
  split; [apply to_string_insert|]. split; [apply to_string_insert_range|].
  split; [apply to_string_erase_range|]. split; [reflexivity|]. split; [reflexivity|].
  split; [apply to_string_set|apply to_string_split].
Qed.
Print Assumptions C17_string_operations.

(* the constructors: from bytes with an attribute (text unchanged, every element
   carries the attribute), from a C string (the text up to the first NUL, as
   strlen defines it), and n copies of an element *)
Theorem C17_string_constructors :
  forall bs a n e,
    to_string (s_of_bytes_attr bs a) = bs /\
    Forall (fun x => ea x = a) (s_of_bytes_attr bs a) /\
    to_string (s_of_cstr bs) = until_nul bs /\
    (exists rest, bs = until_nul bs ++ rest /\ (rest = [] \/ hd 1 rest = 0)) /\
    forallb (fun b => negb (b =? 0)) (until_nul bs) = true /\
    to_string (s_fill n e) = concat (repeat (glyph_text (eg e)) n).
Proof.
  intros bs a n e.
  split; [apply to_string_of_bytes_attr|].
  split; [unfold s_of_bytes_attr; apply Forall_forall; intros x Hx; apply in_map_iff in Hx as (y & Hy & _); subst x; reflexivity|].
  split; [unfold s_of_cstr; apply to_string_of_bytes|].
  split; [apply until_nul_prefix|]. split; [apply until_nul_no_nul|apply to_string_fill].
Qed.
Print Assumptions C17_string_constructors.
