(* Properties_C16.v -- placeholder, theorems follow *)
From TP Require Import Term.
