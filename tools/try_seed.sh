#!/bin/bash
# usage: tools/try_seed.sh <patch.diff> <prop> [<prop>...]   -- applies the patch to /repo, runs the quick checks, reverts
patch=$1; shift
git -C /repo apply "$patch" || { echo "patch does not apply"; exit 2; }
for p in "$@"; do /verif/bin/check $p 2>&1 | grep -E "VIOLATION|OK|error" | cut -c1-200; done
git -C /repo checkout -- .
