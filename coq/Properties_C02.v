(* Properties_C02.v -- placeholder, theorems follow *)
From TP Require Import Term.
