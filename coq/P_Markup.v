(* P_Markup.v — the markup decoder terminates, consumes input on every step,
   never yields more elements than input characters, and only ever indexes the
   handler table inside its bounds. *)
From TP Require Import Base Elem Term Markup.
From Coq Require Import ZArith Lia ZifyBool ZifyN ZifyNat.
Local Open Scope N_scope.

Lemma parse_loop_le : forall text i e,
  (length (fst (parse_loop text i e)) <= length text)%nat.
Proof.
  induction text as [|c r IH]; intros i e; [cbn; lia|].
  cbn [parse_loop]. destruct (is_done (mi_st i)); [cbn; lia|].
  destruct (mstep c i e) as [i' e']. specialize (IH i' e'). cbn [length]. lia.
Qed.

Lemma parse_loop_lt c r i e : is_done (mi_st i) = false ->
  (length (fst (parse_loop (c :: r) i e)) < length (c :: r))%nat.
Proof.
  intros H. cbn [parse_loop]. rewrite H. destruct (mstep c i e) as [i' e'].
  pose proof (parse_loop_le r i' e'). cbn [length]. lia.
Qed.

(* parse_element consumes at least one character of a non-empty input: the
   termination argument of encode()'s loop *)
Lemma parse_element_consumes c r base :
  (length (fst (parse_element (c :: r) base)) < length (c :: r))%nat.
Proof. unfold parse_element. apply parse_loop_lt. reflexivity. Qed.

Lemma encode_loop_len : forall fuel text prev,
  (length (encode_loop fuel text prev) <= length text)%nat.
Proof.
  induction fuel as [|f IH]; intros text prev; [cbn; lia|].
  cbn [encode_loop]. destruct text as [|c r]; [cbn; lia|].
  pose proof (parse_element_consumes c r prev) as Hc.
  destruct (parse_element (c :: r) prev) as [rest e]. cbn [fst] in Hc.
  specialize (IH rest e). cbn [length] in *. lia.
Qed.

(* the fuel (length of the input) never runs out: any larger fuel gives the
   same result, and the loop only stops on empty input *)
Lemma encode_loop_fuel : forall fuel text prev extra,
  (length text <= fuel)%nat ->
  encode_loop (fuel + extra) text prev = encode_loop fuel text prev.
Proof.
  induction fuel as [|f IH]; intros text prev extra H.
  - destruct text; [|cbn in H; lia]. destruct extra; reflexivity.
  - cbn [Nat.add encode_loop]. destruct text as [|c r]; [reflexivity|].
    pose proof (parse_element_consumes c r prev) as Hc.
    destruct (parse_element (c :: r) prev) as [rest e]. cbn [fst] in Hc.
    f_equal. apply IH. cbn [length] in *. lia.
Qed.

Lemma handler_index_in_bounds s : is_done s = false -> mstate_index s < 38.
Proof. destruct s; cbn; intros H; try discriminate; reflexivity. Qed.

(* the state after a step is always one of the 39 enumerators, so the index
   computed for the NEXT iteration is < 38 unless it is done (38) *)
Lemma mstep_state_range c i e : mstate_index (mi_st (fst (mstep c i e))) <= 38.
Proof. destruct (mi_st (fst (mstep c i e))); cbn; lia. Qed.
