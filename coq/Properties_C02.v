(* Properties_C02.v — C02: a cursor move puts the next glyph where it was asked,
   on every kind of terminal. *)
From TP Require Import Base Elem Term VT Oracle P_Sync P_Step P_Bytes P_Run P_Props Tie_Output.
Local Open Scope N_scope.

(* From any state reachable by any well-formed history (writes into the last
   column, moves, save/restore, erases, size changes with an arbitrary adopted
   cursor), on any of the three wrap behaviours: after a move to a position p
   inside the declared size, a string of n <= width - x glyphs lands on
   (x, y), (x+1, y), ..., and shows exactly the requested elements. *)
Theorem C02_placement :
  forall cfg beh, (b_unicode_all beh = true -> unicode_all cfg = true) ->
  forall v0 h p es, vt0_ok v0 -> wf_hist beh init_tstate h ->
    let st := fst (hrun cfg beh init_tstate v0 h) in
    let v := snd (hrun cfg beh init_tstate v0 h) in
    inside p (ts_size st) = true -> forallb wf_elem es = true ->
    fst p + N.of_nat (length es) <= fst (ts_size st) ->
    let v' := snd (hrun cfg beh st v [HOp (Move p); HOp (WStr es)]) in
    exists tr, trace v' = rev tr ++ trace v /\
               map fst tr = row_positions (fst p) (snd p) (length es) /\
               map snd tr = map display_of es.
Proof.
  intros cfg beh Huni v0 h p es H0 Hwf st v Hin Hes Hlen v'.
  destruct (sync_hrun cfg beh Huni h init_tstate v0 (sync_init beh v0 H0) Hwf) as [S _].
  fold st v in S.
  pose proof (sync_move cfg beh st v p S Hin) as Hm. cbv zeta in Hm.
  destruct Hm as (S1 & Ht1 & _ & _ & _ & _ & Hc1 & _ & Hs1 & _).
  rewrite <- (step_bytes cfg beh Huni st v (Move p) S Hin) in S1, Ht1.
  pose proof (sync_step cfg beh Huni _ _ (WStr es) S1 (wf_elems_c es Hes)) as Hw. cbv zeta in Hw.
  destruct Hw as (_ & (tr & Hpl & Htr) & _).
  exists tr. unfold v', hrun. cbn [fold_left hstep snd fst].
  split; [rewrite Htr, Ht1; reflexivity|].
  rewrite Hc1, Hs1 in Hpl. cbn [op_elems op_elements] in Hpl.
  split; [|rewrite (placed_cells _ _ _ _ Hpl), (no_ctl_visible es (wf_elems_no_ctl es Hes)); reflexivity].
  destruct p as [x y]. exact (placed_positions _ es x y tr Hpl (wf_elems_no_ctl es Hes) Hlen).
Qed.
Print Assumptions C02_placement.

(* the same for a single element written with operator<< or as a bare
   write_element manipulator *)
Theorem C02_single :
  forall cfg beh, (b_unicode_all beh = true -> unicode_all cfg = true) ->
  forall st v p e, Sync beh st v -> inside p (ts_size st) = true -> wf_elem e = true ->
    let v' := snd (hrun cfg beh st v [HOp (Move p); HOp (WElem e)]) in
    trace v' = (p, display_of e) :: trace v.
Proof.
  intros cfg beh Huni st v p e S Hin He v'.
  pose proof (sync_move cfg beh st v p S Hin) as Hm. cbv zeta in Hm.
  destruct Hm as (S1 & Ht1 & _ & _ & _ & _ & Hc1 & _ & Hs1 & _).
  rewrite <- (step_bytes cfg beh Huni st v (Move p) S Hin) in S1, Ht1.
  pose proof (sync_step cfg beh Huni _ _ (WElem e) S1 (wf_elem_wf_elem_c e He)) as Hw. cbv zeta in Hw.
  destruct Hw as (_ & (tr & Hpl & Htr) & _).
  unfold v', hrun. cbn [fold_left hstep snd fst]. rewrite Htr, Ht1.
  cbn [op_elems op_elements] in Hpl. rewrite Hc1 in Hpl.
  inversion Hpl as [|c e' es' q tr' Hc Hq Hrest|c e' es' tr' Hc Hrest]; subst.
  - inversion Hrest; subst. rewrite (Hq p eq_refl). reflexivity.
  - rewrite (wf_elem_not_control e He) in Hc. discriminate.
Qed.
Print Assumptions C02_single.

Example C02_nonvacuous :
  inside (2, 1) (4, 2) = true /\ 2 + N.of_nat 2 <= 4 /\
  row_positions 2 1 2 = [(2, 1); (3, 1)].
Proof. repeat split; cbn; discriminate. Qed.
