(* VT.v — the reference terminal: a specification of how "a standard
   ANSI/VT terminal" interprets a byte stream.  This file is SPECIFICATION
   (trusted base), not a model of /repo.  Definitions only. *)
From TP Require Export Term.
Local Open Scope N_scope.

Inductive wrapmode := Deferred | Immediate | NoWrap.
Record vtcfg := mkCfg { wrap : wrapmode; bce : bool; unicode_all : bool }.

Inductive vcolour := VDefault | VIdx (n : N) | VRgb (r g b : N).
Record rendition := mkRend {
  r_int : intensity; r_ul : bool; r_neg : bool; r_blink : bool;
  r_fg : vcolour; r_bg : vcolour }.
Definition default_rend : rendition :=
  mkRend INormal false false false VDefault VDefault.

Inductive shown := ShownCs (c : charset) | ShownUtf8 | Garbled.
Record cell := mkCell { c_bytes : list byte; c_shown : shown; c_rend : rendition }.
Definition blank_cell (r : rendition) : cell := mkCell [32] (ShownCs CsAscii) r.

Inductive lexst :=
| Ground
| LEsc                                   (* after ESC *)
| LEscG0                                 (* after ESC ( *)
| LEscG0Pct                              (* after ESC ( % *)
| LEscPct                                (* after ESC % *)
| LCsi (priv : bool) (acc : list N) (cur : option N)   (* acc reversed *)
| LOsc (body : list byte)                (* body reversed *)
| LOscEsc (body : list byte)
| LUtf8 (need : bool) (got : list byte). (* need = true: two more bytes; got reversed *)

Record vt := mkVt {
  lex : lexst;
  malformed : bool;
  unknown : bool;
  vsize : pt;
  cells : pt -> cell;
  vcur : pt;
  pending : bool;
  rend : rendition;
  g0cs : charset;
  utf8 : bool;
  vsaved : option pt;
  vis : bool;
  m1000 : bool;
  m1003 : bool;
  altbuf : bool;
  title : list byte;
  trace : list (pt * cell) }.

Definition set_lex (v : vt) (x : lexst) : vt :=
  mkVt x (malformed v) (unknown v) (vsize v) (cells v) (vcur v) (pending v) (rend v) (g0cs v) (utf8 v) (vsaved v) (vis v) (m1000 v) (m1003 v) (altbuf v) (title v) (trace v).
Definition set_malformed (v : vt) (x : bool) : vt :=
  mkVt (lex v) x (unknown v) (vsize v) (cells v) (vcur v) (pending v) (rend v) (g0cs v) (utf8 v) (vsaved v) (vis v) (m1000 v) (m1003 v) (altbuf v) (title v) (trace v).
Definition set_unknown (v : vt) (x : bool) : vt :=
  mkVt (lex v) (malformed v) x (vsize v) (cells v) (vcur v) (pending v) (rend v) (g0cs v) (utf8 v) (vsaved v) (vis v) (m1000 v) (m1003 v) (altbuf v) (title v) (trace v).
Definition set_vsize (v : vt) (x : pt) : vt :=
  mkVt (lex v) (malformed v) (unknown v) x (cells v) (vcur v) (pending v) (rend v) (g0cs v) (utf8 v) (vsaved v) (vis v) (m1000 v) (m1003 v) (altbuf v) (title v) (trace v).
Definition set_cells (v : vt) (x : pt -> cell) : vt :=
  mkVt (lex v) (malformed v) (unknown v) (vsize v) x (vcur v) (pending v) (rend v) (g0cs v) (utf8 v) (vsaved v) (vis v) (m1000 v) (m1003 v) (altbuf v) (title v) (trace v).
Definition set_vcur (v : vt) (x : pt) : vt :=
  mkVt (lex v) (malformed v) (unknown v) (vsize v) (cells v) x (pending v) (rend v) (g0cs v) (utf8 v) (vsaved v) (vis v) (m1000 v) (m1003 v) (altbuf v) (title v) (trace v).
Definition set_pending (v : vt) (x : bool) : vt :=
  mkVt (lex v) (malformed v) (unknown v) (vsize v) (cells v) (vcur v) x (rend v) (g0cs v) (utf8 v) (vsaved v) (vis v) (m1000 v) (m1003 v) (altbuf v) (title v) (trace v).
Definition set_rend (v : vt) (x : rendition) : vt :=
  mkVt (lex v) (malformed v) (unknown v) (vsize v) (cells v) (vcur v) (pending v) x (g0cs v) (utf8 v) (vsaved v) (vis v) (m1000 v) (m1003 v) (altbuf v) (title v) (trace v).
Definition set_g0cs (v : vt) (x : charset) : vt :=
  mkVt (lex v) (malformed v) (unknown v) (vsize v) (cells v) (vcur v) (pending v) (rend v) x (utf8 v) (vsaved v) (vis v) (m1000 v) (m1003 v) (altbuf v) (title v) (trace v).
Definition set_utf8 (v : vt) (x : bool) : vt :=
  mkVt (lex v) (malformed v) (unknown v) (vsize v) (cells v) (vcur v) (pending v) (rend v) (g0cs v) x (vsaved v) (vis v) (m1000 v) (m1003 v) (altbuf v) (title v) (trace v).
Definition set_vsaved (v : vt) (x : option pt) : vt :=
  mkVt (lex v) (malformed v) (unknown v) (vsize v) (cells v) (vcur v) (pending v) (rend v) (g0cs v) (utf8 v) x (vis v) (m1000 v) (m1003 v) (altbuf v) (title v) (trace v).
Definition set_vis (v : vt) (x : bool) : vt :=
  mkVt (lex v) (malformed v) (unknown v) (vsize v) (cells v) (vcur v) (pending v) (rend v) (g0cs v) (utf8 v) (vsaved v) x (m1000 v) (m1003 v) (altbuf v) (title v) (trace v).
Definition set_m1000 (v : vt) (x : bool) : vt :=
  mkVt (lex v) (malformed v) (unknown v) (vsize v) (cells v) (vcur v) (pending v) (rend v) (g0cs v) (utf8 v) (vsaved v) (vis v) x (m1003 v) (altbuf v) (title v) (trace v).
Definition set_m1003 (v : vt) (x : bool) : vt :=
  mkVt (lex v) (malformed v) (unknown v) (vsize v) (cells v) (vcur v) (pending v) (rend v) (g0cs v) (utf8 v) (vsaved v) (vis v) (m1000 v) x (altbuf v) (title v) (trace v).
Definition set_altbuf (v : vt) (x : bool) : vt :=
  mkVt (lex v) (malformed v) (unknown v) (vsize v) (cells v) (vcur v) (pending v) (rend v) (g0cs v) (utf8 v) (vsaved v) (vis v) (m1000 v) (m1003 v) x (title v) (trace v).
Definition set_title (v : vt) (x : list byte) : vt :=
  mkVt (lex v) (malformed v) (unknown v) (vsize v) (cells v) (vcur v) (pending v) (rend v) (g0cs v) (utf8 v) (vsaved v) (vis v) (m1000 v) (m1003 v) (altbuf v) x (trace v).
Definition set_trace (v : vt) (x : list (pt * cell)) : vt :=
  mkVt (lex v) (malformed v) (unknown v) (vsize v) (cells v) (vcur v) (pending v) (rend v) (g0cs v) (utf8 v) (vsaved v) (vis v) (m1000 v) (m1003 v) (altbuf v) (title v) x.

(* ---- what the user asked for, in terminal terms ------------------------ *)
Definition vcolour_of (c : colour) : vcolour :=
  match c with
  | CLow v => if v =? 9 then VDefault else VIdx v
  | CHigh v => VIdx v
  | CGrey v => VIdx v
  | CTrue r g b => VRgb r g b
  end.

Definition rend_of (a : attr) : rendition :=
  mkRend (inten a) (ul a) (neg a) (blink a) (vcolour_of (fg a)) (vcolour_of (bg a)).

Definition display_of (e : element) : cell :=
  if cs_eqb (gcs (eg e)) CsUtf8
  then mkCell (wire (eg e)) ShownUtf8 (rend_of (ea e))
  else mkCell [g0 (eg e)] (ShownCs (gcs (eg e))) (rend_of (ea e)).

(* ---- standard designators (VT/xterm control sequences documentation) --- *)
Definition std_designator (c : charset) : list byte :=
  match c with
  | CsDec => [48]            (* 0 *)
  | CsDecSup => [60]         (* < *)
  | CsDecSupGr => [37; 53]   (* %5 *)
  | CsDecTech => [62]        (* > *)
  | CsUk => [65]             (* A *)
  | CsAscii => [66]          (* B *)
  | CsDutch => [52]          (* 4 *)
  | CsFinnish => [67]        (* C *)
  | CsFrench => [82]         (* R *)
  | CsFrenchCa => [81]       (* Q *)
  | CsGerman => [75]         (* K *)
  | CsItalian => [89]        (* Y *)
  | CsDanish => [96]         (* ` *)
  | CsPortuguese => [37; 54] (* %6 *)
  | CsSpanish => [90]        (* Z *)
  | CsSwedish => [72]        (* H *)
  | CsSwiss => [61]          (* = *)
  | CsSco => [85]            (* U *)
  | CsUtf8 => []             (* not designatable *)
  end.

(* standard aliases: 5 = Finnish, f = French, 9 = French Canadian,
   E and 6 = Norwegian/Danish, 7 = Swedish *)
Definition std_alias : list (list byte * charset) :=
  [([53], CsFinnish); ([102], CsFrench); ([57], CsFrenchCa);
   ([69], CsDanish); ([54], CsDanish); ([55], CsSwedish)].

Definition bytes_eqb (a b : list byte) : bool := list_eqb N.eqb a b.

Definition std_lookup (d : list byte) : option charset :=
  match find (fun c => bytes_eqb (std_designator c) d)
             (removelast all_charsets) with
  | Some c => Some c
  | None =>
      match find (fun ac => bytes_eqb (fst ac) d) std_alias with
      | Some ac => Some (snd ac)
      | None => None
      end
  end.

(* ---- geometry ------------------------------------------------------------ *)
Definition clampN (n hi : N) : N := if hi =? 0 then 0 else N.min n (hi - 1).
Definition clamp_pt (p sz : pt) : pt := (clampN (fst p) (fst sz), clampN (snd p) (snd sz)).
Definition inside (p sz : pt) : bool := (fst p <? fst sz) && (snd p <? snd sz).

Definition erase_rend (cfg : vtcfg) (v : vt) : rendition :=
  if bce cfg then rend v else default_rend.

Definition scroll_up (cfg : vtcfg) (v : vt) : vt :=
  let h := snd (vsize v) in
  let old := cells v in
  let blank := blank_cell (erase_rend cfg v) in
  set_cells v (fun p => if snd p + 1 <? h then old (fst p, snd p + 1) else blank).

(* move to column 0 of the next row, scrolling at the bottom *)
Definition next_line (cfg : vtcfg) (v : vt) : vt :=
  let y := snd (vcur v) in
  if y + 1 <? snd (vsize v) then set_vcur v (0, y + 1)
  else set_vcur (scroll_up cfg v) (0, y).

Definition upd_cell (f : pt -> cell) (p : pt) (c : cell) : pt -> cell :=
  fun q => if pt_eqb q p then c else f q.

Definition put_glyph (cfg : vtcfg) (v : vt) (bs : list byte) (sh : shown) : vt :=
  let v1 := if pending v then set_pending (next_line cfg v) false else v in
  let c := mkCell bs sh (rend v1) in
  let p := vcur v1 in
  let v2 := set_trace (set_cells v1 (upd_cell (cells v1) p c)) ((p, c) :: trace v1) in
  if fst p + 1 <? fst (vsize v2) then set_vcur v2 (fst p + 1, snd p)
  else match wrap cfg with
       | Deferred => set_pending v2 true
       | Immediate => next_line cfg v2
       | NoWrap => v2
       end.

Definition move_to (v : vt) (p : pt) : vt :=
  set_pending (set_vcur v (clamp_pt p (vsize v))) false.

Definition in_ed (k : N) (c p : pt) : bool :=
  match k with
  | 0 => (snd c <? snd p) || ((snd p =? snd c) && (fst c <=? fst p))
  | 1 => (snd p <? snd c) || ((snd p =? snd c) && (fst p <=? fst c))
  | _ => true
  end.
Definition in_el (k : N) (c p : pt) : bool :=
  (snd p =? snd c) &&
  match k with
  | 0 => fst c <=? fst p
  | 1 => fst p <=? fst c
  | _ => true
  end.

Definition erase_region (cfg : vtcfg) (v : vt) (reg : pt -> bool) : vt :=
  let old := cells v in
  let blank := blank_cell (erase_rend cfg v) in
  set_cells v (fun p => if reg p then blank else old p).

(* ---- SGR ----------------------------------------------------------------- *)
Definition set_r_int r x := mkRend x (r_ul r) (r_neg r) (r_blink r) (r_fg r) (r_bg r).
Definition set_r_ul r x := mkRend (r_int r) x (r_neg r) (r_blink r) (r_fg r) (r_bg r).
Definition set_r_neg r x := mkRend (r_int r) (r_ul r) x (r_blink r) (r_fg r) (r_bg r).
Definition set_r_blink r x := mkRend (r_int r) (r_ul r) (r_neg r) x (r_fg r) (r_bg r).
Definition set_r_fg r x := mkRend (r_int r) (r_ul r) (r_neg r) (r_blink r) x (r_bg r).
Definition set_r_bg r x := mkRend (r_int r) (r_ul r) (r_neg r) (r_blink r) (r_fg r) x.

(* returns the new rendition and whether every parameter was understood *)
Fixpoint apply_sgr (r : rendition) (ps : list N) : rendition * bool :=
  match ps with
  | [] => (r, true)
  | 38 :: 5 :: n :: t => apply_sgr (set_r_fg r (VIdx n)) t
  | 38 :: 2 :: cr :: cg :: cb :: t => apply_sgr (set_r_fg r (VRgb cr cg cb)) t
  | 48 :: 5 :: n :: t => apply_sgr (set_r_bg r (VIdx n)) t
  | 48 :: 2 :: cr :: cg :: cb :: t => apply_sgr (set_r_bg r (VRgb cr cg cb)) t
  | p :: t =>
      match p with
      | 0 => apply_sgr default_rend t
      | 1 => apply_sgr (set_r_int r IBold) t
      | 2 => apply_sgr (set_r_int r IFaint) t
      | 22 => apply_sgr (set_r_int r INormal) t
      | 4 => apply_sgr (set_r_ul r true) t
      | 24 => apply_sgr (set_r_ul r false) t
      | 5 => apply_sgr (set_r_blink r true) t
      | 25 => apply_sgr (set_r_blink r false) t
      | 7 => apply_sgr (set_r_neg r true) t
      | 27 => apply_sgr (set_r_neg r false) t
      | 39 => apply_sgr (set_r_fg r VDefault) t
      | 49 => apply_sgr (set_r_bg r VDefault) t
      | _ =>
          if (30 <=? p) && (p <=? 37) then apply_sgr (set_r_fg r (VIdx (p - 30))) t
          else if (40 <=? p) && (p <=? 47) then apply_sgr (set_r_bg r (VIdx (p - 40))) t
          else (fst (apply_sgr r t), false)
      end
  end.

Definition flag_unknown (v : vt) : vt := set_unknown v true.
Definition flag_malformed (v : vt) : vt := set_lex (set_malformed v true) Ground.

Definition param1 (ps : list N) (i : nat) : N :=
  let p := nth i ps 0 in if p =? 0 then 1 else p.

Definition set_mode (v : vt) (m : N) (on : bool) : vt :=
  match m with
  | 25 => set_vis v on
  | 1000 => set_m1000 v on
  | 1003 => set_m1003 v on
  | 47 => set_altbuf v on
  | _ => flag_unknown v
  end.

(* one complete CSI control function *)
Definition vt_csi (cfg : vtcfg) (v : vt) (priv : bool) (ps : list N) (f : byte) : vt :=
  if priv then
    match f with
    | 104 => fold_left (fun v m => set_mode v m true) ps v
    | 108 => fold_left (fun v m => set_mode v m false) ps v
    | _ => flag_unknown v
    end
  else
    let x := fst (vcur v) in
    let y := snd (vcur v) in
    match f with
    | 72 => (* CUP *)
        if Nat.leb (length ps) 2
        then move_to v (param1 ps 1 - 1, param1 ps 0 - 1) else flag_unknown v
    | 71 => (* CHA *)
        if Nat.leb (length ps) 1 then move_to v (param1 ps 0 - 1, y) else flag_unknown v
    | 65 => (* CUU *)
        if Nat.leb (length ps) 1 then move_to v (x, y - param1 ps 0) else flag_unknown v
    | 66 => (* CUD *)
        if Nat.leb (length ps) 1 then move_to v (x, y + param1 ps 0) else flag_unknown v
    | 74 => (* ED *)
        match ps with
        | [] => erase_region cfg v (in_ed 0 (x, y))
        | [k] => if k <=? 2 then erase_region cfg v (in_ed k (x, y)) else flag_unknown v
        | _ => flag_unknown v
        end
    | 75 => (* EL *)
        match ps with
        | [] => erase_region cfg v (in_el 0 (x, y))
        | [k] => if k <=? 2 then erase_region cfg v (in_el k (x, y)) else flag_unknown v
        | _ => flag_unknown v
        end
    | 109 => (* SGR *)
        match ps with
        | [] => set_rend v default_rend
        | _ => let '(r, ok) := apply_sgr (rend v) ps in
               let v' := set_rend v r in
               if ok then v' else flag_unknown v'
        end
    | 115 => (* SCOSC *)
        match ps with [] => set_vsaved v (Some (x, y)) | _ => flag_unknown v end
    | 117 => (* SCORC: a never-saved position restores to home *)
        match ps with
        | [] => move_to v (match vsaved v with Some p => p | None => (0, 0) end)
        | _ => flag_unknown v
        end
    | _ => flag_unknown v
    end.

Definition vt_designate (v : vt) (d : list byte) : vt :=
  match std_lookup d with
  | Some c => set_g0cs v c
  | None => flag_unknown v
  end.

Definition vt_osc (v : vt) (body : list byte) : vt :=
  match body with
  | 50 :: 59 :: t => set_title v t      (* OSC 2 ; title *)
  | 48 :: 59 :: t => set_title v t      (* OSC 0 ; title *)
  | _ => flag_unknown v
  end.

(* C0 format effectors in ground state: they move the cursor and place no glyph *)
Definition vt_c0 (cfg : vtcfg) (v : vt) (b : byte) : vt :=
  let x := fst (vcur v) in
  let y := snd (vcur v) in
  match b with
  | 13 => set_pending (set_vcur v (0, y)) false                              (* CR *)
  | 10 => set_pending (if y + 1 <? snd (vsize v) then set_vcur v (x, y + 1)
                       else scroll_up cfg v) false                           (* LF *)
  | 8 => set_pending (set_vcur v (x - 1, y)) false                           (* BS *)
  | 9 => set_pending (set_vcur v (clampN ((x / 8 + 1) * 8) (fst (vsize v)), y)) false   (* HT *)
  | _ => flag_malformed v
  end.

(* a byte of text arriving in ground state *)
Definition vt_text (cfg : vtcfg) (v : vt) (b : byte) : vt :=
  if b <? 32 then vt_c0 cfg v b
  else if utf8 v then
    let sh := if unicode_all cfg || cs_eqb (g0cs v) CsAscii then ShownUtf8 else Garbled in
    if (32 <=? b) && (b <=? 126) then put_glyph cfg v [b] sh
    else if (194 <=? b) && (b <=? 223) then set_lex v (LUtf8 false [b])
    else if (224 <=? b) && (b <=? 239) then set_lex v (LUtf8 true [b])
    else flag_malformed v
  else
    if ((32 <=? b) && (b <=? 126)) || (160 <=? b)
    then put_glyph cfg v [b] (ShownCs (g0cs v))
    else flag_malformed v.

Definition vt_byte (cfg : vtcfg) (v : vt) (b : byte) : vt :=
  match lex v with
  | Ground => if b =? 27 then set_lex v LEsc else vt_text cfg v b
  | LEsc =>
      match b with
      | 91 => set_lex v (LCsi false [] None)
      | 93 => set_lex v (LOsc [])
      | 40 => set_lex v LEscG0
      | 37 => set_lex v LEscPct
      | _ => flag_malformed v
      end
  | LEscG0 =>
      if b =? 37 then set_lex v LEscG0Pct
      else if (48 <=? b) && (b <=? 126) then vt_designate (set_lex v Ground) [b]
      else flag_malformed v
  | LEscG0Pct =>
      if (48 <=? b) && (b <=? 126) then vt_designate (set_lex v Ground) [37; b]
      else flag_malformed v
  | LEscPct =>
      match b with
      | 71 => set_utf8 (set_lex v Ground) true
      | 64 => set_utf8 (set_lex v Ground) false
      | _ => flag_malformed v
      end
  | LCsi priv acc cur =>
      if is_digit b then
        set_lex v (LCsi priv acc (Some (match cur with Some c => c * 10 | None => 0 end + (b - 48))))
      else if b =? 59 then
        set_lex v (LCsi priv (match cur with Some c => c | None => 0 end :: acc) None)
      else if b =? 63 then
        match priv, acc, cur with
        | false, [], None => set_lex v (LCsi true [] None)
        | _, _, _ => flag_malformed v
        end
      else if (64 <=? b) && (b <=? 126) then
        let ps := match cur, acc with
                  | None, [] => []
                  | None, _ => rev (0 :: acc)
                  | Some c, _ => rev (c :: acc)
                  end in
        vt_csi cfg (set_lex v Ground) priv ps b
      else flag_malformed v
  | LOsc body =>
      if b =? 7 then vt_osc (set_lex v Ground) (rev body)
      else if b =? 27 then set_lex v (LOscEsc body)
      else set_lex v (LOsc (b :: body))
  | LOscEsc body =>
      if b =? 92 then vt_osc (set_lex v Ground) (rev body)
      else flag_malformed v
  | LUtf8 need got =>
      if (128 <=? b) && (b <=? 191) then
        if need then set_lex v (LUtf8 false (b :: got))
        else
          let sh := if unicode_all cfg || cs_eqb (g0cs v) CsAscii then ShownUtf8 else Garbled in
          put_glyph cfg (set_lex v Ground) (rev (b :: got)) sh
      else flag_malformed v
  end.

Definition vt_bytes (cfg : vtcfg) (v : vt) (bs : list byte) : vt :=
  fold_left (vt_byte cfg) bs v.

(* the same semantics, one complete control function at a time *)
Definition vt_exec (cfg : vtcfg) (v : vt) (c : cmd) : vt :=
  match c with
  | Csi priv ps f => vt_csi cfg v priv ps f
  | EscG0 d => vt_designate v d
  | EscUtf8 on => set_utf8 v on
  | Osc body _ => vt_osc v body
  | Payload bs => vt_bytes cfg v bs
  end.

Definition vt_execs (cfg : vtcfg) (v : vt) (cs : list cmd) : vt :=
  fold_left (vt_exec cfg) cs v.

(* a size change: the terminal adopts some cursor position inside the new
   size; the saved position is kept (it is clamped when restored) *)
Definition vt_resize (v : vt) (sz adopt : pt) : vt :=
  set_pending (set_vcur (set_vsize v sz) (clamp_pt adopt sz)) false.
